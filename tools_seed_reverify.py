#!/usr/bin/env python3
"""Re-confirms a kept seeded change against the CURRENT /repo HEAD (after the fix: commits) in a scratch worktree:
   tools_seed_reverify.py C24-a [--integration]
patch applies; demo exits 0 without and non-zero with the change; the repository's tests (all of BASELINE.stable_pass,
the integration directory only with --integration because it binds fixed ports) still pass with the change - a test that
fails is re-run alone, and on the unchanged tree, before it counts. Updates seeded/<name>/meta.json. Worktree removed."""
import json
import os
import subprocess
import sys
import xml.etree.ElementTree as ET


def sh(cmd, cwd, env=None, timeout=5400):
    return subprocess.run(cmd, shell=True, cwd=cwd, env=env, capture_output=True, text=True, timeout=timeout)


def main():
    name = sys.argv[1]
    integ = "--integration" in sys.argv
    d = f"/verif/seeded/{name}"
    meta = json.load(open(f"{d}/meta.json"))
    pid = meta["property"]
    demo = [f for f in os.listdir(d) if f.startswith("demo_")][0]
    wt = f"/tmp/sv-{name}"
    sh(f"git -C /repo worktree remove --force {wt}", "/")
    assert sh(f"git -C /repo worktree add -q --detach {wt} HEAD", "/").returncode == 0
    env = dict(os.environ, PATH="/venv/bin:" + os.environ["PATH"], PYTHONPATH=wt, PYTHONDONTWRITEBYTECODE="1")
    ran = []
    try:
        head = sh("git rev-parse --short HEAD", wt).stdout.strip()
        sh(f"cp {d}/{demo} {wt}/", wt)
        r0 = sh(f"/venv/bin/python {demo}", wt, env, 900)
        assert sh(f"git apply {d}/patch.diff", wt).returncode == 0, "patch does not apply to current HEAD"
        r1 = sh(f"/venv/bin/python {demo}", wt, env, 900)
        ran.append(f"on /repo {head}: demo without change exit {r0.returncode}, with change exit {r1.returncode}")
        print(ran[-1], flush=True)
        if r0.returncode != 0 or r1.returncode == 0:
            print("REJECT demo", r0.stdout[-400:], r1.stdout[-400:])
            return 1
        junit = f"/tmp/sv-{name}.xml"
        ign = "" if integ else "--ignore=openpectus/test/integration"
        sh(f"/venv/bin/python -m pytest -q -p no:cacheprovider --timeout=900 --continue-on-collection-errors {ign} "
           f"--junitxml={junit}", wt, env)
        base = set(json.load(open("/root/.vp/BASELINE.json"))["stable_pass"])
        if not integ:
            base = {b for b in base if ".integration." not in b}
        passed = set()
        for tc in ET.parse(junit).getroot().iter("testcase"):
            if not any(ch.tag in ("failure", "error", "skipped") for ch in tc):
                passed.add(f"{tc.get('classname')}::{tc.get('name')}")
        os.unlink(junit)
        missing = sorted(base - passed)
        ran.append(f"test-suite with change ({'incl.' if integ else 'excl.'} integration): {len(passed)} passed; baseline "
                   f"tests not passing in that run: {missing}")
        print(ran[-1], flush=True)

        def tid(m):
            cn, tn = m.split("::")
            mod, cls = cn.rsplit(".", 1)
            return f"'{mod.replace('.', '/')}.py::{cls}::{tn}'"
        def fails_alone(m, tries=3):
            # wall-clock tolerance tests flake under load: a test counts as failing only if it fails `tries` times alone
            return all(sh(f"/venv/bin/python -m pytest -q -p no:cacheprovider --timeout=900 {tid(m)}", wt, env).returncode != 0
                       for _ in range(tries))
        still = [m for m in missing if fails_alone(m)]
        if missing:
            ran.append(f"re-run alone with change: still failing {still}")
            print(ran[-1], flush=True)
        if still:
            sh("git checkout -- openpectus", wt)
            orig = [m for m in still if sh(f"/venv/bin/python -m pytest -q -p no:cacheprovider --timeout=900 {tid(m)}", wt, env).returncode != 0]
            ran.append(f"of those also failing without the change: {orig}")
            print(ran[-1], flush=True)
            if set(still) - set(orig):
                print("REJECT suite")
                meta["suite_rejected"] = ran
                json.dump(meta, open(f"{d}/meta.json", "w"), indent=1)
                return 1
        meta["ran"] = ran
        meta.pop("suite_rejected", None)
        json.dump(meta, open(f"{d}/meta.json", "w"), indent=1)
        print("CONFIRMED", name)
        return 0
    finally:
        sh(f"git -C /repo worktree remove --force {wt}", "/")


if __name__ == "__main__":
    sys.exit(main())
