"""opv - runtime monitors and rigs deciding the Open-Pectus properties C01..C41."""
