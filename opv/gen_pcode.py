"""Seeded P-code generator over the control structures of the language.

Every Mark label is unique (m1, m2, ...) so that histories are unambiguous. `allow` selects the
sub-grammar a property wants. The generator emits well-formed, correctly indented text; corruption
(for C13/C17/C19) is applied afterwards by gen_corrupt().
"""
from __future__ import annotations

import random

ALL = ("mark", "uod", "wait", "block", "watch", "alarm", "macro", "thr", "pausehold", "sim", "base",
       "blank", "counter", "info")


class Gen:
    def __init__(self, rnd: random.Random, allow=ALL, max_depth: int = 3, base_s: bool = True,
                 uod_cmds=("Short", "Long", "Long2", "Short", "Other", "Set1: 3", "Set1: 5", "Set2: 2.5 L/h", "Mode: A"),
                 watch_conds=None, alarm_conds=None, thr_values=("0.2", "0.5", "1", "0", "1.5"),
                 wait_values=("0.1", "0.2", "0.5", "0", "0.35"), allow_stop=False, end_block_prob=0.85):
        self.r = rnd
        self.allow = set(allow)
        self.n = 0
        self.macros: list[str] = []
        self.lines: list[str] = []
        self.max_depth = max_depth
        self.uod_cmds = uod_cmds
        self.thr_values = thr_values
        self.wait_values = wait_values
        self.watch_conds = watch_conds
        self.alarm_conds = alarm_conds
        self.base_s = base_s
        self.allow_stop = allow_stop
        self.end_block_prob = end_block_prob
        self.kinds: list[str] = []

    def lab(self) -> str:
        self.n += 1
        return f"m{self.n}"

    def emit(self, ind: int, txt: str):
        self.lines.append(" " * ind + txt)

    def body(self, ind: int, depth: int, in_block: bool, maxlen: int):
        k = self.r.randint(1, maxlen)
        for i in range(k):
            # the first line of a body is never blank/comment: an opener followed by whitespace only is C17's
            # business (the parser then nests the following outer lines into the opener)
            self.stmt(ind, depth, in_block, no_blank=(i == 0 and ind > 0))

    def watch_cond(self) -> str:
        r = self.r
        if self.watch_conds:
            return r.choice(self.watch_conds)
        return r.choice([f"FT01 > {r.randint(1, 5)} L/h", f"X = {r.randint(0, 5)}", "Run Counter >= 0",
                         f"FT01 >= {r.randint(1, 5)} L/h", "Block Time > 0.3 s"])

    def alarm_cond(self) -> str:
        r = self.r
        if self.alarm_conds:
            return r.choice(self.alarm_conds)
        return r.choice([f"FT01 > {r.randint(3, 5)} L/h", f"X = {r.randint(1, 5)}"])

    def stmt(self, ind: int, depth: int, in_block: bool, no_blank: bool = False):
        r = self.r
        choices = ["mark", "mark", "uod", "wait"]
        if depth < self.max_depth:
            choices += ["block", "watch", "alarm", "macro"]
        choices += ["thr", "pausehold", "sim", "callmacro", "blank", "base", "counter", "info"]
        choices = [c for c in choices if c in self.allow or (c == "callmacro" and "macro" in self.allow)]
        if no_blank:
            choices = [c for c in choices if c != "blank"]
        if not choices:
            choices = ["mark"]
        c = r.choice(choices)
        self.kinds.append(c)
        if c == "mark":
            self.emit(ind, f"Mark: {self.lab()}")
        elif c == "uod":
            self.emit(ind, r.choice(self.uod_cmds))
        elif c == "wait":
            self.emit(ind, f"Wait: {r.choice(self.wait_values)}s")
        elif c == "thr":
            self.emit(ind, f"{r.choice(self.thr_values)} Mark: {self.lab()}")
        elif c == "pausehold":
            self.emit(ind, r.choice(["Pause: 0.3s", "Hold: 0.3s", "Hold: 0.2s", "Pause: 0.2s"]))
        elif c == "sim":
            self.emit(ind, r.choice([f"Simulate: X = {r.randint(0, 5)}", "Simulate off: X",
                                     f"Simulate: FT01 = {r.randint(0, 6)} L/h", "Simulate off: FT01"]))
        elif c == "base":
            self.emit(ind, r.choice(["Base: s", "Base: s", "Base: min", "Base: h"]))
        elif c == "counter":
            self.emit(ind, r.choice(["Increment run counter", f"Run counter: {r.randint(0, 3)}"]))
        elif c == "info":
            self.emit(ind, r.choice(["Info: hello", "Warning: careful", "Info: a: b"]))
        elif c == "blank":
            self.emit(ind if r.random() < 0.5 else 0, r.choice(["", "# c", "", "# another comment"]))
        elif c == "block":
            self.emit(ind, f"Block: b{self.lab()}")
            self.body(ind + 4, depth + 1, True, 4)
            if r.random() < self.end_block_prob:
                self.emit(ind + 4, r.choice(["End block", "End block", "End block", "End blocks"]))
            else:
                self.emit(ind + 4, f"Watch: {self.watch_cond()}")
                self.emit(ind + 8, "End block")
        elif c == "watch":
            self.emit(ind, f"Watch: {self.watch_cond()}")
            self.body(ind + 4, depth + 1, in_block, 3)
        elif c == "alarm":
            self.emit(ind, f"Alarm: {self.alarm_cond()}")
            self.body(ind + 4, depth + 1, in_block, 2)
        elif c == "macro":
            name = f"M{len(self.macros)}"
            self.emit(ind, f"Macro: {name}")
            saved = self.allow
            self.allow = self.allow - {"macro"}      # no macro definitions/calls inside a macro body here (C41 has its own)
            self.body(ind + 4, depth + 1, in_block, 3)
            self.allow = saved
            self.macros.append(name)
        elif c == "callmacro":
            if self.macros:
                self.emit(ind, f"Call macro: {r.choice(self.macros)}")
            else:
                self.emit(ind, f"Mark: {self.lab()}")

    def program(self, maxlen: int = 8) -> str:
        if self.base_s:
            self.emit(0, "Base: s")
        self.body(0, 0, False, maxlen)
        if self.allow_stop and self.r.random() < 0.3:
            self.emit(0, "Stop")
        return "\n".join(self.lines) + "\n"


def trajectory(rnd: random.Random, n: int) -> list[float]:
    """Scripted FT01 readings: constant / step / pulse / ramp pieces around the thresholds 1..5."""
    kind = rnd.choice(["const", "step", "pulse", "ramp", "noise"])
    out = []
    if kind == "const":
        v = rnd.choice([0.0, 2.0, 6.0])
        out = [v] * n
    elif kind == "step":
        at = rnd.randint(3, max(4, n // 2))
        lo, hi = rnd.choice([(0.0, 6.0), (6.0, 0.0), (2.0, 4.0)])
        out = [lo if i < at else hi for i in range(n)]
    elif kind == "pulse":
        at = rnd.randint(3, max(4, n // 2))
        w = rnd.randint(1, 3)
        out = [6.0 if at <= i < at + w else 0.0 for i in range(n)]
        if rnd.random() < 0.5:
            at2 = at + w + rnd.randint(2, 15)
            out = [6.0 if (at2 <= i < at2 + w) else v for i, v in enumerate(out)]
    elif kind == "ramp":
        out = [min(6.0, i * rnd.choice([0.1, 0.25, 0.5])) for i in range(n)]
    else:
        out = [rnd.choice([0.0, 0.0, 0.0, 2.0, 4.0, 6.0]) for _ in range(n)]
    return out


def shape_hash(text: str) -> str:
    """Distinct-case key: instruction kinds with indentation; labels, numbers bucketed away."""
    import hashlib
    import re
    norm = []
    for ln in text.split("\n"):
        ind = len(ln) - len(ln.lstrip(" "))
        body = ln.strip()
        body = re.sub(r"\bm\d+\b", "m", body)
        body = re.sub(r"\bbm\b", "b", body)
        body = re.sub(r"\d+(\.\d+)?", "N", body)
        norm.append(f"{ind}:{body}")
    return hashlib.sha1("|".join(norm).encode()).hexdigest()[:16]
