"""Regenerates /verif/MANIFEST.json from the property modules present in opv/props.
   /venv/bin/python -m opv.manifest_gen        (run from /verif)"""
import importlib
import json
import os
import sys

REPO = os.environ.get("OPV_REPO", "/repo")
sys.path.insert(0, REPO)
VERIF = os.path.dirname(os.path.dirname(os.path.abspath(__file__)))

PENDING_REASON = "no check registered yet for this property in this revision of /verif (runtime-monitoring check under construction; see DESIGN.md section 3)"


def main():
    props = [json.loads(line) for line in open(os.path.join(VERIF, "properties.jsonl"))]
    checks, na = [], []
    extra_na = {}
    na_path = os.path.join(VERIF, "not_applicable.json")
    if os.path.exists(na_path):
        extra_na = json.load(open(na_path))
    ready_path = os.path.join(VERIF, "ready.json")
    ready = set(json.load(open(ready_path))) if os.path.exists(ready_path) else None
    for pr in props:
        pid = pr["id"]
        if ready is not None and pid not in ready and pid not in extra_na:
            na.append({"property_id": pid, "reason": PENDING_REASON})
            continue
        path = os.path.join(VERIF, "opv", "props", pid.lower() + ".py")
        if pid in extra_na or not os.path.exists(path):
            na.append({"property_id": pid, "reason": extra_na.get(pid, PENDING_REASON)})
            continue
        mod = importlib.import_module(f"opv.props.{pid.lower()}")
        if getattr(mod, "DISABLED", False):
            na.append({"property_id": pid, "reason": getattr(mod, "DISABLED_REASON", PENDING_REASON)})
            continue
        cmd = f"cd /verif && /venv/bin/python -m opv.cli check {pid} --tier "
        checks.append({
            "property_id": pid,
            "quick_cmd": cmd + "quick",
            "thorough_cmd": cmd + "thorough",
            "evidence_file": f"/verif/evidence/{pid}.json",
            "replay_cmd_template": "cd /verif && /venv/bin/python -m opv.cli replay {path}",
            "engine": "opv",
            "level_claimed": {
                "category": mod.LEVEL,
                "text": getattr(mod, "LEVEL_TEXT", None) or (
                    "Observation of real executions only: the property held (or not) on the generated/enumerated cases "
                    "listed in the evidence file; nothing is claimed about cases the workload did not produce. " + mod.RULE),
                "design_ref": f"DESIGN.md section 3, {pid}",
            },
            "level_note": getattr(mod, "LEVEL_NOTE", None) or ("Trusted base: the rig's fakes and reference oracle in "
                                                                f"opv/props/{pid.lower()}.py, the virtual clock; "
                                                                + "; ".join(getattr(mod, "ASSUMPTIONS", []))),
            "technique": mod.TECHNIQUE,
        })
    manifest = {
        "version": 1,
        "setup_cmd": "cd /verif && /venv/bin/python -m compileall -q opv >/dev/null && /venv/bin/python -c \"import sys; sys.path.insert(0,'/repo'); import openpectus, opv.core\"",
        "hooks": {
            "guard": "OPEN_PECTUS_VERIF",
            "enable": "checks set OPEN_PECTUS_VERIF=1 in the shard processes; all instrumentation is attached from the harness "
                      "(descriptors, wrappers, fakes), /repo carries no hook code",
            "baseline_off_cmd": "cd /repo && /venv/bin/python -m pytest -ra -q -p no:cacheprovider --timeout=900 --continue-on-collection-errors",
            "source_commits": [],
            "add_only": True,
        },
        "engines": [{
            "name": "opv",
            "path": "/verif/opv",
            "serves_properties": [c["property_id"] for c in checks],
            "kind_free_text": "runtime monitoring harness: drives the real Open-Pectus code under generated/enumerated "
                              "workloads on a virtual clock, records events at fakes/descriptors/wrappers, decides with "
                              "per-property oracles (trace invariants, reference models, differential runs)",
        }],
        "checks": checks,
        "not_applicable": na,
        "notes": "Every check: exit 0 = held on everything explored (KNOWN-FINDING lines for mechanisms listed as open in "
                 "known_findings.json), exit 1 + VIOLATION line = unlisted violation, exit 3 + INCONCLUSIVE = deciding monitor "
                 "not reached / watchdog. VERIF_SEED and VERIF_TIER are honoured.",
    }
    with open(os.path.join(VERIF, "MANIFEST.json"), "w") as f:
        json.dump(manifest, f, indent=1)
    print(f"MANIFEST.json: {len(checks)} checks, {len(na)} not_applicable")


if __name__ == "__main__":
    main()
