"""Core of the runtime-verification harness: result containers, shard runner, evidence writer,
known-finding classifier glue, replay files.

A property module (opv/props/cNN.py) exposes

    ID, LEVEL, RULE, ASSUMPTIONS, TECHNIQUE
    REQUIRED = {"counter name": minimum}      # deciding monitors; below minimum => INCONCLUSIVE
    def plan(tier: str, seed: int) -> list[dict]        # JSON-able shard specs
    def run_shard(spec: dict) -> Result

A violation is a dict {mech, msg, case}. `mech` is a *mechanism key* computed by the monitor's own
classifier (narrow, causal), or None if the monitor cannot name the mechanism.  Only mechanisms
listed as open in /verif/known_findings.json are downgraded to KNOWN-FINDING lines.
"""
from __future__ import annotations

import collections
import hashlib
import json
import os
import subprocess
import sys
import tempfile
import time
from concurrent.futures import ThreadPoolExecutor
from typing import Any

VERIF = os.path.dirname(os.path.dirname(os.path.abspath(__file__)))
REPO = os.environ.get("OPV_REPO", "/repo")
PY = sys.executable
MAX_SAMPLES = 6
MAX_VIOL_KEPT = 40


def h(obj: Any) -> str:
    return hashlib.sha1(json.dumps(obj, sort_keys=True, default=str).encode()).hexdigest()[:16]


class Result:
    """What one shard observed."""

    def __init__(self):
        self.evaluations = 0
        self.nontrivial: set[str] = set()
        self.samples: list[Any] = []
        self.counters: collections.Counter = collections.Counter()
        self.violations: list[dict] = []
        self.viol_counts: collections.Counter = collections.Counter()
        self.exhaustive_parts: list[str] = []
        self.notes: list[str] = []

    def case(self, nontrivial_key: Any = None, sample: Any = None):
        self.evaluations += 1
        if nontrivial_key is not None:
            self.nontrivial.add(nontrivial_key if isinstance(nontrivial_key, str) and len(nontrivial_key) == 16
                                else h(nontrivial_key))
        if sample is not None and len(self.samples) < MAX_SAMPLES:
            self.samples.append(sample)

    def count(self, name: str, n: int = 1):
        self.counters[name] += n

    def violation(self, mech: str | None, msg: str, case: Any):
        key = mech or "UNCLASSIFIED"
        self.viol_counts[key] += 1
        # keep a few witnesses per mechanism
        kept = sum(1 for v in self.violations if (v["mech"] or "UNCLASSIFIED") == key)
        if kept < 3 and len(self.violations) < MAX_VIOL_KEPT:
            self.violations.append({"mech": mech, "msg": msg, "case": case})

    def to_dict(self) -> dict:
        return {
            "evaluations": self.evaluations,
            "nontrivial": sorted(self.nontrivial),
            "samples": self.samples,
            "counters": dict(self.counters),
            "violations": self.violations,
            "viol_counts": dict(self.viol_counts),
            "exhaustive_parts": self.exhaustive_parts,
            "notes": self.notes,
        }


def merge(dicts: list[dict]) -> dict:
    out = {"evaluations": 0, "nontrivial": set(), "samples": [], "counters": collections.Counter(),
           "violations": [], "viol_counts": collections.Counter(), "exhaustive_parts": [], "notes": []}
    for d in dicts:
        out["evaluations"] += d["evaluations"]
        out["nontrivial"].update(d["nontrivial"])
        for s in d["samples"]:
            if len(out["samples"]) < MAX_SAMPLES:
                out["samples"].append(s)
        out["counters"].update(d["counters"])
        out["viol_counts"].update(d["viol_counts"])
        for v in d["violations"]:
            key = v["mech"] or "UNCLASSIFIED"
            kept = sum(1 for w in out["violations"] if (w["mech"] or "UNCLASSIFIED") == key)
            if kept < 3:
                out["violations"].append(v)
        for e in d["exhaustive_parts"]:
            if e not in out["exhaustive_parts"]:
                out["exhaustive_parts"].append(e)
        for n in d["notes"]:
            if n not in out["notes"] and len(out["notes"]) < 20:
                out["notes"].append(n)
    return out


def load_known() -> dict[str, dict]:
    path = os.path.join(VERIF, "known_findings.json")
    with open(path) as f:
        data = json.load(f)
    out = {e["key"]: e for e in data["findings"]}
    # development aid only (never set by MANIFEST commands): proposed entries under review
    extra = os.environ.get("OPV_EXTRA_FINDINGS")
    if extra:
        for pth in extra.split(":"):
            if os.path.exists(pth):
                with open(pth) as f:
                    for e in json.load(f)["findings"]:
                        out.setdefault(e["key"], e)
    return out


def _run_one_shard(prop_id: str, spec: dict, timeout: float) -> dict | None:
    fd, outpath = tempfile.mkstemp(prefix=f"opv-{prop_id}-", suffix=".json")
    os.close(fd)
    env = dict(os.environ)
    env["PYTHONHASHSEED"] = "0"
    env["OPV_REPO"] = REPO
    env.setdefault("OPEN_PECTUS_VERIF", "1")
    env["PYTHONDONTWRITEBYTECODE"] = "1"
    try:
        p = subprocess.run([PY, "-m", "opv.cli", "shard", prop_id, json.dumps(spec), outpath],
                           cwd=VERIF, env=env, timeout=timeout, capture_output=True, text=True)
        if p.returncode != 0:
            return {"_error": f"shard exit {p.returncode}: {p.stderr[-3000:]}"}
        with open(outpath) as f:
            return json.load(f)
    except subprocess.TimeoutExpired:
        return None
    finally:
        try:
            os.unlink(outpath)
        except OSError:
            pass


def _crash_site_in_repo(err: str) -> str | None:
    """'<ExcType: message> at <file>:<line> in <func>' if the innermost traceback frame of a crashed shard lies in REPO."""
    import re
    frames = re.findall(r'File "([^"]+)", line (\d+), in (\S+)', err)
    if not frames:
        return None
    path, line, func = frames[-1]
    repo = os.path.realpath(REPO)
    if not os.path.realpath(path).startswith(repo + os.sep):
        return None
    last = [ln for ln in err.strip().splitlines() if ln and not ln.startswith(" ")]
    exc = last[-1][:300] if last else "exception"
    return f"{exc} at {os.path.relpath(os.path.realpath(path), repo)}:{line} in {func}"


def run_check(mod, tier: str, seed: int, jobs: int = 0) -> int:
    """Runs all shards, merges, writes evidence, prints verdict lines, returns exit code."""
    t0 = time.time()
    prop_id = mod.ID
    specs = mod.plan(tier, seed)
    jobs = jobs or int(os.environ.get("OPV_JOBS", "0")) or min(16, os.cpu_count() or 4)
    timeout = float(os.environ.get("OPV_SHARD_TIMEOUT", "0")) or (1500 if tier == "quick" else 7200)
    with ThreadPoolExecutor(max_workers=jobs) as ex:
        outs = list(ex.map(lambda s: _run_one_shard(prop_id, s, timeout), specs))
    timeouts = sum(1 for o in outs if o is None)
    errors = [o["_error"] for o in outs if o is not None and "_error" in o]
    good = [o for o in outs if o is not None and "_error" not in o]
    m = merge(good)
    # A shard that died of an exception raised *inside the code under test* (innermost traceback frame below REPO) while
    # the harness performed an operation of the property's workload is a witness, not a harness problem: the workload
    # only makes calls that never raise on the unchanged tree. It is reported as an unclassified violation (the shard
    # could not go on to judge the property itself, which the message says); crashes inside the harness stay
    # "inconclusive".
    for spec, o in zip(specs, outs):
        if o is not None and "_error" in o:
            where = _crash_site_in_repo(o["_error"])
            if where:
                m["viol_counts"]["UNCLASSIFIED"] += 1
                if sum(1 for w in m["violations"] if w["mech"] is None) < 3:
                    m["violations"].append({
                        "mech": None,
                        "msg": f"the code under test raised an uncaught exception during the property's workload and the "
                               f"monitor could not continue: {where}",
                        "case": {"shard_spec": spec, "stderr_tail": o["_error"][-1500:]}})
    known = load_known()
    open_keys = {k for k, e in known.items() if e["property"] == prop_id and e["status"] == "open"}

    known_seen = {k: c for k, c in m["viol_counts"].items() if k in open_keys}
    new_counts = {k: c for k, c in m["viol_counts"].items() if k not in open_keys}
    new_viol = [v for v in m["violations"] if (v["mech"] or "UNCLASSIFIED") not in open_keys]

    inconclusive = []
    if timeouts:
        inconclusive.append(f"{timeouts} shard(s) hit the watchdog")
    if errors:
        inconclusive.append(f"{len(errors)} shard(s) crashed: {errors[0][-600:]}")
    for cname, minimum in getattr(mod, "REQUIRED", {}).items():
        if m["counters"].get(cname, 0) < minimum:
            inconclusive.append(f"monitor counter {cname}={m['counters'].get(cname, 0)} < {minimum}")
    if len(m["nontrivial"]) < 2:
        inconclusive.append("fewer than 2 distinct non-trivial cases")

    replay_paths = []
    for v in new_viol:
        rdir = os.path.join(os.environ.get("OPV_OUT_DIR") or VERIF, "replays", prop_id)
        os.makedirs(rdir, exist_ok=True)
        rp = os.path.join(rdir, h(v) + ".json")
        with open(rp, "w") as f:
            json.dump({"property": prop_id, "tier": tier, "seed": seed, **v}, f, indent=1, default=str)
        replay_paths.append((v, rp))

    wall = time.time() - t0
    exhaustive = bool(m["exhaustive_parts"]) and getattr(mod, "EXHAUSTIVE_ALL", False)
    cov = {
        "evaluations": m["evaluations"],
        "distinct_nontrivial": len(m["nontrivial"]),
        "rule": mod.RULE,
        "samples": m["samples"] or ["(no sample recorded)"],
        "monitor_counters": dict(sorted(m["counters"].items())),
        "exhaustive": exhaustive,
        "exhaustive_parts": m["exhaustive_parts"],
        "known_findings_observed": known_seen,
        "unlisted_violation_counts": new_counts,
        "shards": len(specs),
        "shards_timed_out": timeouts,
        "shards_crashed": len(errors),
        "inconclusive_reasons": inconclusive,
        "notes": m["notes"],
        "verdict": ("violated" if new_viol else "inconclusive" if inconclusive else
                    "held on what was observed" + (" (apart from listed known findings)" if known_seen else "")),
        "technique": getattr(mod, "TECHNIQUE", ""),
    }
    ev = {
        "property_id": prop_id,
        "tier": tier,
        "seed": seed,
        "level": mod.LEVEL,
        "coverage": cov,
        "assumptions": list(getattr(mod, "ASSUMPTIONS", [])),
        "wall_s": round(wall, 2),
        "violations": sum(new_counts.values()),
    }
    # OPV_OUT_DIR (development aid, never set by MANIFEST commands): self-test / seeded runs against a scratch copy of
    # the repository must not overwrite the evidence of the checks run against /repo itself
    ev_dir = os.path.join(os.environ.get("OPV_OUT_DIR") or VERIF, "evidence")
    os.makedirs(ev_dir, exist_ok=True)
    with open(os.path.join(ev_dir, f"{prop_id}.json"), "w") as f:
        json.dump(ev, f, indent=1, default=str)

    for k in sorted(known_seen):
        print(f"KNOWN-FINDING: property={prop_id} {k}: {known[k]['summary']} (observed {known_seen[k]}x)")
    print(f"[{prop_id}] tier={tier} seed={seed} evaluations={m['evaluations']} "
          f"distinct_nontrivial={len(m['nontrivial'])} wall={wall:.1f}s counters="
          + json.dumps(dict(sorted(m["counters"].items()))))
    if new_viol:
        for v, rp in replay_paths:
            print(f"  witness mech={v['mech']} {v['msg'][:500]}")
            print(f"VIOLATION property={prop_id} replay={rp}")
        return 1
    if inconclusive:
        print(f"INCONCLUSIVE property={prop_id} reason={'; '.join(inconclusive)}")
        return 3
    print(f"HELD property={prop_id} on everything explored")
    return 0
