"""C17 - Parsing maps every line to one node with indentation structure.

Direct calls of the real parser (create_method_parser(...).parse_method) on generated / enumerated methods; the
oracle is an indentation law computed from the *source lines* by this module (see DESIGN.md C17)."""
from __future__ import annotations

import itertools
import random
import re

from opv.core import Result, h

ID = "C17"
LEVEL = "exploration"
TECHNIQUE = "runtime monitoring: reference indentation law over the source lines vs. the tree built by the real parser"
RULE = ("(a) P-code grammar texts (opv.gen_pcode.Gen and a structure generator biased to openers/empty bodies/blank "
        "lines) with random indentation perturbations (+-1..8 spaces, tabs, other unicode spaces, deleted/inserted "
        "lines); (b) arbitrary unicode line contents incl. every separator str.splitlines knows, NUL and lone "
        "surrogates, given as method lines (one ParserMethodLine per line) or as \\n / \\r\\n joined text; (c) exhaustive "
        "enumeration of all line-kind x indent vectors: kinds {opener, plain instruction, blank} x indents {0,4,8,12} "
        "up to length 4 (quick) / 5 (thorough) and kinds {opener, plain} x {0,4,8,12} at length 5 (quick) / 6 (thorough). "
        "distinct = (kind, indent, flagged) vector of the method; non-trivial = at least one opener, one indented "
        "instruction line and at least two judged lines")
ASSUMPTIONS = [
    "a source line is one ParserMethodLine (what the engine builds from protocol Method lines); for the text route "
    "only \\n and \\r\\n separate lines and no other line-boundary character occurs in the contents",
    "indentation of a line = number of leading whitespace characters; blank and comment lines are transparent for the "
    "law and only have to exist as nodes, in order, with their line's id",
    "reading of the statement that is asserted (weakest reasonable one): (R1) as long as the text is correctly indented "
    "according to the law, an unflagged line must have exactly the law parent (a correctly indented line that is "
    "flagged is allowed and counted); (R2) the first incorrectly indented line of a text must be flagged. After the "
    "first incorrectly indented line, and after the first silent mis-nesting, the placement of later lines is not "
    "judged (the statement says 'for correctly indented text'); DESIGN.md's per-line law is evaluated there only as "
    "an informational counter",
    "every R1/R2 witness is re-checked on the text truncated after the offending line (itself a correctly indented "
    "text resp. a text whose only wrong line is the last one) and reported in that minimal form",
    "not judged, and ending the judged prefix: a line whose indentation contains anything but U+0020, an indented line "
    "the parser cannot match (it reports column 0 for it) and a line whose opener-ness is ambiguous (name starting "
    "with a digit etc.)",
]
REQUIRED = {"texts": 2000, "nodes_checked": 10000, "parent_checks": 5000, "flagged_lines": 500, "law_must_flag": 300}
EXHAUSTIVE_ALL = False

OPENER_NAMES = ("Block", "Watch", "Alarm", "Macro")
SEPARATORS = ["\n", "\r", "\r\n", "\x0b", "\x0c", "\x1c", "\x1d", "\x1e", "\x85", "\u2028", "\u2029"]
_NAME_RE = re.compile(r"\s*(?:\d+(?:\.\d+)?\s)?([^:#]*)", re.S)


# ------------------------------------------------------------------------------------------------ reference side
def is_ws_line(s: str) -> bool:
    t = s.strip()
    return t == "" or t.startswith("#")


def lead(s: str) -> int:
    return len(s) - len(s.lstrip())


def ref_opener(s: str) -> bool:
    m = _NAME_RE.match(s)
    return bool(m) and m.group(1).strip() in OPENER_NAMES


def law_parent(k, lines_info, skip_flagged=False):
    """index of the law parent of line k, -1 for the program, None if the line must be flagged."""
    i = lines_info[k]["indent"]
    if i == 0:
        return -1
    for j in range(k - 1, -1, -1):
        li = lines_info[j]
        if li["ws"]:
            continue
        if skip_flagged and li["flagged"]:
            continue
        if li["indent"] < i:
            if li["indent"] == i - 4 and li["opener"]:
                return j
            return None
    return None


# ------------------------------------------------------------------------------------------------ monitor
class _SplitDiffers(Exception):
    pass


def run_parser(lines, text):
    from openpectus.lang.model.parser import ParserMethod, ParserMethodLine, create_method_parser
    if text is not None:
        method = ParserMethod.from_pcode(text)
        exp_ids = [f"id_{i + 1}" for i in range(len(lines))]
        if [ln.content for ln in method.lines] != [c for _, c in lines]:
            raise _SplitDiffers()
    else:
        method = ParserMethod([ParserMethodLine(i, c) for i, c in lines])
        exp_ids = [i for i, _ in lines]
    return create_method_parser(method, ["Short", "Long", "Set1"]).parse_method(method), exp_ids


def judge(lines, text=None):
    """Parses with the real parser and evaluates the oracle. Returns a dict with
    viol: [(rule, k, msg)], counts: Counter, info: per-line reference data, parents: actual parent index per line."""
    import collections
    import openpectus.lang.model.ast as p
    out = {"viol": [], "counts": collections.Counter(), "info": None, "parents": None, "judged": 0}
    cnt = out["counts"]
    try:
        prog, exp_ids = run_parser(lines, text)
    except _SplitDiffers:
        # cannot happen for \n / \r\n joined contents without other boundary characters (generator invariant)
        cnt["text_route_split_differs_not_judged"] += 1
        return out
    except Exception as ex:  # totality
        out["viol"].append(("raise", None, f"parse raised {type(ex).__name__}: {ex}"[:300]))
        return out
    nodes = prog.get_all_nodes()[1:]
    n = len(lines)
    if len(nodes) != n:
        out["viol"].append(("count", None, f"{n} lines but {len(nodes)} nodes"))
        return out
    for k, nd in enumerate(nodes):
        cnt["nodes_checked"] += 1
        if nd.id != exp_ids[k] or nd.position.line != k:
            out["viol"].append(("order", k, f"node #{k} has id {nd.id!r} line {nd.position.line}, expected id "
                                f"{exp_ids[k]!r} line {k}"))
            return out
        if nd.parent is None or (nd.parent is not prog and not any(nd.parent is x for x in nodes[:k])):
            out["viol"].append(("parent_not_preceding", k, f"node {nd.id} has parent "
                                f"{nd.parent.id if nd.parent else None} which is not a preceding line"))
            return out
    info = []
    for k, (_, c) in enumerate(lines):
        nd = nodes[k]
        ws = is_ws_line(c)
        info.append({"ws": ws, "indent": lead(c), "opener": (not ws) and ref_opener(c), "flagged": bool(nd.indent_error),
                     "spaces_only": c[:lead(c)] == " " * lead(c)})
    index_of = {id(nd): k for k, nd in enumerate(nodes)}
    parents = [-1 if nd.parent is prog else index_of[id(nd.parent)] for nd in nodes]
    out["info"], out["parents"] = info, parents
    state = "correct"       # the text up to here is correctly indented according to the law
    for k, (_, c) in enumerate(lines):
        li = info[k]
        nd = nodes[k]
        ambiguous = None
        if li["ws"] != isinstance(nd, p.WhitespaceNode):
            ambiguous = "ws_kind_disagreement_not_judged"
        elif li["ws"]:
            cnt["whitespace_lines"] += 1
            continue
        elif not li["spaces_only"]:
            ambiguous = "non_space_indentation_not_judged"
        elif li["indent"] > 0 and nd.position.character != li["indent"]:
            ambiguous = "unparsable_indented_line_not_judged"
        elif li["opener"] != isinstance(nd, p.NodeWithChildren):
            ambiguous = "opener_ambiguous_not_judged"
        if state != "correct":
            # after the first incorrectly indented (or ambiguous) line the statement leaves the placement of later
            # lines open ("for correctly indented text ..."): observed, counted, not judged
            cnt["lines_after_first_error_not_judged"] += 1
            if ambiguous is None and not li["flagged"]:
                if parents[k] not in (law_parent(k, info), law_parent(k, info, True)):
                    cnt["after_error_unflagged_line_off_per_line_law (informational)"] += 1
            continue
        if ambiguous:
            cnt[ambiguous] += 1
            state = "ambiguous"
            continue
        la = law_parent(k, info)
        if la is None:
            cnt["law_must_flag"] += 1
            state = "error"
            if li["flagged"]:
                cnt["flagged_lines"] += 1
            else:
                out["viol"].append(("must_flag", k, f"line {k} {c!r} (indent {li['indent']}) is the first incorrectly "
                                    f"indented line, is not flagged and was given parent "
                                    f"{'program' if parents[k] == -1 else 'line ' + str(parents[k])}"))
            continue
        if li["flagged"]:
            cnt["flagged_lines"] += 1
            cnt["correctly_indented_line_flagged (allowed)"] += 1
            continue
        cnt["parent_checks"] += 1
        out["judged"] += 1
        if parents[k] != la:
            state = "misnested"     # everything after a silent mis-nesting is a consequence of it
            out["viol"].append(("parent", k, f"line {k} {c!r} (indent {li['indent']}) of a correctly indented text is "
                                f"not flagged, its parent is "
                                f"{'program' if parents[k] == -1 else 'line ' + str(parents[k]) + ' ' + repr(lines[parents[k]][1])}"
                                f", law parent is {'program' if la == -1 else 'line ' + str(la) + ' ' + repr(lines[la][1])}"))
    return out


def check_method(lines, res: Result, origin: str, text: str | None = None):
    """lines: list of (id, content). If text is given the method is built with ParserMethod.from_pcode(text)."""
    res.count("texts")
    out = judge(lines, text)
    for name, c in out["counts"].items():
        res.count(name, c)
    case = {"origin": origin, "lines": [list(x) for x in lines]}
    if text is not None:
        case["text"] = text
    for rule, k, msg in out["viol"]:
        if rule in ("raise", "count", "order", "parent_not_preceding"):
            res.violation(None if rule == "raise" else "C17." + {"count": "node_count_differs",
                          "order": "node_order_or_id_differs", "parent_not_preceding": "parent_not_a_preceding_line"}[rule],
                          msg, case)
            continue
        # minimal witness: the text truncated after the offending line is itself a correctly indented text (rule
        # 'parent') resp. a text whose only incorrect line is the last one (rule 'must_flag')
        cut = lines[:k + 1]
        out2 = judge(cut) if k + 1 < len(lines) else out
        again = [v for v in out2["viol"] if v[0] == rule and v[1] == k]
        if again:
            res.violation(classify(rule, k, out2["info"], out2["parents"], cut), again[0][2],
                          {"origin": origin + " (truncated after the offending line)", "lines": [list(x) for x in cut]})
        elif rule == "must_flag":
            res.violation(classify(rule, k, out["info"], out["parents"], lines), msg, case)
        else:
            res.count("parent_violation_not_confirmed_on_truncated_text")
    info = out["info"]
    key = None
    if info and out["judged"] >= 2 and any(x["opener"] for x in info) and \
            any(x["indent"] > 0 and not x["ws"] for x in info):
        key = h([(("w" if x["ws"] else "o" if x["opener"] else "i"), x["indent"], x["flagged"]) for x in info])
    res.case(key, sample={"origin": origin, "lines": [c for _, c in lines][:12],
                          "parents": [("root" if q == -1 else lines[q][0]) + ("!" if i["flagged"] else "")
                                      for q, i in zip(out["parents"], info)][:12] if info else None})


def classify(rule, k, info, parents, lines=None):
    """Narrow causal classifiers of the defects known on the unchanged tree. All of them concern rule 'parent' (a
    line of a correctly indented text that is silently nested too deep); a line that must be flagged and is not
    never gets a key."""
    if rule != "parent" or info is None:
        return None
    ind = info[k]["indent"]
    prev = [j for j in range(k - 1, -1, -1) if not info[j]["ws"]]
    if not prev:
        return None
    o = prev[0]
    actual = parents[k]
    if info[o]["opener"] and not info[o]["flagged"] and ind <= info[o]["indent"]:
        # (1) the nearest preceding instruction line is an opener whose body is still empty ("pending"); the parser
        # pops (opener_indent - indent)/4 levels starting from the pending opener itself instead of from its parent, so
        # the line ends up exactly one level too deep: in the opener (same indent) / in the opener's law ancestor that
        # has the line's own indent (outdent)
        chain = [o]
        while chain[-1] not in (-1, None):
            chain.append(law_parent(chain[-1], info))
        too_deep = [c for c in chain if c not in (-1, None) and info[c]["indent"] == ind]
        if chain[-1] == -1 and too_deep and actual == too_deep[0]:
            return "C17.same_indent_after_opener_nested" if ind == info[o]["indent"] else \
                "C17.outdent_after_empty_opener_one_level_short"
    # (2) an opener u directly followed by a blank/comment line: the whitespace line clears the parser's 'increment
    # required' state, the (correctly indented) first body line is flagged, the indentation bookkeeping (prev_indent,
    # parent_node) is out of step from there on, and a later unflagged line is appended to a stale parent.
    # Causal test: (a) such an opener/whitespace/flagged-first-body-line triple precedes the line, and (b) the real
    # parser nests the line correctly once the whitespace runs that directly follow openers are deleted from the text.
    cause = False
    for u in range(k):
        if info[u]["opener"] and u + 1 < k and info[u + 1]["ws"]:
            body = [j for j in range(u + 1, k) if not info[j]["ws"]]
            if body and info[body[0]]["flagged"] and law_parent(body[0], info) == u:
                cause = True
                break
    if not cause or lines is None:
        return None
    keep = []
    after_opener = False
    for j in range(k + 1):
        if info[j]["ws"]:
            if after_opener:
                continue
        else:
            after_opener = info[j]["opener"]
        keep.append(j)
    reduced = [lines[j] for j in keep]
    out = judge(reduced)
    k2 = len(reduced) - 1
    if out["info"] is None or out["info"][k2]["flagged"]:
        return None
    rest = out["viol"]
    if not rest:
        return "C17.blank_after_opener_then_outer_line_nested"
    # compound: a body line (or the line itself) follows an opener with an empty body; without the whitespace runs the
    # only residual mis-nesting in the text is exactly mechanism (1)
    if len(rest) == 1 and rest[0][0] == "parent" and classify("parent", rest[0][1], out["info"], out["parents"], None) in (
            "C17.same_indent_after_opener_nested", "C17.outdent_after_empty_opener_one_level_short"):
        return "C17.blank_after_opener_then_outer_line_nested"
    return None


# ------------------------------------------------------------------------------------------------ workloads
PLAIN = ["Mark: a", "Mark: b", "Short", "Wait: 0.5s", "End block", "Stop", "0.5 Mark: c", "Call macro: M", "Base: s",
         "Pause", "Info: x # c", "End blocks", "Simulate: X = 1", "1.5 Long"]
OPEN = ["Block: A", "Watch: X > 1", "Alarm: FT01 > 2 L/h", "Macro: M", "0.5 Block: B", "Watch: Run Counter >= 0",
        "Block: C # note", "Watch", "Macro:"]
BLANKS = ["", "# c", "", "#", "    ", "        # deep"]
GARBAGE = ["!!!", "?: 4", ": x", "\u00e9t\u00e9: 1", "1Block: a", "12", "3.5", "Block", "Blocks: x", "-", "=", "\ud800"]


def exhaustive_case(symbols, vec):
    lines = []
    for k, s in enumerate(vec):
        kind, ind = symbols[s]
        if kind == "o":
            txt = OPEN[(k + ind // 4) % 4]
        elif kind == "i":
            txt = PLAIN[(k + ind // 4) % 5]
        else:
            txt = ""
        lines.append((f"L{k}", " " * ind + txt))
    return lines


def symbols_for(alpha):
    kinds = "oi" if alpha == 8 else "oib"
    return [(kd, ind) for kd in kinds for ind in (0, 4, 8, 12)]


def gen_struct(rnd: random.Random):
    """Mostly correctly indented structures (so that long prefixes are judged) with many empty bodies, blank/comment
    lines at arbitrary columns, and an occasional wrong indentation."""
    n = rnd.randint(2, 14)
    p_bad = rnd.choice([0.0, 0.0, 0.03, 0.08, 0.25])
    lines = []
    prev = 0
    prev_open = False
    for k in range(n):
        r = rnd.random()
        if r < 0.32:
            kind, txt = "o", rnd.choice(OPEN)
        elif r < 0.74:
            kind, txt = "i", rnd.choice(PLAIN)
        elif r < 0.86:
            kind, txt = "b", rnd.choice(["", "", "    ", "  "])
        elif r < 0.95:
            kind, txt = "c", rnd.choice(["# c", "#", "# Mark: x"])
        else:
            kind, txt = "g", rnd.choice(GARBAGE)
        if kind in "bc":
            ind = rnd.choice([0, prev, prev + 4, rnd.randint(0, 13)])
        elif rnd.random() < p_bad:
            ind = rnd.choice([prev + 8, prev + 4, rnd.randint(0, 17), prev + rnd.choice([-2, -1, 1, 2, 3])])
            ind = max(0, ind)
        elif prev_open and rnd.random() < 0.7:
            ind = prev + 4
        else:
            ind = 4 * rnd.randint(0, prev // 4)
            if rnd.random() < 0.5:
                ind = prev - prev % 4
        lines.append(" " * ind + txt)
        if kind in "oig":
            prev = ind
            prev_open = kind == "o"
    return lines


def perturb(rnd: random.Random, lines: list[str], rate: float = 1.0) -> list[str]:
    out = []
    for ln in lines:
        if rnd.random() < 0.05 * rate:
            continue                      # deleted line (empties bodies)
        body = ln.lstrip(" ")
        ind = len(ln) - len(body)
        r = rnd.random() / max(rate, 1e-9)
        if r < 0.15:
            ind = max(0, ind + rnd.choice([-1, 1]) * rnd.randint(1, 8))
            ln = " " * ind + body
        elif r < 0.19:
            ln = "\t" * (ind // 4) + body if rnd.random() < 0.5 else "\t" + ln
        elif r < 0.21:
            ln = rnd.choice(["\u00a0", "\u2003", "\x1c", "\x0c"]) * max(1, ind) + body
        elif r < 0.24:
            ln = ln + rnd.choice(["  ", "\t", " # tail"])
        out.append(ln)
        if rnd.random() < 0.07 * rate:
            out.append(" " * rnd.choice([0, 0, ind, ind + 4, rnd.randint(0, 12)]) + rnd.choice(BLANKS))
    return out or ["Mark: a"]


ALPHABET = list("abBMWk _:#<>=!.-+0159%/") + ["\t", "  ", "    ", ": ", " # ", "\u00e9", "\u0661", "\u00b2", "\u00b0", "\u00b5", "\u00a0",
                                              "\u2003", "\x00", "\ud800", "\U0001f600", "Block", "Watch: ", "Mark",
                                              "End block", "Alarm", "Macro", "Simulate off"] + SEPARATORS


def gen_unicode(rnd: random.Random, allow_separators: bool):
    n = rnd.randint(1, 8)
    lines = []
    for _ in range(n):
        m = rnd.randint(0, 10)
        s = "".join(rnd.choice(ALPHABET) for _ in range(m))
        if rnd.random() < 0.3:
            s = " " * (4 * rnd.randint(0, 3)) + s
        if not allow_separators:
            s = "".join(ch for ch in s if ch not in "\n\r\x0b\x0c\x1c\x1d\x1e\x85\u2028\u2029")
        lines.append(s)
    return lines


def plan(tier, seed):
    specs = []
    if tier == "quick":
        exh = [(12, n, 0, 1) for n in (1, 2, 3)] + [(12, 4, j, 3) for j in range(3)] + [(8, 5, j, 4) for j in range(4)]
        n_rand, shards = 18000, 6
    else:
        exh = [(12, n, 0, 1) for n in (1, 2, 3, 4)] + [(12, 5, j, 16) for j in range(16)] + \
              [(8, 6, j, 16) for j in range(16)]
        n_rand, shards = 900000, 28
    for alpha, n, part, parts in exh:
        specs.append({"kind": "exh", "alpha": alpha, "len": n, "part": part, "parts": parts, "seed": 0})
    for i in range(shards):
        specs.append({"kind": "rand", "seed": seed * 1000003 + i, "n": n_rand // shards})
    return specs


def run_shard(spec):
    res = Result()
    if spec["kind"] == "exh":
        symbols = symbols_for(spec["alpha"])
        idx = 0
        for vec in itertools.product(range(len(symbols)), repeat=spec["len"]):
            idx += 1
            if idx % spec["parts"] != spec["part"]:
                continue
            check_method(exhaustive_case(symbols, vec), res, "exhaustive")
        if spec["part"] == 0:
            kinds = "{opener, plain, blank}" if spec["alpha"] == 12 else "{opener, plain}"
            res.exhaustive_parts.append(f"all {len(symbols)}^{spec['len']} vectors of kinds {kinds} x indents "
                                        f"{{0,4,8,12}} of length {spec['len']}")
        return res
    from opv.gen_pcode import Gen
    rnd = random.Random(spec["seed"])
    for j in range(spec["n"]):
        r = rnd.random()
        if r < 0.30:
            g = Gen(rnd, max_depth=3, base_s=rnd.random() < 0.5)
            base = g.program(rnd.randint(2, 7)).split("\n")[:-1]
            lines = perturb(rnd, base, rnd.choice([0.15, 0.3, 1.0])) if rnd.random() < 0.9 else base
            origin = "grammar+perturbation"
        elif r < 0.70:
            lines = gen_struct(rnd)
            if rnd.random() < 0.4:
                lines = perturb(rnd, lines, rnd.choice([0.15, 0.3, 1.0]))
            origin = "structure generator"
        elif r < 0.90:
            lines = gen_unicode(rnd, True)
            origin = "unicode lines"
        else:
            lines = gen_unicode(rnd, False) if rnd.random() < 0.5 else \
                [ln for ln in perturb(rnd, gen_struct(rnd)) if not any(ch in ln for ch in "\x0c\x1c")]
            sep = rnd.choice(["\n", "\r\n"])
            text = sep.join(lines)
            # a trailing empty line is not a line for splitlines: keep the invariant lines == text.splitlines()
            while lines and lines[-1] == "":
                lines = lines[:-1]
                text = sep.join(lines)
            check_method([(f"id_{i + 1}", c) for i, c in enumerate(lines)], res, "text route", text=text)
            continue
        check_method([(f"L{i}", c) for i, c in enumerate(lines)], res, origin)
    return res


def replay(case):
    res = Result()
    check_method([tuple(x) for x in case["lines"]], res, case.get("origin", "replay"), text=case.get("text"))
    return res
