"""C17 - Parsing maps every line to one node with indentation structure.

Direct calls of the real parser (create_method_parser(...).parse_method) on generated / enumerated methods; the
oracle is an indentation law computed from the *source lines* by this module (see DESIGN.md C17)."""
from __future__ import annotations

import itertools
import random
import re

from opv.core import Result, h

ID = "C17"
LEVEL = "exploration"
TECHNIQUE = "runtime monitoring: reference indentation law over the source lines vs. the tree built by the real parser"
RULE = ("(a) P-code grammar texts (opv.gen_pcode.Gen and a structure generator biased to openers/empty bodies/blank "
        "lines) with random indentation perturbations (+-1..8 spaces, tabs, other unicode spaces, deleted/inserted "
        "lines); (b) arbitrary unicode line contents incl. every separator str.splitlines knows, NUL and lone "
        "surrogates, given as method lines (one ParserMethodLine per line) or as \\n / \\r\\n joined text; (c) exhaustive "
        "enumeration of all line-kind x indent vectors: kinds {opener, plain instruction, blank} x indents {0,4,8,12} "
        "up to length 4 (quick) / 5 (thorough) and kinds {opener, plain} x {0,4,8,12} at length 5 (quick) / 6 (thorough). "
        "distinct = (kind, indent, flagged) vector of the method; non-trivial = at least one opener, one indented "
        "instruction line and at least two judged lines")
ASSUMPTIONS = [
    "a source line is one ParserMethodLine (what the engine builds from protocol Method lines); for the text route "
    "only \\n and \\r\\n separate lines and no other line-boundary character occurs in the contents",
    "indentation of a line = number of leading whitespace characters; a line whose indentation contains anything "
    "but U+0020, a non-parsable indented line (the parser reports column 0 for it) and a line whose opener-ness is "
    "ambiguous (name starting with a digit etc.) are not judged and suspend judgement of the following lines up to "
    "the next unflagged line at indent 0",
    "a line flagged indent_error may be read as present or as absent when the law is evaluated for later lines; a "
    "later unflagged line is a violation only if its parent differs from the law parent under both readings",
    "only the implication 'not flagged => parent == law parent' is asserted; correct text that is flagged is counted, "
    "not judged",
]
REQUIRED = {"texts": 2000, "nodes_checked": 10000, "parent_checks": 5000, "flagged_lines": 500, "law_must_flag": 300}
EXHAUSTIVE_ALL = False

OPENER_NAMES = ("Block", "Watch", "Alarm", "Macro")
SEPARATORS = ["\n", "\r", "\r\n", "\x0b", "\x0c", "\x1c", "\x1d", "\x1e", "\x85", "\u2028", "\u2029"]
_NAME_RE = re.compile(r"\s*(?:\d+(?:\.\d+)?\s)?([^:#]*)", re.S)


# ------------------------------------------------------------------------------------------------ reference side
def is_ws_line(s: str) -> bool:
    t = s.strip()
    return t == "" or t.startswith("#")


def lead(s: str) -> int:
    return len(s) - len(s.lstrip())


def ref_opener(s: str) -> bool:
    m = _NAME_RE.match(s)
    return bool(m) and m.group(1).strip() in OPENER_NAMES


def law_parent(k, lines_info, skip_flagged):
    """index of the law parent of line k, -1 for the program, None if the line must be flagged."""
    i = lines_info[k]["indent"]
    if i == 0:
        return -1
    for j in range(k - 1, -1, -1):
        li = lines_info[j]
        if li["ws"]:
            continue
        if skip_flagged and li["flagged"]:
            continue
        if li["indent"] < i:
            if li["indent"] == i - 4 and li["opener"]:
                return j
            return None
    return None


# ------------------------------------------------------------------------------------------------ monitor
def check_method(lines, res: Result, origin: str, text: str | None = None):
    """lines: list of (id, content). If text is given the method is built with ParserMethod.from_pcode(text)."""
    from openpectus.lang.model.parser import ParserMethod, ParserMethodLine, create_method_parser
    import openpectus.lang.model.ast as p

    case = {"origin": origin, "lines": [list(x) for x in lines]}
    if text is not None:
        case["text"] = text
    res.count("texts")
    try:
        if text is not None:
            method = ParserMethod.from_pcode(text)
            exp_ids = [f"id_{i + 1}" for i in range(len(lines))]
            if [ln.content for ln in method.lines] != [c for _, c in lines]:
                # cannot happen for \n / \r\n joined contents without other boundary characters (generator invariant)
                res.count("text_route_split_differs_not_judged")
                return
        else:
            method = ParserMethod([ParserMethodLine(i, c) for i, c in lines])
            exp_ids = [i for i, _ in lines]
        prog = create_method_parser(method, ["Short", "Long", "Set1"]).parse_method(method)
    except Exception as ex:  # totality
        res.violation(None, f"parse raised {type(ex).__name__}: {ex}"[:300], case)
        res.case(None)
        return
    nodes = prog.get_all_nodes()[1:]
    n = len(lines)
    ok_struct = True
    if len(nodes) != n:
        res.violation("C17.node_count_differs", f"{n} lines but {len(nodes)} nodes", case)
        ok_struct = False
    else:
        for k, nd in enumerate(nodes):
            res.count("nodes_checked")
            if nd.id != exp_ids[k] or nd.position.line != k:
                res.violation("C17.node_order_or_id_differs",
                              f"node #{k} has id {nd.id!r} line {nd.position.line}, expected id {exp_ids[k]!r} line {k}", case)
                ok_struct = False
                break
            if nd.parent is None or (nd.parent is not prog and nd.parent not in nodes[:k]):
                res.violation("C17.parent_not_a_preceding_line", f"node {nd.id} has parent "
                              f"{nd.parent.id if nd.parent else None} which is not a preceding line", case)
                ok_struct = False
                break
    if not ok_struct:
        res.case(None)
        return

    info = []
    for k, (_, c) in enumerate(lines):
        nd = nodes[k]
        ws = is_ws_line(c)
        info.append({"ws": ws, "indent": lead(c), "opener": (not ws) and ref_opener(c), "flagged": bool(nd.indent_error),
                     "spaces_only": c[:lead(c)] == " " * lead(c)})
    poisoned = False
    judged = 0
    viol = []
    for k, (_, c) in enumerate(lines):
        li = info[k]
        nd = nodes[k]
        if li["ws"]:
            res.count("whitespace_lines")
            if not isinstance(nd, p.WhitespaceNode):
                res.count("ws_kind_disagreement_not_judged")
                poisoned = True
            continue
        if isinstance(nd, p.WhitespaceNode):
            res.count("ws_kind_disagreement_not_judged")
            poisoned = True
            continue
        ambiguous = False
        if not li["spaces_only"]:
            res.count("non_space_indentation_not_judged")
            ambiguous = True
        elif li["indent"] > 0 and nd.position.character != li["indent"]:
            res.count("unparsable_indented_line_not_judged")
            ambiguous = True
        elif li["opener"] != isinstance(nd, p.NodeWithChildren):
            res.count("opener_ambiguous_not_judged")
            ambiguous = True
        if ambiguous:
            poisoned = True
            continue
        if li["indent"] == 0 and not li["flagged"]:
            poisoned = False
        if poisoned and li["indent"] != 0:
            res.count("lines_after_ambiguous_line_not_judged")
            continue
        la = law_parent(k, info, False)
        lb = law_parent(k, info, True)
        if la is None and lb is None:
            res.count("law_must_flag")
        if li["flagged"]:
            res.count("flagged_lines")
            if la is not None:
                res.count("flagged_although_law_parent_exists")   # allowed by the implication
            continue
        res.count("parent_checks")
        judged += 1
        actual = -1 if nd.parent is prog else nodes.index(nd.parent)
        if actual not in (la, lb):
            viol.append((k, actual, la, lb))
    for k, actual, la, lb in viol:
        mech = classify(k, actual, la, lb, info)
        want = "be flagged" if la is None and lb is None else \
            " or ".join(sorted({("program" if x == -1 else f"line {x}") for x in (la, lb) if x is not None}))
        res.violation(mech, f"line {k} {lines[k][1]!r} (indent {info[k]['indent']}) is not flagged and its parent is "
                      f"{'program' if actual == -1 else 'line ' + str(actual) + ' ' + repr(lines[actual][1])}; law: {want}",
                      case)
    key = None
    if judged >= 2 and any(x["opener"] for x in info) and any(x["indent"] > 0 and not x["ws"] for x in info):
        key = h([(("w" if x["ws"] else "o" if x["opener"] else "i"), x["indent"], x["flagged"]) for x in info])
    res.case(key, sample={"origin": origin, "lines": [c for _, c in lines][:12],
                          "parents": [("root" if nd.parent is prog else nd.parent.id) + ("!" if nd.indent_error else "")
                                      for nd in nodes][:12]})


def classify(k, actual, la, lb, info):
    """Narrow causal classifiers of the two defects known on the unchanged tree."""
    if actual < 0 or not info[actual]["opener"]:
        return None
    between = [j for j in range(actual + 1, k)]
    nonws_between = [j for j in between if not info[j]["ws"]]
    ind = info[k]["indent"]
    # (1) pending opener with an empty body: the line directly following it (whitespace lines aside) has the
    #     opener's own indentation and is appended to the opener
    if not nonws_between and ind == info[actual]["indent"] and not info[actual]["flagged"] and la == lb:
        return "C17.same_indent_after_opener_nested"
    return None


# ------------------------------------------------------------------------------------------------ workloads
PLAIN = ["Mark: a", "Mark: b", "Short", "Wait: 0.5s", "End block", "Stop", "0.5 Mark: c", "Call macro: M", "Base: s",
         "Pause", "Info: x # c", "End blocks", "Simulate: X = 1", "1.5 Long"]
OPEN = ["Block: A", "Watch: X > 1", "Alarm: FT01 > 2 L/h", "Macro: M", "0.5 Block: B", "Watch: Run Counter >= 0",
        "Block: C # note", "Watch", "Macro:"]
BLANKS = ["", "# c", "", "#", "    ", "        # deep"]
GARBAGE = ["!!!", "?: 4", ": x", "\u00e9t\u00e9: 1", "1Block: a", "12", "3.5", "Block", "Blocks: x", "-", "=", "\ud800"]


def exhaustive_case(symbols, vec):
    lines = []
    for k, s in enumerate(vec):
        kind, ind = symbols[s]
        if kind == "o":
            txt = OPEN[(k + ind // 4) % 4]
        elif kind == "i":
            txt = PLAIN[(k + ind // 4) % 5]
        else:
            txt = ""
        lines.append((f"L{k}", " " * ind + txt))
    return lines


def symbols_for(alpha):
    kinds = "oi" if alpha == 8 else "oib"
    return [(kd, ind) for kd in kinds for ind in (0, 4, 8, 12)]


def gen_struct(rnd: random.Random):
    n = rnd.randint(2, 14)
    lines = []
    prev = 0
    prev_open = False
    for k in range(n):
        r = rnd.random()
        if r < 0.30:
            kind, txt = "o", rnd.choice(OPEN)
        elif r < 0.75:
            kind, txt = "i", rnd.choice(PLAIN)
        elif r < 0.87:
            kind, txt = "b", ""
        elif r < 0.95:
            kind, txt = "c", rnd.choice(["# c", "#", "# Mark: x"])
        else:
            kind, txt = "g", rnd.choice(GARBAGE)
        q = rnd.random()
        if q < 0.35:
            ind = prev + 4 if prev_open else prev
        elif q < 0.55:
            ind = prev
        elif q < 0.70:
            ind = max(0, prev - 4 * rnd.randint(1, 3))
        elif q < 0.80:
            ind = prev + 4
        elif q < 0.92:
            ind = 4 * rnd.randint(0, 4)
        else:
            ind = rnd.randint(0, 17)
        lines.append(" " * ind + txt)
        if kind in "oig":
            prev = ind
            prev_open = kind == "o"
    return lines


def perturb(rnd: random.Random, lines: list[str]) -> list[str]:
    out = []
    for ln in lines:
        r = rnd.random()
        if r < 0.05:
            continue                      # deleted line (empties bodies)
        body = ln.lstrip(" ")
        ind = len(ln) - len(body)
        r = rnd.random()
        if r < 0.15:
            ind = max(0, ind + rnd.choice([-1, 1]) * rnd.randint(1, 8))
            ln = " " * ind + body
        elif r < 0.19:
            ln = "\t" * (ind // 4) + body if rnd.random() < 0.5 else "\t" + ln
        elif r < 0.21:
            ln = rnd.choice(["\u00a0", "\u2003", "\x1c", "\x0c"]) * max(1, ind) + body
        elif r < 0.24:
            ln = ln + rnd.choice(["  ", "\t", " # tail"])
        out.append(ln)
        if rnd.random() < 0.07:
            out.append(" " * rnd.choice([0, 0, ind, ind + 4, rnd.randint(0, 12)]) + rnd.choice(BLANKS))
    return out or ["Mark: a"]


ALPHABET = list("abBMWk _:#<>=!.-+0159%/") + ["\t", "  ", "    ", ": ", " # ", "\u00e9", "\u0661", "\u00b2", "\u00b0", "\u00b5", "\u00a0",
                                              "\u2003", "\x00", "\ud800", "\U0001f600", "Block", "Watch: ", "Mark",
                                              "End block", "Alarm", "Macro", "Simulate off"] + SEPARATORS


def gen_unicode(rnd: random.Random, allow_separators: bool):
    n = rnd.randint(1, 8)
    lines = []
    for _ in range(n):
        m = rnd.randint(0, 10)
        s = "".join(rnd.choice(ALPHABET) for _ in range(m))
        if rnd.random() < 0.3:
            s = " " * (4 * rnd.randint(0, 3)) + s
        if not allow_separators:
            s = "".join(ch for ch in s if ch not in "\n\r\x0b\x0c\x1c\x1d\x1e\x85\u2028\u2029")
        lines.append(s)
    return lines


def plan(tier, seed):
    specs = []
    if tier == "quick":
        exh = [(12, n, 0, 1) for n in (1, 2, 3)] + [(12, 4, j, 3) for j in range(3)] + [(8, 5, j, 4) for j in range(4)]
        n_rand, shards = 18000, 6
    else:
        exh = [(12, n, 0, 1) for n in (1, 2, 3, 4)] + [(12, 5, j, 16) for j in range(16)] + \
              [(8, 6, j, 16) for j in range(16)]
        n_rand, shards = 900000, 28
    for alpha, n, part, parts in exh:
        specs.append({"kind": "exh", "alpha": alpha, "len": n, "part": part, "parts": parts, "seed": 0})
    for i in range(shards):
        specs.append({"kind": "rand", "seed": seed * 1000003 + i, "n": n_rand // shards})
    return specs


def run_shard(spec):
    res = Result()
    if spec["kind"] == "exh":
        symbols = symbols_for(spec["alpha"])
        idx = 0
        for vec in itertools.product(range(len(symbols)), repeat=spec["len"]):
            idx += 1
            if idx % spec["parts"] != spec["part"]:
                continue
            check_method(exhaustive_case(symbols, vec), res, "exhaustive")
        if spec["part"] == 0:
            kinds = "{opener, plain, blank}" if spec["alpha"] == 12 else "{opener, plain}"
            res.exhaustive_parts.append(f"all {len(symbols)}^{spec['len']} vectors of kinds {kinds} x indents "
                                        f"{{0,4,8,12}} of length {spec['len']}")
        return res
    from opv.gen_pcode import Gen
    rnd = random.Random(spec["seed"])
    for j in range(spec["n"]):
        r = rnd.random()
        if r < 0.30:
            g = Gen(rnd, max_depth=3, base_s=rnd.random() < 0.5)
            base = g.program(rnd.randint(2, 7)).split("\n")[:-1]
            lines = perturb(rnd, base) if rnd.random() < 0.9 else base
            origin = "grammar+perturbation"
        elif r < 0.70:
            lines = gen_struct(rnd)
            if rnd.random() < 0.4:
                lines = perturb(rnd, lines)
            origin = "structure generator"
        elif r < 0.90:
            lines = gen_unicode(rnd, True)
            origin = "unicode lines"
        else:
            lines = gen_unicode(rnd, False) if rnd.random() < 0.5 else \
                [ln for ln in perturb(rnd, gen_struct(rnd)) if not any(ch in ln for ch in "\x0c\x1c")]
            sep = rnd.choice(["\n", "\r\n"])
            text = sep.join(lines)
            # a trailing empty line is not a line for splitlines: keep the invariant lines == text.splitlines()
            while lines and lines[-1] == "":
                lines = lines[:-1]
                text = sep.join(lines)
            check_method([(f"id_{i + 1}", c) for i, c in enumerate(lines)], res, "text route", text=text)
            continue
        check_method([(f"L{i}", c) for i, c in enumerate(lines)], res, origin)
    return res


def replay(case):
    res = Result()
    check_method([tuple(x) for x in case["lines"]], res, case.get("origin", "replay"), text=case.get("text"))
    return res
