"""C17 - Parsing maps every line to one node with indentation structure.

Direct calls of the real parser (create_method_parser(...).parse_method) on generated / enumerated methods; the
oracle is an indentation law computed from the *source lines* by this module (see DESIGN.md C17)."""
from __future__ import annotations

import itertools
import random
import re

from opv.core import Result, h

ID = "C17"
LEVEL = "exploration"
TECHNIQUE = "runtime monitoring: reference indentation law over the source lines vs. the tree built by the real parser"
RULE = ("(a) P-code grammar texts (opv.gen_pcode.Gen and a structure generator biased to openers/empty bodies/blank "
        "lines) with random indentation perturbations (+-1..8 spaces, tabs, other unicode spaces, deleted/inserted "
        "lines); (b) arbitrary unicode line contents incl. every separator str.splitlines knows, NUL and lone "
        "surrogates, given as method lines (one ParserMethodLine per line) or as \\n / \\r\\n joined text; (c) exhaustive "
        "enumeration of all line-kind x indent vectors: kinds {opener, plain instruction, blank} x indents {0,4,8,12} "
        "up to length 4 (quick) / 5 (thorough) and kinds {opener, plain} x {0,4,8,12} at length 5 (quick) / 6 (thorough). "
        "Lines after the first indentation error of a text are judged too (rules R3-R5 of the assumptions). "
        "distinct = (kind, indent, flagged) vector of the method; non-trivial = at least one opener, one indented "
        "instruction line and at least two judged lines")
ASSUMPTIONS = [
    "a source line is one ParserMethodLine (what the engine builds from protocol Method lines); for the text route "
    "only \\n and \\r\\n separate lines and no other line-boundary character occurs in the contents",
    "indentation of a line = number of leading whitespace characters; blank and comment lines are transparent for the "
    "law and only have to exist as nodes, in order, with their line's id",
    "reading of the statement that is asserted (weakest reasonable one): (R1) as long as the text is correctly indented "
    "according to the law, an unflagged line must have exactly the law parent (a correctly indented line that is "
    "flagged is allowed and counted); (R2) the first incorrectly indented line of a text must be flagged",
    "after the first incorrectly indented line the statement does not say whether an incorrectly indented line still "
    "counts as a 'preceding line', so three readings are computed from the source lines alone: A every line counts, "
    "B only correctly indented lines count (recursively), H correctly indented lines and all openers count; a line is "
    "'incorrect under some reading' if A, B or H has no parent for it. Judged there, up to the first ambiguous line or "
    "the first violation of the text: (R3) a line for which no preceding opener exactly four spaces shallower exists "
    "that is not cut off by a shallower line that is correct under all readings (no reading gives it a parent; this "
    "includes every indentation that is not 0 and has no opener at indent-4 before it) must be flagged; (R4) an "
    "unflagged line on which A, B and H agree must have exactly that parent; (R5) any other unflagged line must have "
    "one of the parents some reading can give it. A flagged line that a reading justifies is allowed and counted "
    "(the statement does not say that correct lines are never flagged)",
    "not judged after the first error (counted): lines in the body of an incorrectly indented opener, i.e. after an "
    "opener that is incorrect under some reading and deeper than it, until a line at or left of that opener (the "
    "statement does not say whether such a body is one level below where the opener stands or below where it should "
    "have stood; upstream deliberately accepts `  Block: A` / `    Mark: B`); lines that only some reading "
    "justifies may be flagged or not (R5 only restricts the parent of the unflagged ones)",
    "every R1-R5 witness is re-checked on the text truncated after the offending line and reported in that minimal form",
    "not judged, and ending the judged prefix: a line whose indentation contains anything but U+0020, an indented line "
    "the parser cannot match (it reports column 0 for it) and a line whose opener-ness is ambiguous (name starting "
    "with a digit etc.)",
]
REQUIRED = {"texts": 2000, "nodes_checked": 10000, "parent_checks": 5000, "flagged_lines": 500, "law_must_flag": 300,
            "after_error_must_flag": 5000, "after_error_parent_checks": 5000, "after_error_flagged_lines": 5000}
EXHAUSTIVE_ALL = False
# Off: the statement says that wrong indentation is flagged, not that correct indentation never is (DESIGN.md C17), so a
# flagged line that every reading justifies is only counted. Switching it on judges those lines too (rules 'overflag' /
# 'overflag_after_error'); on the unchanged tree the only occurrences then fall under the flagged-opener mechanism.
JUDGE_OVERFLAGGING = False

OPENER_NAMES = ("Block", "Watch", "Alarm", "Macro")
SEPARATORS = ["\n", "\r", "\r\n", "\x0b", "\x0c", "\x1c", "\x1d", "\x1e", "\x85", "\u2028", "\u2029"]
_NAME_RE = re.compile(r"\s*(?:\d+(?:\.\d+)?\s)?([^:#]*)", re.S)


# ------------------------------------------------------------------------------------------------ reference side
def is_ws_line(s: str) -> bool:
    t = s.strip()
    return t == "" or t.startswith("#")


def lead(s: str) -> int:
    return len(s) - len(s.lstrip())


def ref_opener(s: str) -> bool:
    m = _NAME_RE.match(s)
    return bool(m) and m.group(1).strip() in OPENER_NAMES


def law_parent(k, lines_info, skip_flagged=False):
    """index of the law parent of line k, -1 for the program, None if the line must be flagged."""
    i = lines_info[k]["indent"]
    if i == 0:
        return -1
    for j in range(k - 1, -1, -1):
        li = lines_info[j]
        if li["ws"]:
            continue
        if skip_flagged and li["flagged"]:
            continue
        if li["indent"] < i:
            if li["indent"] == i - 4 and li["opener"]:
                return j
            return None
    return None


class Readings:
    """What the statement can mean for a line that follows an incorrectly indented line. The statement does not say
    whether an incorrectly indented line still counts as a 'preceding line' for the lines after it, so three coherent
    readings are computed from the source lines alone (never from the parser's flags):
      A  every line counts (DESIGN.md's per-line law),
      B  only the correctly indented lines count (recursively: correct w.r.t. the correct lines before it),
      H  correctly indented lines and every opener count (a mis-indented opener still opens a body).
    law parent per reading: index, -1 = program, None = the line must be flagged under that reading."""

    def __init__(self, info):
        self.info = info
        self.A, self.B, self.H = [], [], []
        self.err = set()      # lines that are incorrectly indented under at least one reading

    def _lp(self, k, keep):
        info = self.info
        i = info[k]["indent"]
        if i == 0:
            return -1
        for j in range(k - 1, -1, -1):
            if info[j]["ws"] or not keep(j):
                continue
            if info[j]["indent"] < i:
                return j if info[j]["indent"] == i - 4 and info[j]["opener"] else None
        return None

    def extend(self, k):
        info = self.info
        for m in range(len(self.A), k + 1):
            if info[m]["ws"]:
                a = b = hh = "ws"
            else:
                a = self._lp(m, lambda j: True)
                b = self._lp(m, lambda j: self.B[j] is not None)
                hh = self._lp(m, lambda j: self.H[j] is not None or info[j]["opener"])
                if a is None or b is None or hh is None:
                    self.err.add(m)
            self.A.append(a)
            self.B.append(b)
            self.H.append(hh)

    def in_body_of_misindented_opener(self, k):
        """some preceding opener is incorrectly indented under at least one reading and every instruction line after
        it up to and including line k is deeper than that opener"""
        info = self.info
        low = info[k]["indent"]
        for j in range(k - 1, -1, -1):
            if info[j]["ws"]:
                continue
            if info[j]["opener"] and j in self.err and info[j]["indent"] < low:
                return True
            low = min(low, info[j]["indent"])
            if low == 0:
                return False
        return False

    def settled(self, k):
        """the law parent if all readings agree that the line is correctly indented, else None"""
        a = self.A[k]
        return a if a is not None and a == self.B[k] == self.H[k] else None

    def candidates(self, k):
        """every parent some reading can give the line: an opener one level shallower such that every shallower line
        in between is itself incorrectly indented under some reading (so that a reading may skip it)"""
        info = self.info
        i = info[k]["indent"]
        if i == 0:
            return {-1}
        out = set()
        for j in range(k - 1, -1, -1):
            if info[j]["ws"]:
                continue
            if info[j]["indent"] < i:
                if info[j]["indent"] == i - 4 and info[j]["opener"]:
                    out.add(j)
                if j not in self.err:
                    break
        return out


def _pname(q, lines):
    return "None" if q is None else "program" if q == -1 else f"line {q} {lines[q][1]!r}"


# ------------------------------------------------------------------------------------------------ monitor
class _SplitDiffers(Exception):
    pass


def run_parser(lines, text):
    from openpectus.lang.model.parser import ParserMethod, ParserMethodLine, create_method_parser
    if text is not None:
        method = ParserMethod.from_pcode(text)
        exp_ids = [f"id_{i + 1}" for i in range(len(lines))]
        if [ln.content for ln in method.lines] != [c for _, c in lines]:
            raise _SplitDiffers()
    else:
        method = ParserMethod([ParserMethodLine(i, c) for i, c in lines])
        exp_ids = [i for i, _ in lines]
    return create_method_parser(method, ["Short", "Long", "Set1"]).parse_method(method), exp_ids


def judge(lines, text=None):
    """Parses with the real parser and evaluates the oracle. Returns a dict with
    viol: [(rule, k, msg)], counts: Counter, info: per-line reference data, parents: actual parent index per line."""
    import collections
    import openpectus.lang.model.ast as p
    out = {"viol": [], "counts": collections.Counter(), "info": None, "parents": None, "judged": 0}
    cnt = out["counts"]
    try:
        prog, exp_ids = run_parser(lines, text)
    except _SplitDiffers:
        # cannot happen for \n / \r\n joined contents without other boundary characters (generator invariant)
        cnt["text_route_split_differs_not_judged"] += 1
        return out
    except Exception as ex:  # totality
        out["viol"].append(("raise", None, f"parse raised {type(ex).__name__}: {ex}"[:300]))
        return out
    nodes = prog.get_all_nodes()[1:]
    n = len(lines)
    if len(nodes) != n:
        out["viol"].append(("count", None, f"{n} lines but {len(nodes)} nodes"))
        return out
    for k, nd in enumerate(nodes):
        cnt["nodes_checked"] += 1
        if nd.id != exp_ids[k] or nd.position.line != k:
            out["viol"].append(("order", k, f"node #{k} has id {nd.id!r} line {nd.position.line}, expected id "
                                f"{exp_ids[k]!r} line {k}"))
            return out
        if nd.parent is None or (nd.parent is not prog and not any(nd.parent is x for x in nodes[:k])):
            out["viol"].append(("parent_not_preceding", k, f"node {nd.id} has parent "
                                f"{nd.parent.id if nd.parent else None} which is not a preceding line"))
            return out
    info = []
    for k, (_, c) in enumerate(lines):
        nd = nodes[k]
        ws = is_ws_line(c)
        info.append({"ws": ws, "indent": lead(c), "opener": (not ws) and ref_opener(c), "flagged": bool(nd.indent_error),
                     "spaces_only": c[:lead(c)] == " " * lead(c)})
    index_of = {id(nd): k for k, nd in enumerate(nodes)}
    parents = [-1 if nd.parent is prog else index_of[id(nd.parent)] for nd in nodes]
    out["info"], out["parents"] = info, parents
    state = "correct"       # the text up to here is correctly indented according to the law
    rd = Readings(info)
    for k, (_, c) in enumerate(lines):
        li = info[k]
        nd = nodes[k]
        ambiguous = None
        if li["ws"] != isinstance(nd, p.WhitespaceNode):
            ambiguous = "ws_kind_disagreement_not_judged"
        elif li["ws"]:
            cnt["whitespace_lines"] += 1
            continue
        elif not li["spaces_only"]:
            ambiguous = "non_space_indentation_not_judged"
        elif li["indent"] > 0 and nd.position.character != li["indent"]:
            ambiguous = "unparsable_indented_line_not_judged"
        elif li["opener"] != isinstance(nd, p.NodeWithChildren):
            ambiguous = "opener_ambiguous_not_judged"
        if state == "error" and ambiguous is None:
            # after the first incorrectly indented line: only what every reading of the statement requires (R3-R5)
            rd.extend(k)
            if rd.in_body_of_misindented_opener(k):
                # the statement does not say what the body of an opener that is itself incorrectly indented has to
                # look like (one level below where the opener stands, or below where it should have stood): not judged
                cnt["after_error_line_in_body_of_misindented_opener_not_judged"] += 1
                continue
            cands = rd.candidates(k)
            settled = rd.settled(k)
            if not cands:
                cnt["after_error_must_flag"] += 1
                if li["flagged"]:
                    cnt["after_error_flagged_lines"] += 1
                else:
                    state = "misnested"
                    out["viol"].append(("must_flag_after_error", k, f"line {k} {c!r} (indent {li['indent']}) follows "
                                        f"an earlier indentation error; no preceding line that opens a body can be its "
                                        f"parent under any reading (none at indent {li['indent'] - 4} that is not cut "
                                        f"off by a correctly indented shallower line), yet it is not flagged and was "
                                        f"given parent {_pname(parents[k], lines)}"))
                continue
            if li["flagged"]:
                cnt["after_error_flagged_lines"] += 1
                cnt["after_error_justified_line_flagged (allowed)" if settled is not None else
                    "after_error_reading_dependent_line_flagged (allowed)"] += 1
                if settled is not None and JUDGE_OVERFLAGGING:
                    state = "misnested"
                    out["viol"].append(("overflag_after_error", k, f"line {k} {c!r} (indent {li['indent']}) follows an "
                                        f"earlier indentation error, is correctly indented under every reading (law "
                                        f"parent {_pname(settled, lines)}) and is flagged as an indentation error"))
                continue
            if settled is not None:
                cnt["after_error_parent_checks"] += 1
                if parents[k] != settled:
                    state = "misnested"
                    out["viol"].append(("parent_after_error", k, f"line {k} {c!r} (indent {li['indent']}) follows an "
                                        f"earlier indentation error, is itself correctly indented whether or not the "
                                        f"incorrectly indented lines are counted, is not flagged, its parent is "
                                        f"{_pname(parents[k], lines)}, law parent is {_pname(settled, lines)}"))
                continue
            cnt["after_error_reading_dependent_unflagged_lines"] += 1
            if parents[k] in cands:
                cnt["after_error_reading_dependent_parent_is_a_candidate"] += 1
            else:
                state = "misnested"
                out["viol"].append(("parent_no_reading", k, f"line {k} {c!r} (indent {li['indent']}) follows an earlier "
                                    f"indentation error, is not flagged and its parent {_pname(parents[k], lines)} is "
                                    f"not its law parent under any reading (candidates: "
                                    f"{[_pname(x, lines) for x in sorted(cands)]})"))
            continue
        if state == "error":
            cnt[ambiguous] += 1
            state = "ambiguous"
            continue
        if state != "correct":
            # after an ambiguous line / after the first violation of a text: observed, counted, not judged
            cnt["lines_after_ambiguous_line_or_violation_not_judged"] += 1
            continue
        if ambiguous:
            cnt[ambiguous] += 1
            state = "ambiguous"
            continue
        la = law_parent(k, info)
        if la is None:
            cnt["law_must_flag"] += 1
            state = "error"
            if li["flagged"]:
                cnt["flagged_lines"] += 1
            else:
                state = "misnested"
                out["viol"].append(("must_flag", k, f"line {k} {c!r} (indent {li['indent']}) is the first incorrectly "
                                    f"indented line, is not flagged and was given parent "
                                    f"{'program' if parents[k] == -1 else 'line ' + str(parents[k])}"))
            continue
        if li["flagged"]:
            cnt["flagged_lines"] += 1
            cnt["correctly_indented_line_flagged (allowed)"] += 1
            if JUDGE_OVERFLAGGING:
                state = "misnested"
                out["viol"].append(("overflag", k, f"line {k} {c!r} (indent {li['indent']}) of a correctly indented text "
                                    f"is flagged as an indentation error"))
            continue
        cnt["parent_checks"] += 1
        out["judged"] += 1
        if parents[k] != la:
            state = "misnested"     # everything after a silent mis-nesting is a consequence of it
            out["viol"].append(("parent", k, f"line {k} {c!r} (indent {li['indent']}) of a correctly indented text is "
                                f"not flagged, its parent is "
                                f"{'program' if parents[k] == -1 else 'line ' + str(parents[k]) + ' ' + repr(lines[parents[k]][1])}"
                                f", law parent is {'program' if la == -1 else 'line ' + str(la) + ' ' + repr(lines[la][1])}"))
    return out


def check_method(lines, res: Result, origin: str, text: str | None = None):
    """lines: list of (id, content). If text is given the method is built with ParserMethod.from_pcode(text)."""
    res.count("texts")
    out = judge(lines, text)
    for name, c in out["counts"].items():
        res.count(name, c)
    case = {"origin": origin, "lines": [list(x) for x in lines]}
    if text is not None:
        case["text"] = text
    for rule, k, msg in out["viol"]:
        if rule in ("raise", "count", "order", "parent_not_preceding"):
            res.violation(None if rule == "raise" else "C17." + {"count": "node_count_differs",
                          "order": "node_order_or_id_differs", "parent_not_preceding": "parent_not_a_preceding_line"}[rule],
                          msg, case)
            continue
        # minimal witness: the text truncated after the offending line is itself a correctly indented text (rule
        # 'parent') resp. a text whose only incorrect line is the last one (rule 'must_flag')
        cut = lines[:k + 1]
        out2 = judge(cut) if k + 1 < len(lines) else out
        again = [v for v in out2["viol"] if v[0] == rule and v[1] == k]
        if again:
            res.violation(classify(rule, k, out2["info"], out2["parents"], cut), again[0][2],
                          {"origin": origin + " (truncated after the offending line)", "lines": [list(x) for x in cut]})
        elif rule.startswith(("must_flag", "overflag")):
            res.violation(classify(rule, k, out["info"], out["parents"], lines), msg, case)
        else:
            res.count("parent_violation_not_confirmed_on_truncated_text")
    info = out["info"]
    key = None
    if info and out["judged"] >= 2 and any(x["opener"] for x in info) and \
            any(x["indent"] > 0 and not x["ws"] for x in info):
        key = h([(("w" if x["ws"] else "o" if x["opener"] else "i"), x["indent"], x["flagged"]) for x in info])
    res.case(key, sample={"origin": origin, "lines": [c for _, c in lines][:12],
                          "parents": [("root" if q == -1 else lines[q][0]) + ("!" if i["flagged"] else "")
                                      for q, i in zip(out["parents"], info)][:12] if info else None})


def classify(rule, k, info, parents, lines=None):
    """Narrow causal classifiers of the defects known on the unchanged tree. All of them concern rule 'parent' (a
    line of a correctly indented text that is silently nested too deep); a line that must be flagged and is not
    never gets a key."""
    if info is None:
        return None
    if rule in ("must_flag_after_error", "parent_after_error", "parent_no_reading", "overflag_after_error"):
        return classify_after_error(k, info, lines)
    if rule != "parent":
        return None
    ind = info[k]["indent"]
    prev = [j for j in range(k - 1, -1, -1) if not info[j]["ws"]]
    if not prev:
        return None
    o = prev[0]
    actual = parents[k]
    if info[o]["opener"] and not info[o]["flagged"] and ind <= info[o]["indent"]:
        # (1) the nearest preceding instruction line is an opener whose body is still empty ("pending"); the parser
        # pops (opener_indent - indent)/4 levels starting from the pending opener itself instead of from its parent, so
        # the line ends up exactly one level too deep: in the opener (same indent) / in the opener's law ancestor that
        # has the line's own indent (outdent)
        chain = [o]
        while chain[-1] not in (-1, None):
            chain.append(law_parent(chain[-1], info))
        too_deep = [c for c in chain if c not in (-1, None) and info[c]["indent"] == ind]
        if chain[-1] == -1 and too_deep and actual == too_deep[0]:
            return "C17.same_indent_after_opener_nested" if ind == info[o]["indent"] else \
                "C17.outdent_after_empty_opener_one_level_short"
    # (2) an opener u directly followed by a blank/comment line: the whitespace line clears the parser's 'increment
    # required' state, the (correctly indented) first body line is flagged, the indentation bookkeeping (prev_indent,
    # parent_node) is out of step from there on, and a later unflagged line is appended to a stale parent.
    # Causal test: (a) such an opener/whitespace/flagged-first-body-line triple precedes the line, and (b) the real
    # parser nests the line correctly once the whitespace runs that directly follow openers are deleted from the text.
    cause = False
    for u in range(k):
        if info[u]["opener"] and u + 1 < k and info[u + 1]["ws"]:
            body = [j for j in range(u + 1, k) if not info[j]["ws"]]
            if body and info[body[0]]["flagged"] and law_parent(body[0], info) == u:
                cause = True
                break
    if not cause or lines is None:
        return None
    keep = []
    after_opener = False
    for j in range(k + 1):
        if info[j]["ws"]:
            if after_opener:
                continue
        else:
            after_opener = info[j]["opener"]
        keep.append(j)
    reduced = [lines[j] for j in keep]
    out = judge(reduced)
    k2 = len(reduced) - 1
    if out["info"] is None or out["info"][k2]["flagged"]:
        return None
    rest = out["viol"]
    if not rest:
        return "C17.blank_after_opener_then_outer_line_nested"
    # compound: a body line (or the line itself) follows an opener with an empty body; without the whitespace runs the
    # only residual mis-nesting in the text is exactly mechanism (1)
    if len(rest) == 1 and rest[0][0] == "parent" and classify("parent", rest[0][1], out["info"], out["parents"], None) in (
            "C17.same_indent_after_opener_nested", "C17.outdent_after_empty_opener_one_level_short"):
        return "C17.blank_after_opener_then_outer_line_nested"
    return None


def classify_after_error(k, info, lines):
    """(3) an incorrectly indented opener is flagged and nevertheless becomes the parser's current parent (with
    'increment required'), while prev_indent stays that of the last unflagged line: the lines after it are compared with
    a (prev_indent, parent) pair that is out of step. Causal test: (a) a flagged, incorrectly indented opener precedes
    the line and (b) the real parser treats the line as required once the keyword of every such opener is replaced by
    a plain instruction at the same indentation (repeated, because the replacement changes which later openers are
    flagged). A text without a flagged mis-indented opener never gets the key."""
    if lines is None:
        return None
    cur = [tuple(x) for x in lines[:k + 1]]
    replaced = False
    for _ in range(len(cur) + 1):
        rd = Readings(info)
        rd.extend(k)
        bad_openers = [j for j in range(k) if info[j]["opener"] and info[j]["flagged"] and j in rd.err]
        if not bad_openers:
            return None
        replaced = True
        cur = [(i, " " * info[j]["indent"] + "Mark: x") if j in bad_openers else (i, c) for j, (i, c) in enumerate(cur)]
        out = judge(cur)
        info = out["info"]
        if info is None:
            return None
        if any(v[1] is None or v[1] <= k for v in out["viol"]):
            continue
        return "C17.line_after_flagged_opener_placed_by_stale_prev_indent" if replaced else None
    return None


# ------------------------------------------------------------------------------------------------ workloads
PLAIN = ["Mark: a", "Mark: b", "Short", "Wait: 0.5s", "End block", "Stop", "0.5 Mark: c", "Call macro: M", "Base: s",
         "Pause", "Info: x # c", "End blocks", "Simulate: X = 1", "1.5 Long"]
OPEN = ["Block: A", "Watch: X > 1", "Alarm: FT01 > 2 L/h", "Macro: M", "0.5 Block: B", "Watch: Run Counter >= 0",
        "Block: C # note", "Watch", "Macro:"]
BLANKS = ["", "# c", "", "#", "    ", "        # deep"]
GARBAGE = ["!!!", "?: 4", ": x", "\u00e9t\u00e9: 1", "1Block: a", "12", "3.5", "Block", "Blocks: x", "-", "=", "\ud800"]


def exhaustive_case(symbols, vec):
    lines = []
    for k, s in enumerate(vec):
        kind, ind = symbols[s]
        if kind == "o":
            txt = OPEN[(k + ind // 4) % 4]
        elif kind == "i":
            txt = PLAIN[(k + ind // 4) % 5]
        else:
            txt = ""
        lines.append((f"L{k}", " " * ind + txt))
    return lines


def symbols_for(alpha):
    kinds = "oi" if alpha == 8 else "oib"
    return [(kd, ind) for kd in kinds for ind in (0, 4, 8, 12)]


def gen_struct(rnd: random.Random):
    """Mostly correctly indented structures (so that long prefixes are judged) with many empty bodies, blank/comment
    lines at arbitrary columns, and an occasional wrong indentation."""
    n = rnd.randint(2, 14)
    p_bad = rnd.choice([0.0, 0.0, 0.03, 0.08, 0.25])
    lines = []
    prev = 0
    prev_open = False
    for k in range(n):
        r = rnd.random()
        if r < 0.32:
            kind, txt = "o", rnd.choice(OPEN)
        elif r < 0.74:
            kind, txt = "i", rnd.choice(PLAIN)
        elif r < 0.86:
            kind, txt = "b", rnd.choice(["", "", "    ", "  "])
        elif r < 0.95:
            kind, txt = "c", rnd.choice(["# c", "#", "# Mark: x"])
        else:
            kind, txt = "g", rnd.choice(GARBAGE)
        if kind in "bc":
            ind = rnd.choice([0, prev, prev + 4, rnd.randint(0, 13)])
        elif rnd.random() < p_bad:
            ind = rnd.choice([prev + 8, prev + 4, rnd.randint(0, 17), prev + rnd.choice([-2, -1, 1, 2, 3])])
            ind = max(0, ind)
        elif prev_open and rnd.random() < 0.7:
            ind = prev + 4
        else:
            ind = 4 * rnd.randint(0, prev // 4)
            if rnd.random() < 0.5:
                ind = prev - prev % 4
        lines.append(" " * ind + txt)
        if kind in "oig":
            prev = ind
            prev_open = kind == "o"
    return lines


def perturb(rnd: random.Random, lines: list[str], rate: float = 1.0) -> list[str]:
    out = []
    for ln in lines:
        if rnd.random() < 0.05 * rate:
            continue                      # deleted line (empties bodies)
        body = ln.lstrip(" ")
        ind = len(ln) - len(body)
        r = rnd.random() / max(rate, 1e-9)
        if r < 0.15:
            ind = max(0, ind + rnd.choice([-1, 1]) * rnd.randint(1, 8))
            ln = " " * ind + body
        elif r < 0.19:
            ln = "\t" * (ind // 4) + body if rnd.random() < 0.5 else "\t" + ln
        elif r < 0.21:
            ln = rnd.choice(["\u00a0", "\u2003", "\x1c", "\x0c"]) * max(1, ind) + body
        elif r < 0.24:
            ln = ln + rnd.choice(["  ", "\t", " # tail"])
        out.append(ln)
        if rnd.random() < 0.07 * rate:
            out.append(" " * rnd.choice([0, 0, ind, ind + 4, rnd.randint(0, 12)]) + rnd.choice(BLANKS))
    return out or ["Mark: a"]


ALPHABET = list("abBMWk _:#<>=!.-+0159%/") + ["\t", "  ", "    ", ": ", " # ", "\u00e9", "\u0661", "\u00b2", "\u00b0", "\u00b5", "\u00a0",
                                              "\u2003", "\x00", "\ud800", "\U0001f600", "Block", "Watch: ", "Mark",
                                              "End block", "Alarm", "Macro", "Simulate off"] + SEPARATORS


def gen_unicode(rnd: random.Random, allow_separators: bool):
    n = rnd.randint(1, 8)
    lines = []
    for _ in range(n):
        m = rnd.randint(0, 10)
        s = "".join(rnd.choice(ALPHABET) for _ in range(m))
        if rnd.random() < 0.3:
            s = " " * (4 * rnd.randint(0, 3)) + s
        if not allow_separators:
            s = "".join(ch for ch in s if ch not in "\n\r\x0b\x0c\x1c\x1d\x1e\x85\u2028\u2029")
        lines.append(s)
    return lines


def plan(tier, seed):
    specs = []
    if tier == "quick":
        exh = [(12, n, 0, 1) for n in (1, 2, 3)] + [(12, 4, j, 3) for j in range(3)] + [(8, 5, j, 4) for j in range(4)]
        n_rand, shards = 18000, 6
    else:
        exh = [(12, n, 0, 1) for n in (1, 2, 3, 4)] + [(12, 5, j, 16) for j in range(16)] + \
              [(8, 6, j, 16) for j in range(16)]
        n_rand, shards = 900000, 28
    for alpha, n, part, parts in exh:
        specs.append({"kind": "exh", "alpha": alpha, "len": n, "part": part, "parts": parts, "seed": 0})
    for i in range(shards):
        specs.append({"kind": "rand", "seed": seed * 1000003 + i, "n": n_rand // shards})
    return specs


def run_shard(spec):
    res = Result()
    if spec["kind"] == "exh":
        symbols = symbols_for(spec["alpha"])
        idx = 0
        for vec in itertools.product(range(len(symbols)), repeat=spec["len"]):
            idx += 1
            if idx % spec["parts"] != spec["part"]:
                continue
            check_method(exhaustive_case(symbols, vec), res, "exhaustive")
        if spec["part"] == 0:
            kinds = "{opener, plain, blank}" if spec["alpha"] == 12 else "{opener, plain}"
            res.exhaustive_parts.append(f"all {len(symbols)}^{spec['len']} vectors of kinds {kinds} x indents "
                                        f"{{0,4,8,12}} of length {spec['len']}")
        return res
    from opv.gen_pcode import Gen
    rnd = random.Random(spec["seed"])
    for j in range(spec["n"]):
        r = rnd.random()
        if r < 0.30:
            g = Gen(rnd, max_depth=3, base_s=rnd.random() < 0.5)
            base = g.program(rnd.randint(2, 7)).split("\n")[:-1]
            lines = perturb(rnd, base, rnd.choice([0.15, 0.3, 1.0])) if rnd.random() < 0.9 else base
            origin = "grammar+perturbation"
        elif r < 0.70:
            lines = gen_struct(rnd)
            if rnd.random() < 0.4:
                lines = perturb(rnd, lines, rnd.choice([0.15, 0.3, 1.0]))
            origin = "structure generator"
        elif r < 0.90:
            lines = gen_unicode(rnd, True)
            origin = "unicode lines"
        else:
            lines = gen_unicode(rnd, False) if rnd.random() < 0.5 else \
                [ln for ln in perturb(rnd, gen_struct(rnd)) if not any(ch in ln for ch in "\x0c\x1c")]
            sep = rnd.choice(["\n", "\r\n"])
            text = sep.join(lines)
            # a trailing empty line is not a line for splitlines: keep the invariant lines == text.splitlines()
            while lines and lines[-1] == "":
                lines = lines[:-1]
                text = sep.join(lines)
            check_method([(f"id_{i + 1}", c) for i, c in enumerate(lines)], res, "text route", text=text)
            continue
        check_method([(f"L{i}", c) for i, c in enumerate(lines)], res, origin)
    return res


def replay(case):
    res = Result()
    check_method([tuple(x) for x in case["lines"]], res, case.get("origin", "replay"), text=case.get("text"))
    return res
