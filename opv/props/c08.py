"""C08 - Outputs with a safe value are safe whenever no run is progressing.

Invariant over the write log / shadow register file of the recording hardware, joined with the System State at tick
ends (see DESIGN.md C08). Nothing is predicted: the monitor only looks at what reached the hardware."""
from __future__ import annotations

import random

from opv.core import Result
from opv.gen_pcode import Gen, trajectory, shape_hash

ID = "C08"
LEVEL = "exploration"
TECHNIQUE = ("runtime monitoring: invariant over the hardware write log (RecordingHardware.write_batch) joined with "
             "System State at tick ends; mechanism named from UOD callback log and wrappers on _apply_safe_state")
RULE = ("ENUMERATED: 8 fixed methods that drive the safe-valued outputs Out1/Out2 (Set1/Set2 lines, the long-running "
        "Drive1 that rewrites Out1=7 on every iteration, timed Pause, a failing command, method Stop/Restart, two Watch bodies issuing Set1 and Pause in one tick) x every "
        "schedule of exactly L symbols over {user Start, Stop, Pause, Unpause, Restart, user UOD commands On1 (Out1=9) "
        "and Drive1, bare tick}, one tick after each symbol, 6 settle ticks: L=4 quick, L=5 thorough. SAMPLED: seeded "
        "generated methods (Set1/Set2/SetPlain/Drive1/Fail lines inside Watch/Alarm/Block structure, Pause/Hold with "
        "and without duration, Stop/Restart) x random schedules of 6-18 steps (user control commands, user UOD "
        "commands On1/On2/Drive1, user-injected USet1/USet2 lines, several requests per tick) x scripted FT01 trajectory. distinct = "
        "(method shape hash, schedule); non-trivial = a safe-valued output carried a non-safe value on the hardware "
        "and afterwards at least one paused tick or post-Stop tick was judged")
ASSUMPTIONS = [
    "'holds the safe value on the hardware' = the shadow register of the recording hardware equals the configured "
    "safe value at the tick end; a register the engine has never written does not hold it",
    "'until the first run starts' = tick ends with System State Stopped before any other state was observed; 'after "
    "every Stop' = tick ends showing Stopped after a run, except the Stopped phase inside a Restart (counted, not "
    "judged: Restart is not Stop); 'while no run is active' = ticks that begin and end Stopped",
    "'throughout every pause' = ticks that begin and end with System State Paused and lie after the tick in which "
    "that pause began (pause entered by Pause from user or method, timed Pause, or by the engine's error state, "
    "which reports Paused). A pause that is undone and re-entered within one tick (Unpause / end of a timed Pause "
    "followed by an error or a new Pause in the same tick) counts as a new pause beginning in that tick",
    "'the user explicitly commands that output during the pause' = a user-issued UOD command "
    "(execute_control_command_from_user, or a line injected by the user) targeting that register whose execution began at or after the tick in "
    "which the pause began; the register is then exempt until that pause ends. A command (user or method) that was "
    "already executing when the pause began is not such a command",
    "trusted base: engine rig (virtual clock, RecordingHardware, logging UOD callbacks) plus two extra arg-less UOD "
    "commands On1/On2 added through uod_factory",
]
REQUIRED = {"prestart_checks": 100000, "post_stop_checks": 15000, "paused_tick_checks": 12000,
            "inactive_tick_checks": 60000, "paused_ticks_after_nonsafe": 8000, "post_stop_after_nonsafe": 5000,
            "user_exemptions": 200, "error_pauses": 200, "resident_exec_in_pause": 600}
EXHAUSTIVE_ALL = False

SAFE = {"Out1": 0, "Out2": 0.0}
TARGET = {"Set1": "Out1", "Drive1": "Out1", "On1": "Out1", "USet1": "Out1", "Set2": "Out2", "On2": "Out2", "USet2": "Out2"}
USER_ONLY = ("USet1", "USet2")        # only ever issued by the user (injected 'USet1: 4', as the frontend does for outputs)
CORE_METHODS = [
    "Base: s\nSet1: 5\nSet2: 2.5 L/h\nWait: 100s\n",
    "Base: s\nDrive1\nWait: 100s\n",
    "Base: s\nSet1: 5\nPause: 0.3s\nSet1: 6\nWait: 100s\n",
    "Base: s\nSet1: 5\nFail\nWait: 100s\n",
    "Base: s\nSet1: 3\nWait: 0.3s\nStop\n",
    "Base: s\nDrive1\nWait: 0.2s\nPause\nWait: 100s\n",
    "Base: s\nSet2: 2.5 L/h\nWait: 0.2s\nRestart\n",
    "Base: s\nWatch: Run Counter >= 0\n    Mark: a\n    Set1: 3\nWatch: Run Counter >= 0\n    Pause\nWait: 100s\n",
]
CORE_ALPHA = ["u:Start", "u:Stop", "u:Pause", "u:Unpause", "u:Restart", "u:On1", "u:Drive1", "tick"]
SETTLE = 6


def plan(tier, seed):
    L = 4 if tier == "quick" else 5
    shards = 16 if tier == "quick" else 48
    n_rand = 3200 if tier == "quick" else 60000
    return [{"seed": seed * 1000003 + i, "L": L, "shard": i, "of": shards, "n_rand": n_rand // shards}
            for i in range(shards)]


def _seq(idx, L, alpha):
    out = []
    for _ in range(L):
        out.append(alpha[idx % len(alpha)])
        idx //= len(alpha)
    return out[::-1]


def gen_random_case(rnd: random.Random):
    g = Gen(rnd, allow=("mark", "uod", "uod", "wait", "block", "watch", "alarm", "pausehold", "thr"), max_depth=2,
            uod_cmds=("Set1: 5", "Set1: 3", "Set1: 0", "Set2: 2.5 L/h", "Set2: 0 L/h", "Drive1", "SetPlain: 4", "Short",
                      "Long", "Fail", "Drive1", "Set1: 8"),
            thr_values=("0.2", "0.5", "0.3"), wait_values=("0.1", "0.2", "0.3", "0.5"), allow_stop=False)
    text = g.program(rnd.randint(3, 8))
    r = rnd.random()
    if r < 0.15:
        text += "Stop\n"
    elif r < 0.25:
        text += "Restart\n"
    elif r < 0.5:
        text += rnd.choice(["Pause\n", "Pause: 0.3s\n", "Hold: 0.2s\n"]) + "Set1: 2\nWait: 100s\n"
    n = rnd.randint(6, 18)
    sched, mask = [], []
    pool = (["u:Start"] * 2 + ["u:Stop"] * 2 + ["u:Pause"] * 4 + ["u:Unpause"] * 3 + ["u:Hold", "u:Unhold", "u:Restart"] +
            ["u:On1", "u:On2", "u:Drive1", "i:USet1: 4", "i:USet2: 1.5", "i:Pause", "i:Pause: 0.2s"] + ["tick"] * 8)
    for i in range(n):
        s = rnd.choice(pool)
        if i == 0 and rnd.random() < 0.8:
            s = "u:Start"
        sched.append(s)
        mask.append(1 if rnd.random() < 0.8 else 0)
    return {"method": text, "sched": sched, "mask": mask, "traj": trajectory(rnd, 60), "long_n": rnd.choice([4, 12]),
            "fail_at": rnd.choice([0, 1, 3])}


def cases_for_shard(spec):
    L, sh, of = spec["L"], spec["shard"], spec["of"]
    n = len(CORE_ALPHA)
    k = 0
    for mi, meth in enumerate(CORE_METHODS):
        for idx in range(n ** L):
            if k % of == sh:
                yield "E", {"method": meth, "sched": _seq(idx, L, CORE_ALPHA), "mask": None, "traj": None, "long_n": 12,
                            "fail_at": 1}
            k += 1
    rnd = random.Random(spec["seed"])
    for _ in range(spec["n_rand"]):
        yield "R", gen_random_case(rnd)


# ---------------------------------------------------------------------------------------------------------------
def _uod_factory(long_n, fail_at):
    def factory(log):
        from opv.rigs import engine_rig as R
        from openpectus.lang.exec.uod import UodCommandBuilder
        import time as _time
        uod = R.make_uod(log, long_n=long_n, fail_at=fail_at)

        def mk(name, reg, val):
            def init(cmd):
                log.append((R.TICK[0], "init", cmd.name, cmd.instance_id, 0))

            def fin(cmd):
                log.append((R.TICK[0], "fin", cmd.name, cmd.instance_id, cmd.get_iteration_count()))

            def ex(cmd, **kw):
                log.append((R.TICK[0], "exec", cmd.name, cmd.instance_id, cmd.get_iteration_count()))
                cmd.context.tags[reg].set_value(val, _time.time())
                cmd.set_complete()
            uod.command_factories[name] = (UodCommandBuilder().with_name(name).with_exec_fn(ex).with_init_fn(init)
                                           .with_finalize_fn(fin))
        mk("On1", "Out1", 9)
        mk("On2", "Out2", 4.5)

        def mkset(name, reg, conv):
            def ex(cmd, value):
                log.append((R.TICK[0], "exec", cmd.name, cmd.instance_id, cmd.get_iteration_count()))
                cmd.context.tags[reg].set_value(conv(value), _time.time())
                cmd.set_complete()
            from openpectus.lang.exec.uod import defaultArgumentParser
            uod.command_factories[name] = (UodCommandBuilder().with_name(name).with_exec_fn(ex)
                                           .with_arg_parse_fn(defaultArgumentParser))
        mkset("USet1", "Out1", int)
        mkset("USet2", "Out2", float)
        return uod
    return factory


def check_case(case, res: Result, kind: str = "?"):
    from opv.rigs import engine_rig as R

    sched = case["sched"]
    mask = case.get("mask") or [1] * len(sched)
    traj = case.get("traj")
    rig = R.EngineRig(case["method"], hooks=False, uod_factory=_uod_factory(case.get("long_n", 4), case.get("fail_at", 1)))
    viol: list[tuple[str | None, str]] = []
    hist: list = []
    try:
        e = rig.e
        hw = rig.hw
        safe_applied: list[int] = []               # ticks in which Engine._apply_safe_state ran
        orig_apply = e._apply_safe_state

        def _apply_safe_state_probe(*a, **kw):
            safe_applied.append(R.TICK[0])
            rig.cmdlog.append((R.TICK[0], "safe", "", "", 0))
            return orig_apply(*a, **kw)
        e._apply_safe_state = _apply_safe_state_probe  # type: ignore
        err_events: list[tuple] = []               # (tick, position in callback log, paused flag before the error)
        orig_ses = e.set_error_state

        def _set_error_state_probe(ex):
            err_events.append((R.TICK[0], len(rig.cmdlog), bool(e._runstate_paused)))
            return orig_ses(ex)
        e.set_error_state = _set_error_state_probe  # type: ignore

        user_iids: set[str] = set()
        S = {"prev": "Stopped", "run_seen": False, "pause_start": None, "nonsafe_seen": False, "judged_after": False,
             "wi": 0, "ci": 0, "pause_seq": 0, "pause_kind": None, "last_safe_seq": -1}
        exempt: set[str] = set()
        overridden: dict[str, tuple] = {}          # reg -> (command, iid) resident command that wrote it in this pause
        late_same_tick: dict[str, tuple] = {}      # reg -> method command started after Pause in the pause's first tick

        def is_user(name, iid):
            return iid in user_iids or name in USER_ONLY
        init_tick: dict[str, int] = {}             # instance id -> tick of its first callback
        first_seq: dict[str, int] = {}             # instance id -> position of its first callback in the log
        aborted = False

        def state():
            return str(e.tags["System State"].get_value())

        def V(mech, msg):
            viol.append((mech, msg))

        def after_tick():
            k = rig.k
            st = state()
            prev = S["prev"]
            writes = []
            while S["wi"] < len(hw.writes):
                t, reg, v = hw.writes[S["wi"]]
                S["wi"] += 1
                if t == k and reg in SAFE:
                    writes.append((reg, v))
            execs = []                                  # (name, iid) of exec callbacks in this tick
            tick_start_seq = S["ci"]
            last_safe_seq = None
            while S["ci"] < len(rig.cmdlog):
                t, phase, name, iid, it = rig.cmdlog[S["ci"]]
                if phase == "safe":
                    if t == k:
                        last_safe_seq = S["ci"]
                else:
                    first_seq.setdefault(iid, S["ci"])
                    init_tick.setdefault(iid, t)
                    if phase == "exec" and t == k:
                        execs.append((name, iid))
                S["ci"] += 1
            restart_in_progress = e.registry.get_running_command("Restart") is not None
            hist.append((k, st, {r: hw.mem.get(r, "<never written>") for r in SAFE}))
            if any(v != SAFE[reg] for reg, v in writes):
                S["nonsafe_seen"] = True
            # ---- pause bookkeeping. A pause begins when the tick ends Paused after a tick end that was not, and
            # also *inside* a run of Paused tick ends when the pause was undone and re-entered within one tick
            # (Unpause or the end of a timed Pause followed by an error in the same tick; Unpause + Pause)
            new_err = [ev for ev in err_events if ev[0] == k and not ev[2]]
            begin = None                                 # (kind, position in the callback log)
            if st == "Paused":
                if new_err and (last_safe_seq is None or new_err[-1][1] > last_safe_seq):
                    begin = ("error", new_err[-1][1])
                elif last_safe_seq is not None:
                    begin = ("command", last_safe_seq)
                elif prev != "Paused":
                    begin = ("error" if any(ev[0] == k for ev in err_events) else "unknown", tick_start_seq)
            if begin is not None:
                S["pause_start"] = k
                S["pause_kind"], S["pause_seq"] = begin
                exempt.clear()
                overridden.clear()
                late_same_tick.clear()
                if begin[0] == "error":
                    res.count("error_pauses")
                if prev == "Paused":
                    res.count("pause_reentered_within_one_tick")
            if last_safe_seq is not None:
                S["last_safe_seq"] = last_safe_seq
            if st != "Paused":
                S["pause_start"] = None
                exempt.clear()
                overridden.clear()
                late_same_tick.clear()
            if S["pause_start"] is not None:
                for name, iid in execs:
                    reg = TARGET.get(name)
                    if reg not in SAFE:
                        continue
                    if first_seq[iid] < S["pause_seq"]:
                        # a command that was already executing when the pause took effect ran an iteration inside it
                        # (already in the pause's first tick: Pause sits in front of the older list entries)
                        overridden.setdefault(reg, (name, iid))
                    elif is_user(name, iid):
                        if reg not in exempt:
                            res.count("user_exemptions")
                        exempt.add(reg)
                    else:
                        # method-issued and started after the pause took effect: only possible in the pause's first
                        # tick (the interpreter does not run while paused)
                        late_same_tick.setdefault(reg, (name, iid))
            if st != "Stopped":
                S["run_seen"] = True
            # ---- (a) engine start until the first run starts
            if st == "Stopped" and not S["run_seen"]:
                for reg, sv in SAFE.items():
                    res.count("prestart_checks")
                    if reg not in hw.mem:
                        V("C08.nothing_written_at_engine_start",
                          f"tick {k}: before the first run output {reg} has never been written to the hardware (safe "
                          f"value {sv!r} applied to the tag only)")
                    elif hw.mem[reg] != sv:
                        V("C08.non_safe_value_before_first_run", f"tick {k}: before the first run hardware {reg} = "
                          f"{hw.mem[reg]!r}, safe value {sv!r}")
            # ---- no run active during the whole tick: no other value may be written
            if st == "Stopped" and prev == "Stopped":
                res.count("inactive_tick_checks")
                for reg, v in writes:
                    if v != SAFE[reg]:
                        V("C08.non_safe_write_while_no_run_active", f"tick {k}: {reg} = {v!r} written while Stopped")
            # ---- (b) after every Stop
            if st == "Stopped" and S["run_seen"]:
                if restart_in_progress:
                    res.count("restart_stopped_phase_ticks")
                    if any(hw.mem.get(reg) != sv for reg, sv in SAFE.items()):
                        res.count("restart_stopped_phase_not_safe")
                else:
                    for reg, sv in SAFE.items():
                        res.count("post_stop_checks")
                        if S["nonsafe_seen"]:
                            res.count("post_stop_after_nonsafe")
                            S["judged_after"] = True
                        if hw.mem.get(reg, "<never written>") != sv:
                            V("C08.not_safe_after_stop", f"tick {k}: Stopped after a run but hardware {reg} = "
                              f"{hw.mem.get(reg, '<never written>')!r}, safe value {sv!r}")
            # ---- (c) throughout every pause
            if st == "Paused" and prev == "Paused" and S["pause_start"] is not None and k > S["pause_start"]:
                ps = S["pause_start"]
                for reg, sv in SAFE.items():
                    res.count("paused_tick_checks")
                    if S["nonsafe_seen"]:
                        res.count("paused_ticks_after_nonsafe")
                        S["judged_after"] = True
                    if reg in exempt:
                        res.count("paused_tick_exempt_user_command")
                        continue
                    bad = [v for r, v in writes if r == reg and v != sv]
                    if not bad and hw.mem.get(reg, "<never written>") == sv:
                        continue
                    val = bad[-1] if bad else hw.mem.get(reg, "<never written>")
                    resident = [(n, i) for (n, i) in execs if TARGET.get(n) == reg and first_seq[i] < S["pause_seq"]]
                    if resident:
                        res.count("resident_exec_in_pause")
                    error_pause = S["pause_kind"] == "error" and S["last_safe_seq"] < S["pause_seq"]
                    if error_pause:
                        mech = "C08.error_pause_skips_safe_state"
                        why = (f"pause entered at tick {ps} through Engine.set_error_state ({rig.errors[-1][1]}); "
                               "_apply_safe_state never ran in this pause")
                    elif reg in overridden:
                        name, iid = overridden[reg]
                        mech = "C08.resident_command_overrides_safe_state"
                        why = (f"command {name} (started tick {init_tick[iid]}, before the pause took effect in tick {ps}, "
                               f"{'user' if is_user(name, iid) else 'method'}-issued) executed "
                               f"{'an iteration in this paused tick' if resident else 'iterations earlier in this pause'} "
                               "and set the output again after Pause had applied the safe state")
                    elif reg in late_same_tick:
                        name, iid = late_same_tick[reg]
                        mech = "C08.command_scheduled_before_pause_executes_after_it"
                        why = (f"method-issued {name} was started in tick {init_tick[iid]}, the tick in which Pause executed, but "
                               "after Pause had applied the safe state (newer requests are put in front of the executing "
                               "list), and its value stays on the output for the whole pause")
                    elif reg not in hw.mem:
                        mech = "C08.nothing_written_at_engine_start"
                        why = "register never written"
                    else:
                        mech = None
                        why = ("no resident command iteration in this pause, not an error pause; commands initialised "
                               f"in the pause's first tick: {[i for i, t in init_tick.items() if t == ps]}")
                    V(mech, f"tick {k}: Paused since tick {ps} but hardware {reg} = {val!r} (safe value {sv!r}); {why}")
            S["prev"] = st

        steps = [(s, bool(m)) for s, m in zip(sched, mask)] + [("tick", True)] * SETTLE
        for sym, tick_after in steps:
            if sym.startswith("u:"):
                name = sym[2:]
                ok = rig.user(name)
                hist.append((rig.k, "user", name, ok))
                if ok and name in TARGET:
                    q = list(e._command_manager.cmd_queue.queue)
                    if q and q[-1].name == name and q[-1].source == "user":
                        user_iids.add(q[-1].instance_id)
                    res.count("user_uod_commands")
            elif sym.startswith("i:"):
                try:
                    e.inject_code(sym[2:])
                    hist.append((rig.k, "inject", sym[2:]))
                except Exception:
                    res.count("inject_raised")
                    aborted = True
                    break
            if tick_after or sym == "tick":
                if traj:
                    hw.inputs["FT01"] = traj[min(rig.k, len(traj) - 1)]
                rig.tick(catch=True)
                if rig.tick_exc:
                    res.count("tick_exceptions")
                    aborted = True
                    break
                after_tick()
        if aborted:
            res.count("cases_aborted")
        res.count("cases_" + kind)
        key = None
        if S["judged_after"] and not aborted:
            key = {"m": shape_hash(case["method"]), "s": sched, "k": case.get("mask")}
        res.case(key, sample={"method": case["method"], "sched": sched, "mask": case.get("mask"),
                              "end": hist[-1] if hist else None})
    finally:
        rig.close()
    seen = set()
    for mech, msg in viol:
        if mech in seen:
            continue
        seen.add(mech)
        res.violation(mech, msg + " | history " + str(hist[-12:]), case)


def run_shard(spec):
    res = Result()
    for kind, case in cases_for_shard(spec):
        check_case(case, res, kind)
    n, L = len(CORE_ALPHA), spec["L"]
    res.exhaustive_parts.append(f"each of {len(CORE_METHODS)} fixed output-driving methods x all {n}^{L} = {n ** L} "
                                f"schedules of {L} symbols over {CORE_ALPHA} (a tick after every symbol, {SETTLE} settle "
                                "ticks)")
    return res


def replay(case):
    res = Result()
    check_case(case, res, "replay")
    return res
