"""C37 - Active-user list tracks live connections.

Reference model vs. the real FromFrontend coroutines (user_subscribed_pubsub through the real pubsub notifier,
register_active_user, unregister_active_user, on_ws_disconnect through the endpoint's real disconnect handler list).
See DESIGN.md C37."""
from __future__ import annotations

import asyncio
import itertools
import random

from opv.core import Result

ID = "C37"
LEVEL = "exploration"
TECHNIQUE = "runtime monitoring: reference model of the active-user list compared after every event of a history"
RULE = ("alphabet of 17 events {subscribe(c,u) 3x2, register(u,unit) 2x2, unregister(u,unit) 2x2, disconnect(c) 3} for "
        "2 users x 3 connections x 2 units; EVERY history of length <= 4 (quick, 88 740) / <= 5 (thorough, 1 508 597) is "
        "enumerated; histories that use a connection id after its disconnect or let one connection subscribe for two "
        "users are not executed (counted as pruned: connection ids are per-websocket uuids, and the owner of such a "
        "connection is ambiguous); plus seeded random histories of length 6-14 over 3 users x 6 connections x 2 units. "
        "Each history runs on a fresh Aggregator + FrontendPublisher. distinct = the history; non-trivial = it closes "
        "a subscribed connection of a user who is registered on a unit at that moment")
ASSUMPTIONS = [
    "a 'live connection of user u' is a websocket whose pubsub subscription named topic dead_man_switch/<u> (what "
    "the frontend's PubSubService.subscribeDeadManSwitch sends) and that has not been closed",
    "a user who registers while having no live connection (HTTP register before/without the pubsub subscription) is "
    "not judged in either direction until a connection of theirs closes: the statement says 'still have', the "
    "implementation lists them; counted as registered_without_connection",
    "'registered and >= 1 live connection => listed' (the converse direction of the statement, DESIGN.md oracle) is "
    "asserted under its own mechanism key",
    "a disconnect of a connection that never subscribed must not raise (DESIGN.md); own mechanism key",
    "observed state: EngineData.active_users of the two registered engines (what GET .../active_users returns)",
    "the enumerated histories use a FrontendPublisher subclass whose __init__ skips the FastAPI route registration "
    "(same methods, same PubSubEndpoint); the random histories use the unmodified FrontendPublisher",
    "trusted base: the in-process use of PubSubEndpoint (notifier.subscribe, endpoint._on_disconnect gathered with a "
    "channel stub) instead of real websockets",
]
REQUIRED = {"histories_executed": 2000, "last_connection_closed_checks": 1000, "still_connected_checks": 500,
            "disconnects_of_unsubscribed_connection": 200, "events_executed": 8000}
EXHAUSTIVE_ALL = False

K_STALE = "C37.closed_connection_never_forgotten"
K_KEYERR = "C37.disconnect_of_unsubscribed_connection_raises"

USERS = ("U0", "U1")
CONNS = ("c0", "c1", "c2")
UNITS = (0, 1)
ALPHABET = ([("sub", c, u) for c in CONNS for u in USERS] + [("reg", u, e) for u in USERS for e in UNITS] +
            [("unreg", u, e) for u in USERS for e in UNITS] + [("disc", c) for c in CONNS])
assert len(ALPHABET) == 17


def plan(tier, seed):
    shards = 16 if tier == "quick" else 48
    L = 4 if tier == "quick" else 5
    nrand = 6000 if tier == "quick" else 120000
    return [{"seed": seed * 1000003 + i, "shard": i, "of": shards, "L": L, "nrand": nrand // shards}
            for i in range(shards)]


def prune_reason(hist):
    closed = set()
    owner = {}
    for ev in hist:
        if ev[0] == "sub":
            if ev[1] in closed:
                return "reuse_of_closed_connection"
            if owner.setdefault(ev[1], ev[2]) != ev[2]:
                return "connection_subscribes_for_two_users"
        elif ev[0] == "disc":
            if ev[1] in closed:
                return "reuse_of_closed_connection"
            closed.add(ev[1])
    return None


class Env:
    def __init__(self):
        from opv.rigs.frontend_rig import FrontendRig
        self.rig = FrontendRig()
        self.eids: list[str] = []
        self.eds: list = []
        self.n_hist = 0

    async def setup(self):
        for k in range(2):
            r = await self.rig.register("pc37", f"unit{k}")
            assert r.success
            await self.rig.connect(r.engine_id)
            self.eids.append(r.engine_id)
            self.eds.append(self.rig.agg._engine_data_map[r.engine_id])
        await self.rig.settle()

    def fresh(self, lean: bool):
        """fresh FrontendPublisher + Aggregator (hence a fresh connection map) on the two registered engines"""
        from openpectus.aggregator.aggregator import Aggregator
        from openpectus.aggregator.frontend_publisher import FrontendPublisher
        from opv.rigs.frontend_rig import lean_publisher
        pub = lean_publisher() if lean else FrontendPublisher()
        agg = Aggregator(self.rig.dispatcher, pub, self.rig.webpush)
        for eid, ed in zip(self.eids, self.eds):
            ed.active_users.clear()
            agg._engine_data_map[eid] = ed
        return pub, agg


async def run_history(env: Env, hist, res: Result, kind: str):
    from unittest.mock import Mock
    pub, agg = env.fresh(lean=(kind == "exhaustive"))
    ff = agg.from_frontend
    live: dict[str, str] = {}              # connection -> user (model)
    closed: list[str] = []
    reg: dict[tuple, str] = {}             # (user, unit) -> "connected" | "unconnected" (registered with no connection)
    gone_reason: dict[tuple, str] = {}
    tainted: set[tuple] = set()
    viol: dict[str | None, str] = {}
    nontrivial = False
    users = sorted({ev[2] if ev[0] == "sub" else ev[1] for ev in hist if ev[0] != "disc"})

    def nconn(u):
        return sum(1 for x in live.values() if x == u)

    async def cb(subscription, data):
        return None

    for idx, ev in enumerate(hist):
        raised = None
        closing = None
        try:
            if ev[0] == "sub":
                await pub.pubsub_endpoint.notifier.subscribe(ev[1], [f"dead_man_switch/{ev[2]}"], cb)
            elif ev[0] == "reg":
                await ff.register_active_user(env.eids[ev[2]], ev[1], "name of " + ev[1])
            elif ev[0] == "unreg":
                await ff.unregister_active_user(env.eids[ev[2]], ev[1])
            else:
                closing = ev[1]
                handlers = pub.pubsub_endpoint.endpoint._on_disconnect
                await asyncio.gather(*(h(Mock(id=ev[1])) for h in handlers))
        except Exception as ex:
            raised = ex
        res.count("events_executed")
        # ---- model step
        dropped = None
        if ev[0] == "sub":
            live[ev[1]] = ev[2]   # a user registered while unconnected stays unjudged until a connection of theirs closes
        elif ev[0] == "reg":
            reg[(ev[1], ev[2])] = "connected" if nconn(ev[1]) >= 1 else "unconnected"
            gone_reason.pop((ev[1], ev[2]), None)
            tainted.discard((ev[1], ev[2]))
            if nconn(ev[1]) == 0:
                res.count("registered_without_connection")
        elif ev[0] == "unreg":
            if reg.pop((ev[1], ev[2]), None) is not None:
                gone_reason[(ev[1], ev[2])] = "unregistered"
        else:
            u = live.pop(ev[1], None)
            if u is None:
                res.count("disconnects_of_unsubscribed_connection")
            else:
                if nconn(u) == 0:
                    dropped = u
                    for k in [k for k in reg if k[0] == u]:
                        del reg[k]
                        gone_reason[k] = "last_connection_closed"
                        nontrivial = True
                else:
                    res.count("disconnects_with_other_live_connection")
        # ---- judgement
        if raised is not None:
            if ev[0] == "disc" and isinstance(raised, KeyError) and ev[1] not in [h[1] for h in hist[:idx] if h[0] == "sub"]:
                viol.setdefault(K_KEYERR, f"event #{idx} {ev}: on_ws_disconnect raised KeyError({raised}) for a connection "
                                f"that never subscribed to a dead-man switch; history {hist}")
            else:
                viol.setdefault(None, f"event #{idx} {ev} raised {type(raised).__name__}: {raised}; history {hist}")
        for u in users:
            for e in UNITS:
                cell = (u, e)
                if cell in tainted:
                    continue
                listed = u in env.eds[e].active_users
                state = reg.get(cell)
                if state == "unconnected":
                    continue                                  # not judged in either direction
                if state == "connected":
                    res.count("still_connected_checks")
                    if not listed:
                        tainted.add(cell)
                        viol.setdefault("C37.registered_user_with_live_connection_not_listed",
                                        f"after event #{idx} {ev}: {u} is registered on unit {e} and has "
                                        f"{nconn(u)} live connection(s) but is not listed; history {hist}")
                    continue
                # not registered (any more): must not be listed
                why = gone_reason.get(cell, "never_registered")
                if why == "last_connection_closed" and dropped == u:
                    res.count("last_connection_closed_checks")
                if listed:
                    tainted.add(cell)
                    if why == "last_connection_closed":
                        cmap = getattr(ff, "dead_man_switch_user_ids", None)
                        earlier_closed = [c for c in closed if c != closing]
                        stale = [c for c in earlier_closed if isinstance(cmap, dict) and cmap.get(c) == u]
                        if stale:
                            # causal shape of the known defect: the connection map still counts a connection of this
                            # user that was closed by an EARLIER disconnect as live
                            mech = K_STALE
                        else:
                            mech = "C37.listed_after_last_connection_closed"
                        viol.setdefault(mech, f"after event #{idx} {ev}: the last live connection of {u} closed but {u} "
                                        f"is still listed on unit {e}; connections closed earlier that the aggregator "
                                        f"still maps to {u}: {stale}; history {hist}")
                    else:
                        viol.setdefault("C37.listed_without_registration",
                                        f"after event #{idx} {ev}: {u} is listed on unit {e} but is {why}; history {hist}")
        if closing is not None:
            closed.append(closing)
    env.n_hist += 1
    if env.n_hist % 25 == 0:
        for _ in range(2):
            await asyncio.sleep(0)   # let the fire-and-forget publish tasks of the last histories finish
    res.count("histories_executed")
    res.count("histories_" + kind)
    res.case(tuple(hist) if nontrivial else None, sample={"history": [list(e) for e in hist], "kind": kind,
                                                           "violations": sorted(str(k) for k in viol)})
    for mech, msg in viol.items():
        res.violation(mech, msg, {"history": [list(e) for e in hist]})


def gen_random(rnd: random.Random):
    users = ("U0", "U1", "U2")
    conns = [f"k{i}" for i in range(6)]
    owner: dict[str, str] = {}
    closed: set[str] = set()
    hist = []
    n = rnd.randint(6, 14)
    while len(hist) < n:
        r = rnd.random()
        if r < 0.3:
            c = rnd.choice(conns)
            if c in closed:
                continue
            u = owner.setdefault(c, rnd.choice(users))
            hist.append(("sub", c, u))
        elif r < 0.55:
            hist.append(("reg", rnd.choice(users), rnd.choice(UNITS)))
        elif r < 0.7:
            hist.append(("unreg", rnd.choice(users), rnd.choice(UNITS)))
        else:
            c = rnd.choice(conns)
            if c in closed:
                continue
            closed.add(c)
            hist.append(("disc", c))
    return tuple(hist)


def run_shard(spec):
    from opv.rigs.frontend_rig import run
    res = Result()
    env = Env()
    rnd = random.Random(spec["seed"])

    async def main():
        await env.setup()
        idx = 0
        for ln in range(1, spec["L"] + 1):
            for combo in itertools.product(range(17), repeat=ln):
                idx += 1
                if idx % spec["of"] != spec["shard"]:
                    continue
                hist = tuple(ALPHABET[i] for i in combo)
                why = prune_reason(hist)
                res.count("histories_enumerated")
                if why:
                    res.count("histories_pruned_" + why)
                    continue
                await run_history(env, hist, res, "exhaustive")
        for _ in range(spec["nrand"]):
            await run_history(env, gen_random(rnd), res, "random")
        await env.rig.drain_tasks()
    try:
        run(main)
    finally:
        env.rig.close()
    if spec["shard"] == 0:
        res.exhaustive_parts.append(f"all histories of length <= {spec['L']} over the 17-event alphabet "
                                    "(2 users x 3 connections x 2 units), minus the pruned non-canonical ones")
    return res


def replay(case):
    from opv.rigs.frontend_rig import run
    res = Result()
    env = Env()
    hist = tuple(tuple(e) for e in case["history"])

    async def main():
        await env.setup()
        await run_history(env, hist, res, "replay")
    try:
        run(main)
    finally:
        env.rig.close()
    return res
