"""C29 - Plot-log persistence is monotone, throttled and faithful.

Reference model of the four clauses of the statement evaluated on the PlotLogEntryValues rows that appear after
every TagsUpdatedMsg of a generated stream (see DESIGN.md C29). The oracle does not replicate the
implementation's persistence decision; it only judges what was recorded."""
from __future__ import annotations

import asyncio
import random

from opv.core import Result

ID = "C29"
LEVEL = "exploration"
TECHNIQUE = "runtime monitoring: per-message audit of new plot-log rows against the log of delivered tag reports"
RULE = ("seeded streams of 5-30 TagsUpdatedMsg for one active run (4 reading tags of float/int/str type incl. Mark "
        "with '' resets, 1 tag that is not a reading, optional pre-run tag messages, one tag appearing late, "
        "per-tag tick times at or slightly before the message time), perturbed by 0-3 swaps of nearby messages and "
        "0-2 duplicated messages, data-log interval in {0.5, 5, inf}; every reported value is unique so a recorded "
        "value identifies its report. distinct = hash of the delivered stream; non-trivial = stream is perturbed or "
        "has a late tag, and at least 2 recording events with at least 1 tag recorded twice")
ASSUMPTIONS = [
    "'strictly increasing timestamps' and 'at most once per data-log interval' are judged per tag (rows of one plot-log "
    "entry); several tags legitimately share the timestamp of one recording event",
    "two recordings of a tag whose timestamps differ by exactly the interval (within 1e-6) are ambiguous under 'at most "
    "once per interval' and are counted, not judged; a difference smaller than that is a violation",
    "'never older than one already recorded' is judged per tag on the report times of the recorded values",
    "'reported at or before the recorded time' compares the report's tick time with the recorded tick time, and "
    "additionally requires that the report had been delivered to the aggregator when the row appeared",
    "rows are read back from the scratch SQLite file after every message (row id order = insertion order)",
]
REQUIRED = {"rows_checked": 8000, "faithful_checks": 8000, "per_tag_spacing_checks": 3000, "never_older_checks": 3000,
            "streams_with_out_of_order_messages": 300, "streams_with_duplicated_messages": 150,
            "late_tag_rows": 100, "streams_interval_inf": 150, "recording_events": 3000,
            "out_of_order_reports_delivered": 300}

READINGS = ["T1", "T2", "T3", "Mark", "Never"]      # "Never" is a reading that is never reported
EPS = 1e-6


def plan(tier, seed):
    n = 3200 if tier == "quick" else 48000
    shards = 16 if tier == "quick" else 48
    return [{"seed": seed * 1000003 + i, "n": n // shards} for i in range(shards)]


def gen_case(rnd: random.Random):
    interval = rnd.choice([0.5, 5.0, "inf", 0.5, 5.0])
    n = rnd.randint(5, 30)
    late_from = rnd.randint(2, max(2, n - 2)) if rnd.random() < 0.6 else 0     # T3 silent before this message
    counter = [0]

    def val(tag):
        counter[0] += 1
        c = counter[0]
        if tag == "T1":
            return c + 0.25
        if tag == "T2":
            return c                      # int
        if tag == "Mark":
            return "" if rnd.random() < 0.4 else f"m{c}"
        return f"s{c}"                    # T3, X9: str

    t = 1000.0
    pre = []
    for _ in range(rnd.choice([0, 0, 1, 2])):
        t = round(t + rnd.choice([0.1, 0.4, 1.0]), 1)
        tags = rnd.sample(["T1", "T2", "Mark"], rnd.randint(1, 2))
        pre.append([[g, t, val(g)] for g in tags])
    started = t
    step_choices = rnd.choice([[0.1, 0.3, 0.7, 1.5], [0.1, 0.1, 0.2, 0.5, 6.0], [0.5, 0.5, 1.0, 5.0, 2.5]])
    msgs = []
    for i in range(n):
        t = round(t + rnd.choice(step_choices), 1)
        pool = ["T1", "T2", "Mark", "X9"] + (["T3"] if i >= late_from else [])
        tags = rnd.sample(pool, rnd.randint(1, min(3, len(pool))))
        m = []
        for g in tags:
            # a tag's tick time is the time of its change: at or a little before the message time
            tt = t if rnd.random() < 0.75 else round(t - rnd.choice([0.1, 0.2]), 1)
            m.append([g, tt, val(g)])
        msgs.append(m)
    order = list(range(n))
    swaps = 0
    if rnd.random() < 0.55:
        for _ in range(rnd.randint(1, 3)):
            a = rnd.randrange(n)
            b = min(n - 1, a + rnd.randint(1, 3))
            if a != b:
                order[a], order[b] = order[b], order[a]
                swaps += 1
    dups = 0
    if rnd.random() < 0.35:
        for _ in range(rnd.randint(1, 2)):
            src = rnd.randrange(len(order))
            order.insert(min(len(order), src + rnd.randint(1, 4)), order[src])
            dups += 1
    return {"interval": interval, "pre": pre, "started": started, "msgs": [msgs[i] for i in order],
            "order": order, "late_from": late_from}


def _same(a, b):
    return type(a) is type(b) and a == b


async def check_case(case, res: Result, rig):
    from opv.rigs.aggregator_rig import reg_msg, uod_info_msg, tags_msg, run_started_msg

    interval = float("inf") if case["interval"] == "inf" else float(case["interval"])
    rig.wipe()
    eid = await rig.register(reg_msg())
    await rig.connect(eid)
    await rig.send(uod_info_msg(eid, READINGS, interval))
    reports: dict[str, list] = {}          # tag -> [(report_time, value)] delivered so far

    def deliver_log(m):
        for g, tt, v in m:
            lst = reports.setdefault(g, [])
            if lst and tt < max(r[0] for r in lst):
                res.count("out_of_order_reports_delivered")
            lst.append((tt, v))

    for m in case["pre"]:
        deliver_log(m)
        await rig.send(tags_msg(eid, None, m))
    await rig.send(run_started_msg(eid, "R", case["started"]))
    if len(rig.plot_logs("R")) != 1:
        res.count("setup_failed")
        res.case(None)
        return
    last_id = 0
    last_t: dict[str, float] = {}          # per tag: last recorded timestamp
    last_rt: dict[str, float] = {}         # per tag: report time of the last recorded value
    n_rec: dict[str, int] = {}
    events = 0
    last_event_t = None
    viol = []
    first_seen_at_msg: dict[str, int] = {}
    for k, m in enumerate(case["msgs"]):
        deliver_log(m)
        for g, _, _ in m:
            first_seen_at_msg.setdefault(g, k)
        reply = await rig.send(tags_msg(eid, "R", m))
        if rig.handler_errors:
            # not part of the statement: counted and noted, the audit of the recorded rows goes on
            ed = rig.engine_data(eid)
            if ed is not None and len(ed.tags_info.map) == 0:
                res.count("handler_raised_while_no_tag_known_not_judged")
                note = ("observation outside C29: FromEngine._persist_tag_values raises ValueError (max of empty list) "
                        "when a run is active and the aggregator knows no tag yet, e.g. the first TagsUpdatedMsg holds "
                        "only a Mark reset ''; the engine gets a ProtocolErrorMessage reply")
            else:
                res.count("handler_raised_other_not_judged")
                note = f"observation outside C29: TagsUpdatedMsg handler raised: {rig.handler_errors[-1]}"
            if note not in res.notes and len(res.notes) < 5:
                res.notes.append(note)
            rig.handler_errors.clear()
        rows = rig.plot_values(after_id=last_id)
        if not rows:
            continue
        last_id = rows[-1]["id"]
        ev_times = sorted({r["tick_time"] for r in rows})
        events += 1
        res.count("recording_events")
        # run-level bookkeeping (counted, not judged - see ASSUMPTIONS)
        if len(ev_times) > 1:
            res.count("events_with_mixed_timestamps_not_judged")
        if last_event_t is not None and ev_times[0] - last_event_t < interval - EPS:
            res.count("run_level_spacing_below_interval_not_judged")
        last_event_t = ev_times[-1]
        for r in rows:
            g, t, v = r["name"], r["tick_time"], r["value"]
            res.count("rows_checked")
            if r["run_id"] != "R" or r["engine_id"] != eid:
                viol.append(("C29.row_in_foreign_plot_log", f"row {r} not in the plot log of run R"))
                continue
            if g == "T3" and case["late_from"] > 0 and n_rec.get(g, 0) == 0:
                res.count("late_tag_rows")
            # clause 4: faithful
            res.count("faithful_checks")
            same_val = [rt for rt, rv in reports.get(g, []) if _same(rv, v)]
            ok = [rt for rt in same_val if rt <= t + 1e-9]
            if not ok:
                if same_val:
                    viol.append(("C29.recorded_time_before_report_time",
                                 f"msg {k}: {g}={v!r} recorded at {t} but only reported at {same_val}"))
                else:
                    viol.append(("C29.recorded_value_never_reported",
                                 f"msg {k}: {g}={v!r} recorded at {t}; reports so far: {reports.get(g, [])[-6:]}"))
                continue
            rt = max(ok)
            if g in last_t:
                # clause 1: strictly increasing per tag
                res.count("per_tag_spacing_checks")
                d = t - last_t[g]
                if d <= 0:
                    viol.append(("C29.timestamp_not_increasing", f"msg {k}: {g} recorded at {t} after {last_t[g]}"))
                # clause 2: throttle per tag
                elif d < interval - EPS:
                    viol.append(("C29.recorded_twice_within_interval",
                                 f"msg {k}: {g} recorded at {last_t[g]} and at {t}, interval {interval}"))
                elif d <= interval + EPS:
                    res.count("spacing_equal_to_interval_not_judged")
                # clause 3: never older than one already recorded
                res.count("never_older_checks")
                if rt < last_rt[g] - 1e-9:
                    viol.append(("C29.older_value_recorded_after_newer",
                                 f"msg {k}: {g}={v!r} (reported at {rt}) recorded at {t} after a value reported at "
                                 f"{last_rt[g]} had been recorded"))
            last_t[g] = t
            last_rt[g] = rt
            n_rec[g] = n_rec.get(g, 0) + 1
    out_of_order = any(b < a for a, b in zip(case["order"], case["order"][1:]))
    duplicated = len(set(case["order"])) != len(case["order"])
    perturbed = out_of_order or duplicated
    if out_of_order:
        res.count("streams_with_out_of_order_messages")
    if duplicated:
        res.count("streams_with_duplicated_messages")
    if case["interval"] == "inf":
        res.count("streams_interval_inf")
    interesting = (perturbed or case["late_from"] > 0) and events >= 2 and any(c >= 2 for c in n_rec.values())
    res.case({"i": case["interval"], "p": case["pre"], "m": case["msgs"]} if interesting else None,
             sample={"interval": case["interval"], "delivery_order": case["order"], "recording_events": events,
                     "rows_per_tag": n_rec, "first_messages": case["msgs"][:3]})
    seen = set()
    for mech, msg in viol:
        if mech in seen:
            continue
        seen.add(mech)
        res.violation(mech, msg, case)


async def _shard(spec, res):
    from opv.rigs.aggregator_rig import AggregatorRig
    rnd = random.Random(spec["seed"])
    rig = AggregatorRig()
    try:
        for _ in range(spec["n"]):
            await check_case(gen_case(rnd), res, rig)
    finally:
        rig.close()


def run_shard(spec):
    res = Result()
    asyncio.run(_shard(spec, res))
    return res


def replay(case):
    from opv.rigs.aggregator_rig import AggregatorRig
    res = Result()

    async def go():
        rig = AggregatorRig()
        try:
            await check_case(case, res, rig)
        finally:
            rig.close()
    asyncio.run(go())
    return res
