"""C28 - A run survives engine reconnects and aggregator restarts.

Crash-point enumeration: disconnects, disconnect+re-register, graceful aggregator restarts (and hard crashes,
counted only) inserted at every position of base histories, executed on the real aggregator with a scratch SQLite
file; after every reconnect / tag batch / run-stopped the run continuity, the plot-log rows and the RecentRuns row
count are compared with the engine-side truth kept by the harness (see DESIGN.md C28).

Redelivery stratum: what an engine buffered while disconnected (plus the unacknowledged last message) is delivered in
permuted order after the re-registration, with and without an aggregator restart in between; after every message the
active run, the RecentRuns / PlotLogs rows and the attribution of tag rows are compared with the statement read over the
delivered stream (run_flush_history).

Calendar stratum: a seeded sample of the same base / fault histories in which calendar time (0, 1 h, 1 d, 29 d, 31 d,
400 d) passes before every fault, between a fault and the re-registration and between runs; the aggregator reads the
time from a harness-side calendar (AggregatorClock of the aggregator rig, installed for these histories only). Same
oracle: the passing of time changes no verdict."""
from __future__ import annotations

import asyncio
import itertools

from opv.core import Result

ID = "C28"
LEVEL = "fault_enumeration"
TECHNIQUE = ("runtime monitoring: continuity / row-attribution / stored-once assertions after every fault of an "
             "exhaustively enumerated fault placement")
RULE = ("base histories over {register, connect, uod-info, run-started, tag batch, run-stopped, resent run-stopped}: "
        "BA one engine one run (3 batches, stop sent twice); BB one engine, pre-run tags, two consecutive runs; BC two "
        "engines with interleaved runs. Faults {X engine disconnects (re-registers lazily before its next message), XR "
        "disconnect + immediate re-register/connect/uod-info, G graceful aggregator restart = Aggregator.shutdown() + "
        "AggregatorDispatcher.shutdown() + new Aggregator on the same database file, H hard crash = new Aggregator "
        "without shutdown (counted, never judged)} inserted at every position after the websocket connect: every "
        "single fault and every pair (thorough: every triple on BA/BB); the seed only varies the data-log interval and "
        "the tag-time spacing. distinct = the history; non-trivial = at least one judged fault hits while a run is "
        "active and at least one continuity check was made. Redelivery stratum (buffer flush after a reconnect): engine "
        "time lines F2 (run R1 with one tag batch, run R2 with two) and F3 (R1, R2, R3); every disconnect point d and "
        "reconnect point c > d of the time line; fault {X disconnect, XG disconnect then graceful restart; thorough also "
        "G restart while connected}; after the re-registration the messages the engine produced while disconnected "
        "(time line[d:c]), optionally preceded by a duplicate of the last message delivered before the disconnect (its "
        "reply was lost), are delivered in permuted order (all permutations of buffers with at most 24 [thorough 720 / "
        "F3 48; quick F3 6] permutations, else in-order + reversed + seeded random ones), then the rest of the time "
        "line live and in order; every history of this stratum is non-trivial. Calendar stratum: a seeded sample (quick "
        "170 BA + 220 BB + 120 BC, thorough 1600 + 2400 + 1200) of the fault histories above without H; a gap drawn "
        "uniformly from {0, 1 h, 1 d, 29 d, 31 d, 400 d} is inserted before every fault, after every fault (XR becomes "
        "X, gap, re-registration; after X / G the engine re-registers lazily before its next message, so the gap is the "
        "time the engine stayed away / the aggregator stayed down) and before every run-started; the gap advances the "
        "aggregator's calendar (every datetime.now / time.time read of openpectus.aggregator.{data.repository, "
        "aggregator, models, webpush_publisher}) and the engine's tick times")
ASSUMPTIONS = [
    "engine-side truth (which run the engine is in) is kept by the harness: a run starts when its run-started is "
    "delivered and ends when its first run-stopped is delivered; all messages are delivered while connected",
    "after a disconnect or restart the engine re-registers, connects and sends uod-info before its next message, as "
    "EngineRunner does (register POST, websocket connect, UodInfoMsg)",
    "tag batches are spaced by more than the data-log interval, so every batch of an active run is expected as rows with "
    "exactly its tick time in that run's plot log; only batches after at least one fault in that run are judged",
    "'stored once when it stops': exactly one RecentRuns row for the run right after its first run-stopped, after the "
    "resent run-stopped and at the end of the history",
    "a hard crash (no shutdown()) is outside the statement: everything after it in that history is executed, counted "
    "and not judged",
    "graceful restart calls shutdown() while engines are still connected; the order 'connections close first' is the "
    "fault pair (X, G)",
    "redelivery stratum: the reference is the statement read over the *delivered* stream of the engine: the active run "
    "is the run whose run-started was delivered last and that has not ended; a run has ended once its run-stopped was "
    "delivered while it was active or once another run's run-started was delivered while it was active (an engine is in "
    "one run at a time); run-started / run-stopped of an ended run are late duplicates and change nothing; disconnect, "
    "re-registration and graceful restart change nothing. Judged after every message: the aggregator's active run "
    "equals the reference's; the active run has no RecentRuns row (stored when it stops, not before); no run has more "
    "than one; a run whose run-stopped was delivered while active has exactly one; every opened run has exactly one "
    "plot log; a tag batch of the active run is recorded in that run's plot log only, and is present with its tick "
    "time if it is newer than every batch delivered before. The first divergence ends the judgement of a history",
    "calendar stratum: the aggregator process(es) and the engine live on one calendar that the harness advances "
    "between steps (no sleeping): the module-level names `datetime` / `time` of the aggregator modules that read the wall "
    "clock are rebound to shifted stand-ins while such a history runs; that the shift is in effect is itself checked "
    "(RecentEngines.last_update written by a disconnect / shutdown lies on the harness calendar: counter "
    "timed_last_update_on_harness_calendar). The oracle is the one of the fault enumeration, unchanged. An exception "
    "raised by Aggregator.shutdown() or by the disconnect handler is counted and the history continues as the real "
    "process would (the process exits / the connection is gone; the next start opens the same database). Whether an "
    "engine that stayed away for more than 30 days is still *listed* as a recent engine is not a C28 matter and not "
    "looked at",
    "redelivery stratum, counted and not judged: where a buffered tag batch lands that was displaced out of its own run "
    "(delivered before its run-started / after its run-stopped / while another run is active); presence of a batch "
    "older than one already delivered (throttle); everything after a run-stopped that overtook its own run-started",
]
REQUIRED = {"histories": 2000, "continuity_checks": 1500, "post_fault_batches_checked": 1500,
            "stored_once_checks": 4000, "graceful_restarts": 600, "disconnects": 2000,
            "faults_during_active_run": 1500, "hard_crash_histories_not_judged": 500,
            # redelivery stratum
            "flush_histories": 1500, "flush_histories_out_of_order": 1200, "flush_histories_with_aggregator_restart": 700,
            "flush_duplicates_delivered": 800, "flush_active_run_checks": 10000, "flush_stored_checks": 10000,
            "flush_continuity_checks": 1000, "flush_late_run_started_while_other_run_active_judged": 40,
            "flush_late_run_stopped_while_other_run_active_judged": 300, "flush_run_superseded_by_run_started": 300,
            "flush_live_batches_checked": 1500, "flush_end_checks": 1500,
            # calendar stratum
            "timed_histories": 450, "timed_gaps_over_30d": 400, "timed_last_update_on_harness_calendar": 500,
            "timed_continuity_checks": 400, "timed_faults_in_run_row_older_than_30d": 60,
            "timed_continuity_checks_after_fault_on_row_older_than_30d": 60,
            "timed_continuity_checks_row_older_than_30d_at_reregistration": 100,
            "timed_post_fault_batches_checked": 300, "timed_stored_once_checks": 600,
            "timed_stored_once_checks_run_longer_than_30d": 100}
EXHAUSTIVE_ALL = False     # the fault placements are enumerated completely; the redelivery stratum samples the
                           # permutations of large buffers (exhaustive_parts says what is complete)


def _eng(e, items, k0=0):
    out = []
    k = k0
    for it in items:
        if it[0] == "t":
            k += 1
            out.append(["tags", e, it[1], k])
        else:
            out.append([it[0], e] + list(it[1:]))
    return out


def base(name):
    pre = lambda e: [["reg", e], ["conn", e], ["uod", e]]
    if name == "BA":
        return pre("E1") + _eng("E1", [("start", "R1"), ("t", "R1"), ("t", "R1"), ("t", "R1"), ("stop", "R1"),
                                       ("stop", "R1")])
    if name == "BB":
        return pre("E1") + _eng("E1", [("t", None), ("start", "R1"), ("t", "R1"), ("stop", "R1"), ("start", "R2"),
                                       ("t", "R2"), ("t", "R2"), ("stop", "R2")])
    if name == "BC":
        a = _eng("E1", [("start", "R1"), ("t", "R1"), ("t", "R1"), ("stop", "R1")])
        b = _eng("E2", [("start", "Q1"), ("t", "Q1"), ("t", "Q1"), ("stop", "Q1")], k0=10)
        mid = []
        for x, y in zip(a, b):
            mid += [x, y]
        return pre("E1") + pre("E2") + mid
    raise ValueError(name)


def fault_kinds(name):
    if name == "BC":
        return [["X", "E1"], ["XR", "E1"], ["X", "E2"], ["XR", "E2"], ["G"], ["H"]]
    return [["X", "E1"], ["XR", "E1"], ["G"], ["H"]]


def positions(b):
    """insertion points p (fault goes before b[p]) at which every engine that has registered is also connected"""
    out = []
    for p in range(len(b) + 1):
        regs = [m[1] for m in b[:p] if m[0] == "reg"]
        conns = [m[1] for m in b[:p] if m[0] == "conn"]
        if regs and sorted(regs) == sorted(conns):
            out.append(p)
    return out


def enumerate_histories(name, nfaults, min_pos=0):
    b = base(name)
    pos = [p for p in positions(b) if p >= min_pos]
    kinds = fault_kinds(name)
    out = []
    for n in range(1, nfaults + 1):
        for ps in itertools.combinations_with_replacement(pos, n):
            for fs in itertools.product(kinds, repeat=n):
                h = []
                for p in range(len(b) + 1):
                    for q, f in zip(ps, fs):
                        if q == p:
                            h.append(list(f))
                    if p < len(b):
                        h.append(b[p])
                out.append(h)
    return out


# ------------------------------------------------------------------ calendar stratum (time passes between the steps)
# RecentEngines.last_update is written when an engine disconnects and when the aggregator shuts down, and the
# aggregator reads the wall clock when it looks recent engines up; the base histories all happen within milliseconds of
# aggregator time. This stratum takes the same base / fault histories and lets calendar time pass: before every fault,
# between a fault and the re-registration (XR becomes X, gap, R; after X / G the engine re-registers lazily before its
# next message, so the gap is the time the engine stayed away / the aggregator stayed down) and before every
# run-started (between runs). The aggregator's calendar is the harness-side AggregatorClock of the rig.
DAY = 86400.0
OLD_ROW_S = 30 * DAY
GAPS = [0.0, 3600.0, DAY, 29 * DAY, 31 * DAY, 400 * DAY]


def enumerate_timed_histories(name, nfaults, min_pos, n, tseed):
    """a seeded sample of n fault histories of the base (hard crashes left out: they are not judged) with a gap drawn
    from GAPS at every slot; the same list for every part of one base"""
    import random
    rnd = random.Random(tseed)
    hs = [h for h in enumerate_histories(name, nfaults, min_pos) if not any(m[0] == "H" for m in h)]
    pick = sorted(rnd.sample(range(len(hs)), min(n, len(hs))))
    out = []
    for idx in pick:
        t = []
        for m in hs[idx]:
            if m[0] == "XR":
                t += [["gap", rnd.choice(GAPS)], ["X", m[1]], ["gap", rnd.choice(GAPS)], ["R", m[1]]]
            elif m[0] in ("X", "G"):
                t += [["gap", rnd.choice(GAPS)], list(m), ["gap", rnd.choice(GAPS)]]
            elif m[0] == "start":
                t += [["gap", rnd.choice(GAPS)], list(m)]
            else:
                t.append(list(m))
        out.append([m for m in t if not (m[0] == "gap" and m[1] == 0.0)])
    return out


def plan(tier, seed):
    specs = []
    if tier == "quick":
        layout = (("BA", 2, 4, 0), ("BB", 2, 6, 0), ("BC", 2, 6, 6))   # BC quick: faults only after both engines' uod-info
    else:
        layout = (("BA", 3, 16, 0), ("BB", 3, 24, 0), ("BC", 2, 8, 0))
    i = 0
    for name, nf, parts, min_pos in layout:
        for part in range(parts):
            specs.append({"base": name, "nfaults": nf, "part": part, "of": parts, "min_pos": min_pos,
                          "seed": seed * 1000003 + i})
            i += 1
    # redelivery stratum: the permutation sample (fseed) is the same for all parts of one base
    if tier == "quick":
        flayout = (("F2", 24, ["X", "XG"], 8), ("F3", 6, ["X", "XG"], 8))
    else:
        flayout = (("F2", 720, ["X", "XG", "G"], 32), ("F3", 48, ["X", "XG", "G"], 24))
    for name, max_perms, faults, parts in flayout:
        for part in range(parts):
            specs.append({"mode": "flush", "base": name, "max_perms": max_perms, "faults": faults, "part": part,
                          "of": parts, "seed": seed * 1000003 + i, "fseed": seed * 1000003 + 500 + len(name)})
            i += 1
    # calendar stratum: a sample of the fault histories with gaps between the steps
    if tier == "quick":
        tlayout = (("BA", 2, 0, 170, 3), ("BB", 2, 0, 220, 4), ("BC", 2, 6, 120, 3))
    else:
        tlayout = (("BA", 3, 0, 1600, 12), ("BB", 3, 0, 2400, 16), ("BC", 2, 0, 1200, 8))
    for name, nf, min_pos, n, parts in tlayout:
        for part in range(parts):
            specs.append({"mode": "timed", "base": name, "nfaults": nf, "min_pos": min_pos, "n": n, "part": part,
                          "of": parts, "seed": seed * 1000003 + i, "tseed": seed * 1000003 + 700 + len(specs) - part})
            i += 1
    return specs


async def run_history(hist, base_name, params, res: Result, rig):
    """params["timed"]: the history contains ["gap", seconds] steps; the aggregator's calendar (AggregatorClock) is
    installed for the duration of this history only"""
    if not params.get("timed"):
        return await _run_history(hist, base_name, params, res, rig, None)
    from opv.rigs.aggregator_rig import AggregatorClock
    clock = AggregatorClock()
    try:
        if clock.install() == 0:
            res.count("timed_clock_not_installed_not_judged")
            res.notes.append("C28: no wall-clock read of the aggregator modules could be rebound; calendar stratum void")
            return
        await _run_history(hist, base_name, params, res, rig, clock)
    finally:
        clock.uninstall()


async def _run_history(hist, base_name, params, res: Result, rig, clock):
    from opv.rigs.aggregator_rig import reg_msg, uod_info_msg, tags_msg, run_started_msg, run_stopped_msg

    interval, spacing = params["interval"], params["spacing"]
    timed = clock is not None
    now_s = 0.0                                  # calendar time passed in this history (harness side)
    row_at: dict[str, float] = {}                # engine -> calendar time its RecentEngines row was last written
    old_row_fault: dict[str, bool] = {}          # engine -> a fault hit its run while its row was older than 30 d
    run_began_s: dict[str, float] = {}
    rig.wipe()
    eids: dict[str, str] = {}
    connected: dict[str, bool] = {}
    eng_run: dict[str, str | None] = {}          # engine-side truth
    run_started_at: dict[str, object] = {}
    faults_in_run: dict[str, int] = {}
    stopped: dict[str, int] = {}                 # run -> deliveries of run-stopped
    judged = True
    viol: list[tuple] = []
    last_id = 0
    stats = {"cont": 0, "fault_in_run": 0}
    last_fault: dict[str, str] = {}

    async def reconnect(e, why):
        eid = await rig.register(reg_msg(e, "uod"))
        if eid is None:
            viol.append(("C28.re_registration_refused", f"engine {e} could not re-register after {why}"))
            return
        eids[e] = eid
        await rig.connect(eid)
        await rig.send(uod_info_msg(eid, ["T1", "T2"], interval))
        connected[e] = True
        r = eng_run.get(e)
        ed = rig.engine_data(eid)
        got = ed.run_data.run_id if ed is not None and ed.has_run() else None
        if not judged:
            if r is not None and got != r:
                res.count("run_lost_after_hard_crash_not_judged")
            return
        if r is None:
            if got is not None:
                res.count("run_restored_although_engine_has_none_not_judged")
            return
        res.count("continuity_checks")
        stats["cont"] += 1
        if timed:
            res.count("timed_continuity_checks")
            if old_row_fault.pop(e, False):
                res.count("timed_continuity_checks_after_fault_on_row_older_than_30d")
            if e in row_at and now_s - row_at[e] > OLD_ROW_S:
                res.count("timed_continuity_checks_row_older_than_30d_at_reregistration")
        if got == r:
            if ed.run_data.run_started != run_started_at.get(r):
                res.count("run_started_time_changed_not_judged")
            return
        rec = rig.recent_engine(eid)
        if got is None:
            if rec is not None and rec["run_id"] == r:
                mech = "C28.run_not_restored_from_recent_engine"
            elif why.startswith("G"):
                mech = "C28.active_run_not_persisted_on_shutdown"
            else:
                mech = "C28.active_run_not_persisted_on_disconnect"
        else:
            mech = "C28.restored_run_id_differs"
        viol.append((mech, f"engine {e} is in run {r}; after {why} + re-registration the aggregator has run {got} "
                           f"(RecentEngines row: {'missing' if rec is None else 'run_id=' + str(rec['run_id'])})"))

    def fault_hits(e):
        """calendar stratum: a fault that makes the aggregator rewrite engine e's RecentEngines row"""
        if not timed:
            return
        if eng_run.get(e) is not None and judged:
            if e in row_at and now_s - row_at[e] > OLD_ROW_S:
                res.count("timed_faults_in_run_row_older_than_30d")
                old_row_fault[e] = True
            elif e not in row_at and now_s > OLD_ROW_S:
                res.count("timed_faults_in_run_connected_over_30d_no_row_yet")

    def row_written(e, raised):
        if not timed:
            return
        row_at[e] = now_s
        if raised:
            return
        lu = rig.recent_engine_last_update(eids[e])
        if lu is not None and abs((lu - clock.now()).total_seconds()) < 300:
            res.count("timed_last_update_on_harness_calendar")
        else:
            res.count("timed_last_update_off_harness_calendar_not_judged")

    for i, m in enumerate(hist):
        kind = m[0]
        if kind == "gap":
            if timed:
                clock.advance(m[1])
                now_s += m[1]
                res.count("timed_gaps")
                if m[1] > OLD_ROW_S:
                    res.count("timed_gaps_over_30d")
            continue
        if kind == "R":                           # re-registration now (XR = X, gap, R in the calendar stratum)
            if m[1] in eids and not connected.get(m[1]):
                await reconnect(m[1], last_fault.get(m[1], "X"))
            continue
        if kind in ("X", "XR"):
            e = m[1]
            if e not in eids:
                res.count("fault_on_engine_not_yet_registered_skipped")
                continue
            if connected.get(e):
                res.count("disconnects")
                if timed:
                    fault_hits(e)
                    raised = False
                    try:
                        await rig.disconnect(eids[e])
                    except Exception:             # the websocket handler dies; the connection is gone all the same
                        raised = True
                        res.count("timed_disconnect_handler_raised_history_continued")
                        rig._channels.pop(eids[e], None)
                    row_written(e, raised)
                else:
                    await rig.disconnect(eids[e])
                connected[e] = False
                last_fault[e] = "X"
                if eng_run.get(e) is not None and judged:
                    faults_in_run[eng_run[e]] = faults_in_run.get(eng_run[e], 0) + 1
                    stats["fault_in_run"] += 1
                    res.count("faults_during_active_run")
            else:
                res.count("disconnect_of_unconnected_engine_skipped")
            if kind == "XR" and not connected.get(e):
                await reconnect(e, last_fault.get(e, "X"))
            continue
        if kind in ("G", "H"):
            if kind == "G":
                res.count("graceful_restarts")
            else:
                res.count("hard_crashes")
                judged = False
            for e in eids:
                if judged and eng_run.get(e) is not None:
                    faults_in_run[eng_run[e]] = faults_in_run.get(eng_run[e], 0) + 1
                    stats["fault_in_run"] += 1
                    res.count("faults_during_active_run")
                if connected.get(e):
                    last_fault[e] = kind
                else:
                    last_fault[e] = last_fault.get(e, "X") + "+" + kind
            if timed and kind == "G":
                # as the real process: an exception out of Aggregator.shutdown() is logged, the process exits, the next
                # start opens the same database
                was = [e for e in eids if connected.get(e)]
                for e in was:
                    fault_hits(e)
                raised = False
                try:
                    rig.agg.shutdown()
                except Exception:
                    raised = True
                    res.count("timed_shutdown_raised_history_continued")
                for e in was:
                    row_written(e, raised)
                await rig.disp.shutdown()
                await rig.restart(graceful=False)
            else:
                await rig.restart(graceful=(kind == "G"))
            for e in eids:
                connected[e] = False
            continue
        e = m[1]
        if kind == "reg":
            eids[e] = await rig.register(reg_msg(e, "uod"))
            continue
        if kind == "conn":
            await rig.connect(eids[e])
            connected[e] = True
            continue
        if not connected.get(e):
            await reconnect(e, last_fault.get(e, "?"))
        eid = eids[e]
        if kind == "uod":
            await rig.send(uod_info_msg(eid, ["T1", "T2"], interval))
        elif kind == "start":
            r = m[2]
            await rig.send(run_started_msg(eid, r, 1000.0 + i * spacing + now_s))
            eng_run[e] = r
            run_began_s[r] = now_s
            ed = rig.engine_data(eid)
            run_started_at[r] = ed.run_data.run_started if ed is not None and ed.has_run() else None
        elif kind == "tags":
            r, k = m[2], m[3]
            t = 1000.0 + i * spacing + now_s       # the engine's clock follows the calendar too
            v1, v2 = float(1000 * k + i) + 0.5, 1000 * k + i
            await rig.send(tags_msg(eid, r, [("T1", t, v1), ("T2", t, v2)]))
            rows = rig.plot_values(after_id=last_id)
            if rows:
                last_id = rows[-1]["id"]
            if r is not None and eng_run.get(e) == r and judged:
                mine = [x for x in rows if (x["name"], x["value"]) in (("T1", v1), ("T2", v2))]
                good = [x for x in mine if x["run_id"] == r and x["engine_id"] == eid and x["tick_time"] == t]
                if faults_in_run.get(r, 0) >= 1:
                    res.count("post_fault_batches_checked")
                    if timed:
                        res.count("timed_post_fault_batches_checked")
                    if any(x["run_id"] != r or x["engine_id"] != eid for x in mine):
                        viol.append(("C28.tag_data_recorded_in_other_plot_log",
                                     f"batch #{i} of run {r} engine {e} recorded as {mine}"))
                    elif len(good) < 2:
                        ed = rig.engine_data(eid)
                        has = ed is not None and ed.has_run() and ed.run_data.run_id == r
                        mech = ("C28.tag_data_after_reconnect_not_recorded_in_run" if has
                                else "C28.tag_data_dropped_because_run_was_lost")
                        viol.append((mech, f"batch #{i} (T1={v1}, T2={v2}, t={t}) of run {r} sent after "
                                           f"{faults_in_run[r]} fault(s): rows found {mine}; aggregator has the run: {has}"))
                else:
                    res.count("pre_fault_batches_seen")
                    if len(good) < 2:
                        res.count("pre_fault_batch_missing_not_judged")
        elif kind == "stop":
            r = m[2]
            await rig.send(run_stopped_msg(eid, r))
            stopped[r] = stopped.get(r, 0) + 1
            if eng_run.get(e) == r:
                eng_run[e] = None
            if judged:
                res.count("stored_once_checks")
                if timed:
                    res.count("timed_stored_once_checks")
                    if stopped[r] == 1 and now_s - run_began_s.get(r, now_s) > OLD_ROW_S:
                        res.count("timed_stored_once_checks_run_longer_than_30d")
                n = len(rig.recent_runs(r))
                if n != 1:
                    mech = "C28.run_not_stored_when_stopped" if n == 0 else "C28.run_stored_more_than_once"
                    if not any(v[0] == mech for v in viol):
                        viol.append((mech, f"{n} RecentRuns rows for run {r} after run-stopped delivery #{stopped[r]} "
                                           f"(message #{i}); faults during the run: {faults_in_run.get(r, 0)}"))
        if rig.handler_errors:
            res.count("handler_raised_not_judged")
            rig.handler_errors.clear()
    # ---- end of history
    if judged:
        pl, rr = rig.run_row_counts()
        for r in stopped:
            res.count("stored_once_checks")
            if rr.get(r, 0) != 1:
                mech = "C28.run_not_stored_when_stopped" if rr.get(r, 0) == 0 else "C28.run_stored_more_than_once"
                if not any(v[0] == mech for v in viol):
                    viol.append((mech, f"{rr.get(r, 0)} RecentRuns rows for run {r} at the end of the history"))
            if pl.get(r, 0) != 1:
                viol.append(("C28.run_has_not_exactly_one_plot_log", f"{pl.get(r, 0)} PlotLogs rows for run {r} at the end"))
    else:
        res.count("hard_crash_histories_not_judged")
    res.count("histories")
    if timed:
        res.count("timed_histories")
    nontrivial = stats["fault_in_run"] >= 1 and stats["cont"] >= 1
    res.case({"h": hist, "p": params} if nontrivial else None,
             sample={"base": base_name, "history": hist, "params": params, "continuity_checks": stats["cont"],
                     "rows": rig.counts()})
    for mech, msg in viol:
        res.violation(mech, msg, {"base": base_name, "history": hist, "params": params})


# ------------------------------------------------------------------ redelivery stratum (buffer flush after a reconnect)
# An engine that loses its connection keeps working: what it produces while disconnected is buffered (EngineRunner.
# _buffer_message), a message whose reply was lost stays in the buffer although the aggregator handled it, and after
# the reconnect the buffer is posted with asyncio.gather (EngineRunner._send_buffered_batch), i.e. in no particular
# order. The stratum takes an engine time line, a disconnect point d, a reconnect point c, optionally an aggregator
# restart in between, and delivers time line[d:c] (+ a duplicate of the last message delivered before the
# disconnect) in permuted order after the re-registration; the rest of the time line follows live, in order.
def flush_timeline(name):
    if name == "F2":
        return [["start", "R1"], ["t", "R1"], ["stop", "R1"], ["start", "R2"], ["t", "R2"], ["t", "R2"], ["stop", "R2"]]
    if name == "F3":
        return [["start", "R1"], ["t", "R1"], ["stop", "R1"], ["start", "R2"], ["t", "R2"], ["stop", "R2"],
                ["start", "R3"], ["t", "R3"], ["t", "R3"], ["stop", "R3"]]
    raise ValueError(name)


FLUSH_FAULTS = {"X": [["X", "E1"]], "XG": [["X", "E1"], ["G"]], "G": [["G"]]}


def _flush_msgs(name):
    """time line -> messages [kind, engine, run, time-line index (1-based; fixes tick time and values), origin]"""
    out = []
    for j, it in enumerate(flush_timeline(name)):
        out.append([{"t": "tags"}.get(it[0], it[0]), "E1", it[1], j + 1])
    return out


def enumerate_flush_histories(name, max_perms, fault_names, fseed):
    """every (d, c, duplicate?, fault) x permutations of the buffer: all of them if there are at most max_perms,
    else the in-order flush, the reversed flush and seeded distinct random permutations up to max_perms"""
    import math
    import random
    tl = _flush_msgs(name)
    n = len(tl)
    rnd = random.Random(fseed)
    out = []
    for d in range(1, n):
        for c in range(d + 1, n + 1):
            for dup in (0, 1):
                buf = ([tl[d - 1] + ["dup"]] if dup else []) + [m + ["buf"] for m in tl[d:c]]
                if math.factorial(len(buf)) <= max_perms:
                    perms = list(itertools.permutations(range(len(buf))))
                else:
                    ident = tuple(range(len(buf)))
                    perms = [ident, ident[::-1]]
                    seen = set(perms)
                    while len(perms) < max_perms:
                        q = list(ident)
                        rnd.shuffle(q)
                        if tuple(q) not in seen:
                            seen.add(tuple(q))
                            perms.append(tuple(q))
                for fn in fault_names:
                    for perm in perms:
                        h = [["reg", "E1"], ["conn", "E1"], ["uod", "E1"]]
                        h += [m + ["live"] for m in tl[:d]]
                        h += [list(f) for f in FLUSH_FAULTS[fn]]
                        h.append(["rec", "E1"])
                        h += [list(buf[q]) for q in perm]
                        h += [m + ["live"] for m in tl[c:]]
                        out.append(h)
    return out


async def run_flush_history(hist, base_name, params, res: Result, rig):
    """Reference reading of the statement over the *delivered* stream of one engine (the aggregator cannot know more):
    active = the run whose run-started was delivered last and that has not ended; a run has ended once its run-stopped
    was delivered while it was active, or once the run-started of another run was delivered while it was active (an
    engine is in one run at a time); a run-started / run-stopped of an ended run is a late duplicate and changes
    nothing; disconnect, re-registration and aggregator restart change nothing."""
    from opv.rigs.aggregator_rig import reg_msg, uod_info_msg, tags_msg, run_started_msg, run_stopped_msg

    interval, spacing = params["interval"], params["spacing"]
    rig.wipe()
    e = "E1"
    eid = None
    connected = False
    active = None                 # model
    ended: set[str] = set()       # model: ended runs
    ended_by_stop: set[str] = set()
    opened: list[str] = []
    judged = True
    viol: list[tuple] = []
    last_id = 0
    max_tick = None
    restarted = False
    bufseq = [(0 if m[-1] == "dup" else 1, m[3]) for m in hist if m[-1] in ("buf", "dup")]
    out_of_order = bufseq != sorted(bufseq)       # engine order: the unacknowledged message first, then as produced
    with_dup = any(x[0] == 0 for x in bufseq)

    def agg_active():
        ed = rig.engine_data(eid) if eid is not None else None
        if ed is None:
            return "?"
        return ed.run_data.run_id if ed.has_run() else None

    def flag(mech, msg):
        nonlocal judged
        viol.append((mech, msg))
        judged = False            # one cause per history: what follows is a consequence of the first divergence

    def check_state(i, m, cause):
        """after message #i: active run, stored-when-stopped, one plot log"""
        got = agg_active()
        if got != "?":
            res.count("flush_active_run_checks")
            if got != active:
                sym = ("C28.active_run_closed_although_not_stopped" if got is None else
                       "C28.ended_run_reopened" if got in ended else "C28.active_run_differs")
                return flag(cause or sym, f"after message #{i} {m}: the engine's run by the delivered notifications is "
                                          f"{active} (ended runs: {sorted(ended)}), the aggregator has {got}")
        pl, rr = rig.run_row_counts()
        res.count("flush_stored_checks")
        for r in opened:
            n = rr.get(r, 0)
            if r == active and n > 0:
                return flag(cause or "C28.run_stored_before_it_stopped",
                            f"after message #{i} {m}: run {r} is still running and already has {n} RecentRuns row(s)")
            if n > 1:
                return flag(cause or "C28.run_stored_more_than_once",
                            f"after message #{i} {m}: {n} RecentRuns rows for run {r}")
            if r in ended_by_stop and n == 0:
                return flag(cause or "C28.run_not_stored_when_stopped",
                            f"after message #{i} {m}: no RecentRuns row for run {r} whose run-stopped was delivered "
                            f"while it was the active run")
            if pl.get(r, 0) != 1:
                return flag(cause or "C28.run_has_not_exactly_one_plot_log",
                            f"after message #{i} {m}: {pl.get(r, 0)} PlotLogs rows for run {r}")

    for i, m in enumerate(hist):
        kind = m[0]
        if kind == "reg":
            eid = await rig.register(reg_msg(e, "uod"))
            continue
        if kind == "conn":
            await rig.connect(eid)
            connected = True
            continue
        if kind == "uod":
            await rig.send(uod_info_msg(eid, ["T1", "T2"], interval))
            continue
        if kind == "X":
            res.count("flush_disconnects")
            await rig.disconnect(eid)
            connected = False
            if active is not None:
                res.count("flush_faults_during_active_run")
            continue
        if kind == "G":
            res.count("flush_graceful_restarts")
            restarted = True
            if connected and active is not None:
                res.count("flush_faults_during_active_run")
            connected = False
            await rig.restart(graceful=True)
            continue
        if kind == "rec":
            eid2 = await rig.register(reg_msg(e, "uod"))
            if eid2 is None:
                flag("C28.re_registration_refused", f"engine {e} could not re-register (message #{i})")
                break
            eid = eid2
            await rig.connect(eid)
            await rig.send(uod_info_msg(eid, ["T1", "T2"], interval))
            connected = True
            if judged:
                if active is not None:
                    res.count("flush_continuity_checks")
                check_state(i, m, None if active is None or agg_active() == active else
                            "C28.active_run_not_continued_after_reconnect")
            continue
        r, j, origin = m[2], m[3], m[4]
        t = 1000.0 + j * spacing
        if origin != "live":
            res.count("flush_redelivered_messages")
            if origin == "dup":
                res.count("flush_duplicates_delivered")
        if kind == "start":
            cause = None
            if r in ended:
                # late duplicate of the run-started of an ended run: nothing may change
                cause = "C28.run_started_of_ended_run_changes_active_run"
                if judged:
                    res.count("flush_late_run_started_of_ended_run_judged")
                    if active is not None:
                        res.count("flush_late_run_started_while_other_run_active_judged")
            elif active == r:
                if judged:
                    res.count("flush_duplicate_run_started_of_active_run_judged")
            else:
                if active is not None:
                    ended.add(active)
                    if judged:
                        res.count("flush_run_superseded_by_run_started")
                active = r
                opened.append(r)
            await rig.send(run_started_msg(eid, r, t))
            if judged:
                check_state(i, m, cause)
        elif kind == "stop":
            cause = None
            if active == r:
                active = None
                ended.add(r)
                ended_by_stop.add(r)
            elif r in ended:
                cause = "C28.run_stopped_of_ended_run_closes_active_run" if active is not None else None
                if judged:
                    res.count("flush_late_run_stopped_of_ended_run_judged")
                    if active is not None:
                        res.count("flush_late_run_stopped_while_other_run_active_judged")
            else:
                # the run-stopped overtook its own run-started: the statement does not say what the aggregator owes
                if judged:
                    res.count("flush_run_stopped_overtook_run_started_rest_not_judged")
                judged = False
            await rig.send(run_stopped_msg(eid, r))
            if judged:
                check_state(i, m, cause)
        elif kind == "tags":
            v1, v2 = float(1000 * j) + 0.5, 1000 * j
            await rig.send(tags_msg(eid, r, [("T1", t, v1), ("T2", t, v2)]))
            rows = rig.plot_values(after_id=last_id)
            if rows:
                last_id = rows[-1]["id"]
            fresh = max_tick is None or t > max_tick
            max_tick = t if max_tick is None else max(max_tick, t)
            if judged:
                mine = [x for x in rows if (x["name"], x["value"]) in (("T1", v1), ("T2", v2))]
                if active != r:
                    # a buffered batch displaced out of its own run (before its run-started / after its run-stopped)
                    res.count("flush_displaced_batches_not_judged")
                    if mine:
                        res.count("flush_displaced_batch_recorded_in_active_run_not_judged")
                else:
                    res.count("flush_batches_checked")
                    if origin == "live":
                        res.count("flush_live_batches_checked")
                    good = [x for x in mine if x["run_id"] == r and x["engine_id"] == eid and x["tick_time"] == t]
                    if any(x["run_id"] != r or x["engine_id"] != eid for x in mine):
                        flag("C28.tag_data_recorded_in_other_plot_log",
                             f"batch #{i} {m} of the active run {r} recorded as {mine}")
                    elif fresh and len(good) < 2:
                        flag("C28.tag_data_after_reconnect_not_recorded_in_run",
                             f"batch #{i} {m} (T1={v1}, T2={v2}, t={t}; newer than everything delivered before) of the "
                             f"active run {r}: rows found {mine}; aggregator's active run: {agg_active()}")
                    elif not fresh:
                        res.count("flush_stale_batch_presence_not_judged")
                if judged:
                    check_state(i, m, None)
        if rig.handler_errors:
            res.count("handler_raised_not_judged")
            rig.handler_errors.clear()
    # ---- end of the history: every run that was opened and has ended is stored exactly once, one plot log each
    if judged:
        pl, rr = rig.run_row_counts()
        for r in opened:
            if r in ended:
                res.count("flush_end_checks")
                if rr.get(r, 0) != 1:
                    flag("C28.run_not_stored_when_stopped" if rr.get(r, 0) == 0 else "C28.run_stored_more_than_once",
                         f"{rr.get(r, 0)} RecentRuns rows for run {r} at the end of the history")
                    break
                if pl.get(r, 0) != 1:
                    flag("C28.run_has_not_exactly_one_plot_log", f"{pl.get(r, 0)} PlotLogs rows for run {r} at the end")
                    break
    res.count("flush_histories")
    if out_of_order:
        res.count("flush_histories_out_of_order")
    if with_dup:
        res.count("flush_histories_with_duplicate")
    if restarted:
        res.count("flush_histories_with_aggregator_restart")
    res.case({"h": hist, "p": params},
             sample={"base": base_name, "history": hist, "params": params, "rows": rig.counts()})
    for mech, msg in viol:
        res.violation(mech, msg, {"base": base_name, "history": hist, "params": params})


async def _shard(spec, res):
    import random
    from opv.rigs.aggregator_rig import AggregatorRig
    rnd = random.Random(spec["seed"])
    params = {"interval": rnd.choice([0.5, 0.2, 1.0]), "spacing": rnd.choice([1.5, 2.0, 3.0])}
    rig = AggregatorRig()
    try:
        if spec.get("mode") == "flush":
            hs = enumerate_flush_histories(spec["base"], spec["max_perms"], spec["faults"], spec["fseed"])
            for h in hs[spec["part"]::spec["of"]]:
                await run_flush_history(h, spec["base"], params, res, rig)
            if spec["part"] == 0:
                res.exhaustive_parts.append(
                    f"{spec['base']} redelivery: every disconnect point d, reconnect point c > d, duplicate yes/no, fault "
                    f"in {spec['faults']}; all permutations of every buffer with at most {spec['max_perms']} "
                    f"permutations, {spec['max_perms']} permutations (in order, reversed, seeded random) of larger buffers")
            return
        if spec.get("mode") == "timed":
            hs = enumerate_timed_histories(spec["base"], spec["nfaults"], spec["min_pos"], spec["n"], spec["tseed"])
            for h in hs[spec["part"]::spec["of"]]:
                await run_history(h, spec["base"], dict(params, timed=True), res, rig)
            return
        hs = enumerate_histories(spec["base"], spec["nfaults"], spec.get("min_pos", 0))
        for h in hs[spec["part"]::spec["of"]]:
            await run_history(h, spec["base"], params, res, rig)
        if spec["part"] == 0:
            res.exhaustive_parts.append(
                f"{spec['base']}: all {len(hs)} placements of 1..{spec['nfaults']} faults from "
                f"{[''.join(f) for f in fault_kinds(spec['base'])]} at the {len(positions(base(spec['base'])))} positions "
                f"after connect")
    finally:
        rig.close()


def run_shard(spec):
    res = Result()
    asyncio.run(_shard(spec, res))
    return res


def replay(case):
    from opv.rigs.aggregator_rig import AggregatorRig
    res = Result()

    async def go():
        rig = AggregatorRig()
        try:
            if case["base"].startswith("F"):
                await run_flush_history(case["history"], case["base"], case["params"], res, rig)
            else:
                await run_history(case["history"], case["base"], case["params"], res, rig)
        finally:
            rig.close()
    asyncio.run(go())
    return res
