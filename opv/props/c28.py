"""C28 - A run survives engine reconnects and aggregator restarts.

Crash-point enumeration: disconnects, disconnect+re-register, graceful aggregator restarts (and hard crashes,
counted only) inserted at every position of base histories, executed on the real aggregator with a scratch SQLite
file; after every reconnect / tag batch / run-stopped the run continuity, the plot-log rows and the RecentRuns row
count are compared with the engine-side truth kept by the harness (see DESIGN.md C28)."""
from __future__ import annotations

import asyncio
import itertools

from opv.core import Result

ID = "C28"
LEVEL = "fault_enumeration"
TECHNIQUE = ("runtime monitoring: continuity / row-attribution / stored-once assertions after every fault of an "
             "exhaustively enumerated fault placement")
RULE = ("base histories over {register, connect, uod-info, run-started, tag batch, run-stopped, resent run-stopped}: "
        "BA one engine one run (3 batches, stop sent twice); BB one engine, pre-run tags, two consecutive runs; BC two "
        "engines with interleaved runs. Faults {X engine disconnects (re-registers lazily before its next message), XR "
        "disconnect + immediate re-register/connect/uod-info, G graceful aggregator restart = Aggregator.shutdown() + "
        "AggregatorDispatcher.shutdown() + new Aggregator on the same database file, H hard crash = new Aggregator "
        "without shutdown (counted, never judged)} inserted at every position after the websocket connect: every "
        "single fault and every pair (thorough: every triple on BA/BB); the seed only varies the data-log interval and "
        "the tag-time spacing. distinct = the history; non-trivial = at least one judged fault hits while a run is "
        "active and at least one continuity check was made")
ASSUMPTIONS = [
    "engine-side truth (which run the engine is in) is kept by the harness: a run starts when its run-started is "
    "delivered and ends when its first run-stopped is delivered; all messages are delivered while connected",
    "after a disconnect or restart the engine re-registers, connects and sends uod-info before its next message, as "
    "EngineRunner does (register POST, websocket connect, UodInfoMsg)",
    "tag batches are spaced by more than the data-log interval, so every batch of an active run is expected as rows with "
    "exactly its tick time in that run's plot log; only batches after at least one fault in that run are judged",
    "'stored once when it stops': exactly one RecentRuns row for the run right after its first run-stopped, after the "
    "resent run-stopped and at the end of the history",
    "a hard crash (no shutdown()) is outside the statement: everything after it in that history is executed, counted "
    "and not judged",
    "graceful restart calls shutdown() while engines are still connected; the order 'connections close first' is the "
    "fault pair (X, G)",
]
REQUIRED = {"histories": 2000, "continuity_checks": 1500, "post_fault_batches_checked": 1500,
            "stored_once_checks": 4000, "graceful_restarts": 600, "disconnects": 2000,
            "faults_during_active_run": 1500, "hard_crash_histories_not_judged": 500}
EXHAUSTIVE_ALL = True


def _eng(e, items, k0=0):
    out = []
    k = k0
    for it in items:
        if it[0] == "t":
            k += 1
            out.append(["tags", e, it[1], k])
        else:
            out.append([it[0], e] + list(it[1:]))
    return out


def base(name):
    pre = lambda e: [["reg", e], ["conn", e], ["uod", e]]
    if name == "BA":
        return pre("E1") + _eng("E1", [("start", "R1"), ("t", "R1"), ("t", "R1"), ("t", "R1"), ("stop", "R1"),
                                       ("stop", "R1")])
    if name == "BB":
        return pre("E1") + _eng("E1", [("t", None), ("start", "R1"), ("t", "R1"), ("stop", "R1"), ("start", "R2"),
                                       ("t", "R2"), ("t", "R2"), ("stop", "R2")])
    if name == "BC":
        a = _eng("E1", [("start", "R1"), ("t", "R1"), ("t", "R1"), ("stop", "R1")])
        b = _eng("E2", [("start", "Q1"), ("t", "Q1"), ("t", "Q1"), ("stop", "Q1")], k0=10)
        mid = []
        for x, y in zip(a, b):
            mid += [x, y]
        return pre("E1") + pre("E2") + mid
    raise ValueError(name)


def fault_kinds(name):
    if name == "BC":
        return [["X", "E1"], ["XR", "E1"], ["X", "E2"], ["XR", "E2"], ["G"], ["H"]]
    return [["X", "E1"], ["XR", "E1"], ["G"], ["H"]]


def positions(b):
    """insertion points p (fault goes before b[p]) at which every engine that has registered is also connected"""
    out = []
    for p in range(len(b) + 1):
        regs = [m[1] for m in b[:p] if m[0] == "reg"]
        conns = [m[1] for m in b[:p] if m[0] == "conn"]
        if regs and sorted(regs) == sorted(conns):
            out.append(p)
    return out


def enumerate_histories(name, nfaults, min_pos=0):
    b = base(name)
    pos = [p for p in positions(b) if p >= min_pos]
    kinds = fault_kinds(name)
    out = []
    for n in range(1, nfaults + 1):
        for ps in itertools.combinations_with_replacement(pos, n):
            for fs in itertools.product(kinds, repeat=n):
                h = []
                for p in range(len(b) + 1):
                    for q, f in zip(ps, fs):
                        if q == p:
                            h.append(list(f))
                    if p < len(b):
                        h.append(b[p])
                out.append(h)
    return out


def plan(tier, seed):
    specs = []
    if tier == "quick":
        layout = (("BA", 2, 4, 0), ("BB", 2, 6, 0), ("BC", 2, 6, 6))   # BC quick: faults only after both engines' uod-info
    else:
        layout = (("BA", 3, 16, 0), ("BB", 3, 24, 0), ("BC", 2, 8, 0))
    i = 0
    for name, nf, parts, min_pos in layout:
        for part in range(parts):
            specs.append({"base": name, "nfaults": nf, "part": part, "of": parts, "min_pos": min_pos,
                          "seed": seed * 1000003 + i})
            i += 1
    return specs


async def run_history(hist, base_name, params, res: Result, rig):
    from opv.rigs.aggregator_rig import reg_msg, uod_info_msg, tags_msg, run_started_msg, run_stopped_msg

    interval, spacing = params["interval"], params["spacing"]
    rig.wipe()
    eids: dict[str, str] = {}
    connected: dict[str, bool] = {}
    eng_run: dict[str, str | None] = {}          # engine-side truth
    run_started_at: dict[str, object] = {}
    faults_in_run: dict[str, int] = {}
    stopped: dict[str, int] = {}                 # run -> deliveries of run-stopped
    judged = True
    viol: list[tuple] = []
    last_id = 0
    stats = {"cont": 0, "fault_in_run": 0}
    last_fault: dict[str, str] = {}

    async def reconnect(e, why):
        eid = await rig.register(reg_msg(e, "uod"))
        if eid is None:
            viol.append(("C28.re_registration_refused", f"engine {e} could not re-register after {why}"))
            return
        eids[e] = eid
        await rig.connect(eid)
        await rig.send(uod_info_msg(eid, ["T1", "T2"], interval))
        connected[e] = True
        r = eng_run.get(e)
        ed = rig.engine_data(eid)
        got = ed.run_data.run_id if ed is not None and ed.has_run() else None
        if not judged:
            if r is not None and got != r:
                res.count("run_lost_after_hard_crash_not_judged")
            return
        if r is None:
            if got is not None:
                res.count("run_restored_although_engine_has_none_not_judged")
            return
        res.count("continuity_checks")
        stats["cont"] += 1
        if got == r:
            if ed.run_data.run_started != run_started_at.get(r):
                res.count("run_started_time_changed_not_judged")
            return
        rec = rig.recent_engine(eid)
        if got is None:
            if rec is not None and rec["run_id"] == r:
                mech = "C28.run_not_restored_from_recent_engine"
            elif why.startswith("G"):
                mech = "C28.active_run_not_persisted_on_shutdown"
            else:
                mech = "C28.active_run_not_persisted_on_disconnect"
        else:
            mech = "C28.restored_run_id_differs"
        viol.append((mech, f"engine {e} is in run {r}; after {why} + re-registration the aggregator has run {got} "
                           f"(RecentEngines row: {'missing' if rec is None else 'run_id=' + str(rec['run_id'])})"))

    for i, m in enumerate(hist):
        kind = m[0]
        if kind in ("X", "XR"):
            e = m[1]
            if e not in eids:
                res.count("fault_on_engine_not_yet_registered_skipped")
                continue
            if connected.get(e):
                res.count("disconnects")
                await rig.disconnect(eids[e])
                connected[e] = False
                last_fault[e] = "X"
                if eng_run.get(e) is not None and judged:
                    faults_in_run[eng_run[e]] = faults_in_run.get(eng_run[e], 0) + 1
                    stats["fault_in_run"] += 1
                    res.count("faults_during_active_run")
            else:
                res.count("disconnect_of_unconnected_engine_skipped")
            if kind == "XR" and not connected.get(e):
                await reconnect(e, last_fault.get(e, "X"))
            continue
        if kind in ("G", "H"):
            if kind == "G":
                res.count("graceful_restarts")
            else:
                res.count("hard_crashes")
                judged = False
            for e in eids:
                if judged and eng_run.get(e) is not None:
                    faults_in_run[eng_run[e]] = faults_in_run.get(eng_run[e], 0) + 1
                    stats["fault_in_run"] += 1
                    res.count("faults_during_active_run")
                if connected.get(e):
                    last_fault[e] = kind
                else:
                    last_fault[e] = last_fault.get(e, "X") + "+" + kind
                connected[e] = False
            await rig.restart(graceful=(kind == "G"))
            continue
        e = m[1]
        if kind == "reg":
            eids[e] = await rig.register(reg_msg(e, "uod"))
            continue
        if kind == "conn":
            await rig.connect(eids[e])
            connected[e] = True
            continue
        if not connected.get(e):
            await reconnect(e, last_fault.get(e, "?"))
        eid = eids[e]
        if kind == "uod":
            await rig.send(uod_info_msg(eid, ["T1", "T2"], interval))
        elif kind == "start":
            r = m[2]
            await rig.send(run_started_msg(eid, r, 1000.0 + i * spacing))
            eng_run[e] = r
            ed = rig.engine_data(eid)
            run_started_at[r] = ed.run_data.run_started if ed is not None and ed.has_run() else None
        elif kind == "tags":
            r, k = m[2], m[3]
            t = 1000.0 + i * spacing
            v1, v2 = float(1000 * k + i) + 0.5, 1000 * k + i
            await rig.send(tags_msg(eid, r, [("T1", t, v1), ("T2", t, v2)]))
            rows = rig.plot_values(after_id=last_id)
            if rows:
                last_id = rows[-1]["id"]
            if r is not None and eng_run.get(e) == r and judged:
                mine = [x for x in rows if (x["name"], x["value"]) in (("T1", v1), ("T2", v2))]
                good = [x for x in mine if x["run_id"] == r and x["engine_id"] == eid and x["tick_time"] == t]
                if faults_in_run.get(r, 0) >= 1:
                    res.count("post_fault_batches_checked")
                    if any(x["run_id"] != r or x["engine_id"] != eid for x in mine):
                        viol.append(("C28.tag_data_recorded_in_other_plot_log",
                                     f"batch #{i} of run {r} engine {e} recorded as {mine}"))
                    elif len(good) < 2:
                        ed = rig.engine_data(eid)
                        has = ed is not None and ed.has_run() and ed.run_data.run_id == r
                        mech = ("C28.tag_data_after_reconnect_not_recorded_in_run" if has
                                else "C28.tag_data_dropped_because_run_was_lost")
                        viol.append((mech, f"batch #{i} (T1={v1}, T2={v2}, t={t}) of run {r} sent after "
                                           f"{faults_in_run[r]} fault(s): rows found {mine}; aggregator has the run: {has}"))
                else:
                    res.count("pre_fault_batches_seen")
                    if len(good) < 2:
                        res.count("pre_fault_batch_missing_not_judged")
        elif kind == "stop":
            r = m[2]
            await rig.send(run_stopped_msg(eid, r))
            stopped[r] = stopped.get(r, 0) + 1
            if eng_run.get(e) == r:
                eng_run[e] = None
            if judged:
                res.count("stored_once_checks")
                n = len(rig.recent_runs(r))
                if n != 1:
                    mech = "C28.run_not_stored_when_stopped" if n == 0 else "C28.run_stored_more_than_once"
                    if not any(v[0] == mech for v in viol):
                        viol.append((mech, f"{n} RecentRuns rows for run {r} after run-stopped delivery #{stopped[r]} "
                                           f"(message #{i}); faults during the run: {faults_in_run.get(r, 0)}"))
        if rig.handler_errors:
            res.count("handler_raised_not_judged")
            rig.handler_errors.clear()
    # ---- end of history
    if judged:
        pl, rr = rig.run_row_counts()
        for r in stopped:
            res.count("stored_once_checks")
            if rr.get(r, 0) != 1:
                mech = "C28.run_not_stored_when_stopped" if rr.get(r, 0) == 0 else "C28.run_stored_more_than_once"
                if not any(v[0] == mech for v in viol):
                    viol.append((mech, f"{rr.get(r, 0)} RecentRuns rows for run {r} at the end of the history"))
            if pl.get(r, 0) != 1:
                viol.append(("C28.run_has_not_exactly_one_plot_log", f"{pl.get(r, 0)} PlotLogs rows for run {r} at the end"))
    else:
        res.count("hard_crash_histories_not_judged")
    res.count("histories")
    nontrivial = stats["fault_in_run"] >= 1 and stats["cont"] >= 1
    res.case({"h": hist, "p": params} if nontrivial else None,
             sample={"base": base_name, "history": hist, "params": params, "continuity_checks": stats["cont"],
                     "rows": rig.counts()})
    for mech, msg in viol:
        res.violation(mech, msg, {"base": base_name, "history": hist, "params": params})


async def _shard(spec, res):
    import random
    from opv.rigs.aggregator_rig import AggregatorRig
    rnd = random.Random(spec["seed"])
    params = {"interval": rnd.choice([0.5, 0.2, 1.0]), "spacing": rnd.choice([1.5, 2.0, 3.0])}
    rig = AggregatorRig()
    try:
        hs = enumerate_histories(spec["base"], spec["nfaults"], spec.get("min_pos", 0))
        for h in hs[spec["part"]::spec["of"]]:
            await run_history(h, spec["base"], params, res, rig)
        if spec["part"] == 0:
            res.exhaustive_parts.append(
                f"{spec['base']}: all {len(hs)} placements of 1..{spec['nfaults']} faults from "
                f"{[''.join(f) for f in fault_kinds(spec['base'])]} at the {len(positions(base(spec['base'])))} positions "
                f"after connect")
    finally:
        rig.close()


def run_shard(spec):
    res = Result()
    asyncio.run(_shard(spec, res))
    return res


def replay(case):
    from opv.rigs.aggregator_rig import AggregatorRig
    res = Result()

    async def go():
        rig = AggregatorRig()
        try:
            await run_history(case["history"], case["base"], case["params"], res, rig)
        finally:
            rig.close()
    asyncio.run(go())
    return res
