"""C14 - Injected code runs once in the current scope, even across edits.

Per generated method: one reference run without injection, then one run per injection tick (and per snippet / edit
delay choice / group of 2-3 snippets whose lifetimes overlap, also inside a Hold/Pause window opened by the user). Oracle: unique injected labels exactly once within K interpreter ticks (ticks in which the run is
paused or on hold do not count) and never twice; an injected UOD command is initialised once, runs to completion and is
finalised; the method-line part of the run (node state transitions, Marks, UOD callbacks, final method state) equals
the reference run. With a live edit after the injection only the injected code itself is judged.

About 30 % of the snippets are generated from the instruction set of the method generator (gen_snippet: Blocks nested
1-3 levels with `End block` / `End blocks` / a Watch that ends the block, Watch and Alarm inside and outside injected
Blocks, macro definitions and calls, UOD commands, thresholds, Waits, Info, blank lines). For them the oracle knows, per
label, how often the snippet says it runs (sequential lines: exactly as often as the snippet says, in snippet order; Watch
bodies: at most once; never-true bodies / uncalled macros: never; Alarm bodies: not judged). For every snippet with a
Block the block lock must be released within the snippet's bound after it was acquired, and the Block tag must not name
an injected Block that is not active at the end of the run. See DESIGN.md C14."""
from __future__ import annotations

import gc
import random
import re

from opv.core import Result
from opv.gen_pcode import trajectory, shape_hash

ID = "C14"
LEVEL = "exploration"
TECHNIQUE = ("runtime monitoring: bounded-liveness and exactly-once monitor on injected effects plus differential "
             "comparison of the method-line trace against a reference run without the injection")
RULE = ("seeded P-code generator (Mark, UOD, Wait, thresholds, Block, Watch, Alarm, Macro/Call macro, Pause/Hold with "
        "duration, counters, blank lines; no Stop/Restart) x scripted FT01 trajectory x snippet from {Mark, two Marks, "
        "long UOD command, short UOD command, Wait+Mark, Block..End block, mixed; 30 %: generated snippet of 1-16 lines - "
        "Blocks nested 1-3 levels ended by End block / End blocks / Watch..End block, Watch/Alarm (true, never true, FT01 "
        "dependent) in and outside injected Blocks, Macro + 0-2 Call macro, Other/Drive1/Mode, thresholds, Waits, Info, "
        "blank/comment lines} with unique labels and command names "
        "the method never uses x injection at every tick of the run (quick: every 2nd) x {no edit, live edit (append a "
        "Mark at the end of the method) 0-6 ticks later, 2-3 snippets in one run (unique labels, pairwise different "
        "command names Other/Drive1/Mode, at most one fixed Block snippet, 35 % generated snippets incl. nested Blocks) "
        "injected 0-4 ticks apart so that their lifetimes overlap, "
        "a quarter of them inside a user Hold/Pause window that is released 1-5 ticks after the last injection}. distinct = (method shape, snippet kind, phase of the "
        "injection relative to the run, edit delay); non-trivial = the method had started lines and pending lines at "
        "the injection, or the engine was paused/on hold at the injection")
ASSUMPTIONS = [
    "bound K = 4 + 3*lines + wait ticks, counted in invocations of PInterpreter.tick (the engine skips them while "
    "paused / on hold), + 6 ticks for an injected long UOD command to run its 4 iterations and be finalised",
    "injected UOD commands use names the method never uses (Other, Mode), because same-name / overlapping commands "
    "cancel each other by design (C11)",
    "an injected Block competes for the block lock with method blocks by design: the bound is not judged for Block "
    "snippets while a method block holds the lock, and method-line timing is then not compared; an injected Block also "
    "restarts Block Time (an injected Watch/Alarm body, while it runs, Scope Time), the clock of the method's "
    "threshold lines, which holds up the main path of a method with thresholds; in both cases the untimed method-line comparison is decided only if a stall cannot change which "
    "lines run (constant FT01, no Simulate in the method, every method Block of the reference run ends)",
    "block lock: once an injected Block holds the (exclusive) lock nothing competes with its snippet, so it must "
    "release the lock within the snippet's bound K counted from the acquisition, contention before or not; read from "
    "lock_acquired transitions of the injected Block objects, not from the interpreter's list of locked blocks",
    "generated snippets avoid what is a design choice or a recorded finding of C02/C03/C04/C05/C41: End block(s) that "
    "could end a block the snippet did not open, lines after `End blocks` in the blocks it ends, Blocks and macro "
    "calls in Watch/Alarm bodies, Watch/Alarm in Alarm or macro bodies, UOD commands off the sequential path, macro "
    "definitions inside Blocks, calls of method macros, thresholds > 0 outside the snippet's own Blocks (their clock "
    "is restarted by any Watch/Alarm/Block of the method or of another snippet)",
    "bound of a generated snippet: 4 + 3 per line on the sequential path (macro bodies per call) + Wait ticks + "
    "threshold ticks + 1 + 8 per Block (acquire, end) + 4 per Watch that ends a block; in a group, a Block snippet's "
    "bound also includes the bounds of Block snippets injected after it (they may take the lock first)",
    "'does not change which method lines start/complete' is decided on node state transitions, Marks, UOD callbacks "
    "and final method state of method lines; if these differ only in timing the untimed comparison decides, restricted "
    "to lines outside Alarm/macro bodies",
    "with a live edit the method-line half is C01's business and is not compared here",
    "several snippets alive at once: each is judged on its own (exactly once, command completed and finalised); the "
    "bound of a snippet counts from its own injection and includes the bounds of the snippets injected before it in "
    "that run, so an engine that runs pending snippets one after the other is not blamed; the reference run of a "
    "user Hold/Pause window has the same user commands and no injection",
]
REQUIRED = {"injections_no_edit": 2000, "label_bound_checks": 2000, "uod_finalize_checks": 400,
            "differential_exact_equal": 1500, "injections_with_edit": 800, "interp_ticks_counted": 20000,
            "injections_while_paused_or_held": 20, "multi_injection_runs": 600, "multi_runs_with_overlapping_lifetimes": 500,
            "multi_label_bound_checks": 1200, "multi_uod_finalize_checks": 500, "multi_differential_exact_equal": 500,
            "multi_later_snippet_injected_while_paused_or_held": 80, "multi_runs_in_user_hold_or_pause_window": 80,
            # generated snippets (nested Blocks etc.): reached, judged, at every kind of position
            "gen_snippets_injected": 900, "gen_snippets_with_nested_blocks": 550, "gen_snippets_with_3_block_levels": 100,
            "gen_label_bound_and_order_checks": 330, "gen_nested_block_label_bound_checks": 200,
            "injected_block_lock_hold_checks": 750, "injected_nested_block_lock_hold_checks": 600,
            "injected_block_tag_checks": 380, "multi_gen_snippets_injected": 400,
            "multi_gen_label_bound_and_order_checks": 350, "multi_gen_nested_block_label_bound_checks": 200,
            "multi_injected_block_lock_hold_checks": 650,
            "gen_block_snippet_injected_while_method_block_active": 60, "gen_block_snippet_injected_before_a_method_block": 70,
            "gen_block_snippet_injected_after_the_method_blocks": 20, "gen_block_snippet_injected_while_paused_or_held": 20,
            "gen_feat_watch_in_block": 100, "gen_feat_alarm_in_block": 100, "gen_feat_callmacro": 80,
            "gen_feat_end_blocks_chain": 170, "gen_feat_end_block_depth3": 90, "gen_feat_block_ended_by_watch": 150,
            "gen_feat_thr": 400, "gen_feat_uod": 500, "gen_feat_wait": 390}

ALLOW = ("mark", "uod", "wait", "block", "watch", "alarm", "macro", "thr", "blank", "pausehold", "counter", "info", "sim")
INJ_CMDS = ("Other", "Mode", "Drive1")   # rig commands the generated methods never use
LONG_N = 4
# exec iteration numbers each injected command must show, and the ticks it needs beyond the snippet's own bound
CMD_WANT = {"Other": list(range(0, LONG_N + 1)), "Drive1": list(range(0, LONG_N + 5)), "Mode": [0]}
CMD_EXTRA = {"Other": LONG_N + 2, "Drive1": LONG_N + 6, "Mode": LONG_N + 2}


def plan(tier, seed):
    n = 640 if tier == "quick" else 6400
    shards = 16 if tier == "quick" else 64
    return [{"seed": seed * 1000003 + 104729 * i + 5, "n": n // shards, "step": 2 if tier == "quick" else 1,
             "max_depth": 3 if tier == "quick" else 4} for i in range(shards)]


SNIPPET_KINDS = ["mark", "mark2", "long", "long_mark", "short", "wait_mark", "block", "mixed", "mark", "long_mark"]


def snippet(rnd: random.Random, tag: str, kind: str | None = None, long_cmd: str = "Other", short_cmd: str = "Mode") -> dict:
    """long_cmd / short_cmd: several snippets alive in one run must not share a command name (same-name commands cancel
    each other by design)."""
    if kind is None:
        kind = rnd.choice(SNIPPET_KINDS)
    a, b = f"j{tag}a", f"j{tag}b"
    if kind == "mark":
        code, labels, cmds, waits = f"Mark: {a}", [a], [], 0
    elif kind == "mark2":
        code, labels, cmds, waits = f"Mark: {a}\nMark: {b}", [a, b], [], 0
    elif kind == "long":
        code, labels, cmds, waits = long_cmd, [], [long_cmd], 0
    elif kind == "long_mark":
        code, labels, cmds, waits = f"{long_cmd}\nMark: {a}", [a], [long_cmd], 0
    elif kind == "short":
        code, labels, cmds, waits = f"{short_cmd}: B\nMark: {a}", [a], [short_cmd], 0
    elif kind == "wait_mark":
        code, labels, cmds, waits = f"Wait: 0.3s\nMark: {a}", [a], [], 3
    elif kind == "block":
        code, labels, cmds, waits = f"Block: jblk\n    Mark: {a}\n    End block\nMark: {b}", [a, b], [], 0
    else:
        code, labels, cmds, waits = f"Mark: {a}\nWait: 0.2s\n{long_cmd}\nMark: {b}", [a, b], [long_cmd], 2
    nlines = code.count("\n") + 1
    return {"kind": kind, "code": code, "labels": labels, "cmds": cmds, "K": 4 + 3 * nlines + waits}


# ------------------------------------------------------------------------------------------------ generated snippets
# Snippets drawn from the instruction set of the method generator: Blocks nested 1-3 levels (each ended by its own
# `End block`, by a `Watch: <true> / End block` at the end of its body, or - a chain of blocks that all close at the
# same place - by one `End blocks` of the innermost), Watch / Alarm inside and outside injected Blocks, macro
# definitions with 0-2 calls, UOD commands, thresholds, Waits, Info/Warning, blank and comment lines.
# What is NOT generated, because the engine's answer is a design choice or a recorded defect of another property and
# not this statement's business: `End block(s)` that could end a block the snippet did not open; lines after an
# `End blocks` in the blocks it ends (skipped by design); a Block in a Watch/Alarm/macro body (competes with the
# snippet's own main path for 'innermost block', C05 / C41 findings); Watch/Alarm inside Alarm or macro bodies, macro
# calls from interrupt bodies, UOD commands off the sequential path (C02/C04/C10 findings); calls of method macros;
# macro definitions inside a Block (the body counts as 'in an ended block' once that Block has ended - C41's business).
G_TRUE = "Run Counter >= 0"
G_FALSE = "X = 7"                                   # the method generator simulates X in 0..5 only
G_VAR = ("FT01 > 3 L/h", "FT01 > 1 L/h", "FT01 >= 5 L/h", "X = 2")
G_THR = ("0.2", "0.5", "1", "0", "1.5")
G_WAIT = ("0.1", "0.2", "0.3", "0", "0.5")
GEN_KMAX = 84                                       # longest bound of one generated snippet
GEN_KMAX_MULTI = 40                                 # ... of a generated snippet in a group of 2-3
GEN_SHARE = 0.3                                     # share of generated snippets among the single injections
GEN_SHARE_MULTI = 0.35                              # ... among the snippets of a group


class _SnipGen:
    def __init__(self, rnd: random.Random, tag: str, longs: list[str], shorts: list[str], max_depth: int):
        self.r, self.tag = rnd, tag
        self.longs, self.shorts = list(longs), list(shorts)
        self.max_depth = max_depth
        self.n = 0
        self.lines: list[str] = []
        self.seq: list[str] = []            # labels on the sequential path, in execution order (macro calls expanded)
        self.atmost: list[str] = []         # labels in Watch bodies: at most once (the Block may end first)
        self.never: list[str] = []          # labels in Watch/Alarm bodies whose condition is never true
        self.rep: list[str] = []            # labels in Alarm bodies: any number of times
        self.cmds: list[str] = []
        self.blocks: list[str] = []
        self.macros: dict[str, tuple[list[str], int]] = {}    # name -> (labels of the body, ticks of the body)
        self.cost = 0                       # interpreter ticks the sequential path may need
        self.depth_reached = 0
        self.feat: set[str] = set()

    def lab(self) -> str:
        self.n += 1
        return f"j{self.tag}_{self.n}"

    def emit(self, ind: int, txt: str):
        self.lines.append(" " * ind + txt)

    # -- leaves; `to` = list that receives the labels, cost = whether the line lies on the sequential path
    def leaf(self, ind: int, to: list[str], kinds: tuple[str, ...], thr_values=G_THR) -> int:
        r = self.r
        k = r.choice(kinds)
        if k == "uod_long" and not self.longs:
            k = "mark"
        if k == "uod_short" and not self.shorts:
            k = "mark"
        c = 3
        if k == "mark":
            lab = self.lab()
            to.append(lab)
            self.emit(ind, f"Mark: {lab}")
        elif k == "thr":
            v = r.choice(thr_values)
            lab = self.lab()
            to.append(lab)
            self.emit(ind, f"{v} Mark: {lab}")
            c += int(round(float(v) * 10)) + 1
            self.feat.add("thr")
        elif k == "wait":
            v = r.choice(G_WAIT)
            self.emit(ind, f"Wait: {v}s")
            c += int(round(float(v) * 10))
            self.feat.add("wait")
        elif k == "info":
            self.emit(ind, r.choice(["Info: hello", "Warning: careful"]))
        elif k == "uod_long":
            name = self.longs.pop()
            self.cmds.append(name)
            self.emit(ind, name)
            self.feat.add("uod")
        elif k == "uod_short":
            name = self.shorts.pop()
            self.cmds.append(name)
            self.emit(ind, f"{name}: {r.choice('AB')}")
            self.feat.add("uod")
        return c

    def interrupt_body(self, ind: int, to: list[str], n: int):
        for _ in range(n):
            self.leaf(ind, to, ("mark", "mark", "thr", "wait", "info"))

    def stmt(self, ind: int, depth: int, last: bool, may_chain: bool) -> bool:
        """One statement of a sequential body. Returns True if it was a Block that closes the enclosing blocks too
        (`End blocks` chain) - then the caller must not emit a terminator of its own."""
        r = self.r
        kinds = ["mark", "mark", "thr", "wait", "uod_long", "uod_short", "info", "callmacro", "blank"]
        if depth < self.max_depth:
            kinds += ["block", "block", "block"] if depth else ["block", "block"]
            kinds += ["watch", "alarm"]
        if depth == 0 and len(self.macros) < 2:
            kinds.append("macro")       # at the root only: a body defined inside a Block is skipped after that Block ended
        if self.macros:
            kinds += ["callmacro", "callmacro"]
        k = r.choice(kinds)
        if k == "blank" and last:
            k = "mark"
        if k == "callmacro" and not self.macros:
            k = "mark"
        if k in ("mark", "thr", "wait", "uod_long", "uod_short", "info"):
            # a threshold line reads the clock of the innermost scope that was activated last, anywhere in the run
            # (Block Time inside a Block, else Scope Time): inside the snippet's own Block (exclusive lock) that is the
            # Block's clock and the wait is bounded by the threshold; at the root any Watch/Alarm/Block of the method
            # or of another snippet may restart the clock, so only `0 ...` thresholds are generated there
            self.cost += self.leaf(ind, self.seq, (k,), thr_values=G_THR if depth >= 1 else ("0",))
        elif k == "blank":
            self.emit(ind, r.choice(["", "# c"]))
            self.cost += 3
            self.feat.add("blank")
        elif k == "block":
            chain = last and may_chain and depth >= 1 and r.random() < 0.5
            self.block(ind, depth + 1, chain)
            return chain
        elif k in ("watch", "alarm"):
            cond = r.choice([G_TRUE, G_TRUE, G_TRUE, G_FALSE] + [r.choice(G_VAR)])
            self.emit(ind, f"{k.capitalize()}: {cond}")
            to = self.never if cond == G_FALSE else self.atmost if k == "watch" else self.rep
            self.interrupt_body(ind + 4, to, r.randint(1, 2))
            self.cost += 3
            self.feat.add(k + ("_in_block" if depth else "_at_root"))
        elif k == "macro":
            name = f"JM{self.tag}_{len(self.macros)}"
            self.emit(ind, f"Macro: {name}")
            labs: list[str] = []
            c = 0
            for _ in range(r.randint(1, 3)):
                c += self.leaf(ind + 4, labs, ("mark", "mark", "thr", "wait", "info"), thr_values=("0",))
            self.macros[name] = (labs, c)
            self.cost += 3
            self.feat.add("macro")
        elif k == "callmacro":
            name = r.choice(sorted(self.macros))
            self.emit(ind, f"Call macro: {name}")
            labs, c = self.macros[name]
            self.seq.extend(labs)
            self.cost += 4 + c
            self.feat.add("callmacro")
        return False

    def block(self, ind: int, depth: int, ends_all: bool):
        """ends_all: this block is the last statement of its parent, and closes the parent (chain) with `End blocks`."""
        r = self.r
        name = f"jb{self.tag}_{len(self.blocks)}"
        self.blocks.append(name)
        self.depth_reached = max(self.depth_reached, depth)
        self.emit(ind, f"Block: {name}")
        self.cost += 4
        n = r.randint(1, 3)
        chained = False
        for i in range(n):
            chained = self.stmt(ind + 4, depth, last=(i == n - 1), may_chain=(depth == 1 or ends_all))
        if chained:
            self.feat.add("end_blocks_chain")
            return                           # the nested block's `End blocks` ends this one as well
        if ends_all:
            self.emit(ind + 4, "End blocks")
            self.feat.add(f"end_blocks_depth{depth}")
        else:
            t = r.choice(["End block"] * 5 + ["End blocks"] * (1 if depth == 1 else 0) + ["watch"])
            if t == "watch":
                self.emit(ind + 4, f"Watch: {G_TRUE}")
                self.emit(ind + 8, "End block")
                self.cost += 4
                self.feat.add("block_ended_by_watch")
            else:
                self.emit(ind + 4, t)
                self.feat.add(f"{t.lower().replace(' ', '_')}_depth{depth}")
        self.cost += 4

    def program(self, n: int):
        for i in range(n):
            self.stmt(0, 0, last=(i == n - 1), may_chain=False)
        if self.macros and "callmacro" not in self.feat and self.r.random() < 0.7:
            name = self.r.choice(sorted(self.macros))
            self.emit(0, f"Call macro: {name}")
            labs, c = self.macros[name]
            self.seq.extend(labs)
            self.cost += 4 + c
            self.feat.add("callmacro")


def gen_snippet(rnd: random.Random, tag: str, longs=("Drive1", "Other"), shorts=("Mode",), kmax: int = GEN_KMAX,
                want_nested: bool | None = None) -> dict:
    """A generated snippet and what the statement says about it: `want` = label -> exact number of executions (lines on
    the sequential path; a macro body counts once per call), `seq` = their order, `atmost` / `never` / `rep` = labels in
    Watch bodies (<= 1), in bodies whose condition is never true (0), in Alarm bodies (not judged). K = bound in
    interpreter ticks: 3 per line (as for the fixed kinds), Wait and threshold durations, 4 per Block start / end."""
    if want_nested is None:
        want_nested = rnd.random() < 0.6
    for attempt in range(400):
        if attempt == 200:
            want_nested = False
        g = _SnipGen(rnd, tag, list(longs), list(shorts), max_depth=rnd.choice([2, 3, 3]))
        g.program(rnd.randint(1, 4))
        K = 4 + g.cost
        if K > kmax or len(g.lines) > 16:
            continue
        if want_nested and g.depth_reached < 2:
            continue
        want: dict[str, int] = {}
        for lab in g.seq:
            want[lab] = want.get(lab, 0) + 1
        for labs, _c in g.macros.values():          # body of a macro that is never called
            g.never.extend(lab for lab in labs if lab not in want)
        return {"kind": "gen", "code": "\n".join(g.lines), "labels": list(want), "want": want, "seq": list(g.seq),
                "atmost": list(g.atmost), "never": list(g.never), "rep": list(g.rep), "cmds": list(g.cmds), "K": K,
                "blocks": list(g.blocks), "depth": g.depth_reached, "feat": sorted(g.feat), "has_block": bool(g.blocks)}
    raise RuntimeError("gen_snippet: no snippet within the size limits")


def multi_snippets(rnd: random.Random, tag: str) -> tuple[list[dict], list[int]]:
    """2-3 snippets for one run with unique labels and pairwise different command names, plus the gaps (in engine ticks)
    between consecutive injections. At most one Block snippet (injected blocks compete for the block lock by design)."""
    n = rnd.choice([2, 2, 3])
    longs, shorts = ["Other", "Drive1"], ["Mode"]
    rnd.shuffle(longs)
    sns, have_block = [], False
    for i in range(n):
        if rnd.random() < GEN_SHARE_MULTI:
            # generated snippet (nested Blocks, Watch/Alarm, macros, thresholds ...) with the command names still unused
            sn = gen_snippet(rnd, f"{tag}{'xyz'[i]}", longs=tuple(longs), shorts=tuple(shorts), kmax=GEN_KMAX_MULTI)
            longs = [c for c in longs if c not in sn["cmds"]]
            shorts = [c for c in shorts if c not in sn["cmds"]]
            sns.append(sn)
            continue
        kind = rnd.choice(SNIPPET_KINDS)
        if kind == "block" and have_block:
            kind = "mark2"
        if kind in ("long", "long_mark", "mixed") and not longs:
            kind = {"long": "mark", "long_mark": "mark2", "mixed": "wait_mark"}[kind]
        if kind == "short" and not shorts:
            kind = "mark2"
        have_block = have_block or kind == "block"
        lc = longs.pop() if kind in ("long", "long_mark", "mixed") else "Other"
        sc = shorts.pop() if kind == "short" else "Mode"
        sns.append(snippet(rnd, f"{tag}{'xyz'[i]}", kind=kind, long_cmd=lc, short_cmd=sc))
    gaps = [rnd.choice([0, 0, 1, 1, 2, 2, 3, 4]) for _ in range(n - 1)]
    return sns, gaps


def gen_case(rnd: random.Random, step: int, max_depth: int) -> dict:
    from opv.rigs import liveedit_rig as L
    text = L.gen_method(rnd, ALLOW, max_depth=max_depth, maxlen=7)
    # the generator's own trajectories; the injection never shifts the main path, so conditions may vary in time
    traj = trajectory(rnd, 260)
    return {"text": text, "traj": traj, "step": step, "sub": rnd.randrange(1 << 30)}


# ------------------------------------------------------------------------------------------------ one run
def run_once(text: str, traj, ticks: int, inject=None, edit=None, user=None):
    """inject = (after_tick, code) or a list of such (applied in list order); edit = (after_tick, [(id, content)...]);
    user = [(after_tick, command name), ...] issued before the injections of that tick. Returns a record dict."""
    from opv.rigs import engine_rig as R
    from opv.rigs import liveedit_rig as L
    from openpectus.lang.exec.errors import MethodEditError
    L.install_interp_counter()
    rig = R.EngineRig(text, long_n=LONG_N)
    L.reset_interp_counter()
    rec = {"marks_at": [], "iticks_at": [], "state_at": [], "locked_at": [], "inject_itick": None, "edit_result": None,
           "inject_error": None, "inject_state": None, "edit_tick": None, "injections": [], "user": [],
           "block_tag_at": []}
    keep: list = []      # injected nodes stay referenced until the end of the run (their python ids key the trace)
    injs = [] if inject is None else [inject] if isinstance(inject[0], int) else list(inject)
    try:
        rig.start()
        for k in range(ticks):
            # rig.k ticks have been done
            for ut, name in (user or ()):
                if rig.k == ut:
                    rec["user"].append((ut, name, rig.state, rig.user(name)))
            for n_inj, (it, code) in enumerate(injs):
                if rig.k != it:
                    continue
                one = {"t": it, "state": rig.state, "itick": L.ITICKS[0], "error": None}
                if n_inj == 0:
                    rec["inject_state"] = rig.state
                    rec["inject_itick"] = L.ITICKS[0]
                    rec["inject_ms"] = L.state_sets(rig.e.method_manager.get_method_state())
                    rec["inject_nlines"] = len(L.method_lines(rig))
                known = {id(i.node) for i in rig.e.interpreter.interrupts}
                try:
                    rig.e.inject_code(code)
                except Exception as ex:
                    one["error"] = f"{type(ex).__name__}: {ex}"[:300]
                    if n_inj == 0:
                        rec["inject_error"] = one["error"]
                # the Block nodes of this snippet (python id -> name), read from the InjectedNode the call registered
                one["blocks"] = {}
                for intr in rig.e.interpreter.interrupts:
                    if id(intr.node) not in known and type(intr.node).__name__ == "InjectedNode":
                        keep.append(intr.node)
                        one["blocks"] = {id(b): b.name for b in intr.node.get_child_nodes(recursive=True)
                                         if type(b).__name__ == "BlockNode"}
                rec["injections"].append(one)
            if edit is not None and rig.k == edit[0]:
                rec["edit_tick"] = rig.k
                rec["edit_itick"] = L.ITICKS[0]
                rec["pre_edit_actual_started"] = sum(1 for n in rig.program().get_all_nodes() if n.started)
                rec["inj_intr_before"] = sum(1 for i in rig.e.interpreter.interrupts if type(i.node).__name__ == "InjectedNode")
                rec["cm_before"] = id(rig.e._command_manager)
                rec["executing_before"] = [r.name for r in rig.e._command_manager.cmd_executing] + \
                    [r.name for r in list(rig.e._command_manager.cmd_queue.queue)]
                try:
                    rec["edit_result"] = rig.e.set_method(R.method_from_lines(edit[1], version=0))
                except MethodEditError as ex:
                    rec["edit_result"] = f"MethodEditError: {ex}"[:200]
                except Exception as ex:
                    rec["edit_result"] = f"raised {type(ex).__name__}: {ex}"[:200]
                rec["inj_intr_after"] = sum(1 for i in rig.e.interpreter.interrupts if type(i.node).__name__ == "InjectedNode")
                rec["cm_replaced"] = id(rig.e._command_manager) != rec["cm_before"]
            rig.hw.inputs["FT01"] = traj[min(rig.k, len(traj) - 1)]
            rig.tick(catch=True)
            rec["marks_at"].append(tuple(rig.marks()))
            rec["iticks_at"].append(L.ITICKS[0])
            rec["state_at"].append(rig.state)
            rec["locked_at"].append(len(rig.program().get_locked_blocks()))
            rec["block_tag_at"].append(rig.tag("Block"))
            if rig.tick_exc:
                break
        ms = rig.e.method_manager.get_method_state()
        rec["final_ms"] = L.state_sets(ms)
        rec["trace"] = list(R.TRACE)
        rec["cmdlog"] = list(rig.cmdlog)
        rec["errors"] = list(rig.errors)
        rec["tick_exc"] = list(rig.tick_exc)
        rec["instances"] = sorted(rig.uod.command_instances.keys())
        rec["ticks"] = rig.k
        prog = rig.program()
        rec["repeatable_ids"] = {n.id for n in prog.get_all_nodes() if L.in_repeatable(n)}
        rec["repeatable_labels"] = {n.name for n in prog.get_all_nodes() if L.in_repeatable(n) and type(n).__name__ == "MarkNode"}
        rec["method_ids"] = {n.id for n in prog.get_all_nodes()}
        rec["method_has_block"] = any(type(n).__name__ == "BlockNode" for n in prog.get_all_nodes())
        rec["method_blocks_open"] = sum(1 for n in prog.get_all_nodes() if type(n).__name__ == "BlockNode"
                                        and n.started and not n.completed)
        rec["block_tag"] = rig.tag("Block")
        return rec
    finally:
        rig.close()
        del rig
        gc.collect()     # finalise this run's interpreter generators now (their clean-up must not leak into the next TRACE)


def _neg(node_id) -> bool:
    return bool(re.fullmatch(r"-\d+", str(node_id)))


def injected_block_never_ended(rec) -> bool:
    """Causal shape of the defect 'End block inside injected code cannot see the injected Block': an injected Block
    (negative node id) acquired the lock, an injected End block completed, the Block was never ended."""
    tr = rec["trace"]
    locked = {e[6] for e in tr if e[3] == "BlockNode" and _neg(e[2]) and e[1] == "lock_acquired" and e[5] is True}
    ended = {e[6] for e in tr if e[3] == "BlockNode" and _neg(e[2]) and e[1] == "block_ended" and e[5] is True}
    endblock_done = any(e[3] == "EndBlockNode" and _neg(e[2]) and e[1] == "completed" and e[5] is True for e in tr)
    return bool(locked - ended) and endblock_done


def block_shape(sn, rec, missing) -> bool:
    """Only the label after the injected block is missing, the label inside the block ran, the block never ended."""
    return sn["kind"] == "block" and missing == [sn["labels"][1]] and injected_block_never_ended(rec) and \
        rec["marks_at"][-1].count(sn["labels"][0]) == 1


def dropped_by_edit(sn, rec) -> bool:
    """Causal shape of 'the edit dropped the pending injected code': the interrupt that runs the InjectedNode existed
    before Engine.set_method and not after it, or the request of a running injected command sat in a command manager
    that the edit replaced."""
    intr = rec.get("inj_intr_before", 0) > 0 and rec.get("inj_intr_after", 0) == 0
    cmd = rec.get("cm_replaced", False) and any(n in rec.get("executing_before", ()) for n in sn["cmds"])
    return intr or cmd


def injected_end_block_ended_method_block(rec) -> bool:
    """Second symptom of the same defect: the injected Block holds its lock invisibly, a method Block acquires the lock
    as well, and the injected `End block` then ends that *method* block (same tick: injected EndBlockNode completes,
    a method BlockNode gets block_ended) while the injected Block itself is never ended."""
    if not injected_block_never_ended(rec):
        return False
    tr = rec["trace"]
    ticks = {e[0] for e in tr if e[3] == "EndBlockNode" and _neg(e[2]) and e[1] == "completed" and e[5] is True}
    return any(e[3] == "BlockNode" and not _neg(e[2]) and e[1] == "block_ended" and e[5] is True and e[0] in ticks
               for e in tr)


def quiescence(rec) -> int:
    last = 1
    for e in rec["trace"]:
        last = max(last, e[0])
    for c in rec["cmdlog"]:
        last = max(last, c[0])
    return last


def method_part(rec, method_ids):
    """Timed method-line trace: node events of method nodes, Marks without injected labels, callbacks of method commands."""
    ev = [(e[0], e[1], e[2], e[4], e[5]) for e in rec["trace"] if e[2] in method_ids and e[3] not in ("NullNode", "InjectedNode")]
    marks = [tuple(m for m in ms if not m.startswith("j")) for ms in rec["marks_at"]]
    cmds = [(c[0], c[1], c[2], c[4]) for c in rec["cmdlog"] if c[2] not in INJ_CMDS]
    fin = tuple(frozenset(x for x in s if x in method_ids) for s in rec["final_ms"])
    return ev, marks, cmds, fin


def untimed(part, repeatable, rep_labels):
    """Untimed view of a method part. Lines in (and labels written from) Alarm / macro bodies legitimately run a
    timing-dependent number of times within the horizon (an injected Block restarts Block Time, the base of thresholds,
    and so shifts the phase of a re-arming Alarm): for them only 'ran at least once' is compared, and their momentary
    state at the end of the horizon is not."""
    from collections import Counter
    ev, marks, cmds, fin = part
    starts = Counter(e[2] for e in ev if e[1] == "started" and e[4] is True and e[2] not in repeatable)
    compl = Counter(e[2] for e in ev if e[1] == "completed" and e[4] is True and e[2] not in repeatable)
    rep_started = frozenset(e[2] for e in ev if e[1] == "started" and e[4] is True and e[2] in repeatable)
    last = marks[-1] if marks else ()
    mk = Counter(m for m in last if m not in rep_labels)
    rep_mk = frozenset(m for m in last if m in rep_labels)
    fin_nonrep = tuple(frozenset(x for x in st if x not in repeatable) for st in fin)
    return starts, compl, rep_started, mk, rep_mk, fin_nonrep


def untimed_difference(ref, ref_part, got) -> str | None:
    a = untimed(ref_part, ref["repeatable_ids"], ref["repeatable_labels"])
    b = untimed(got, ref["repeatable_ids"], ref["repeatable_labels"])
    names = ["starts", "completions", "repeatable lines reached", "marks", "marks from repeatable bodies (at least once)",
             "final method state"]
    return next((n for n, x, y in zip(names, a, b) if x != y), None)


def stall_insensitive(text: str, traj, ref) -> bool:
    """An injected Block and a method Block compete for the block lock by design, so the method's main path may stand
    still for up to the snippet's bound. That may legitimately change WHICH method lines run when a condition of the
    method is true only for a while (scripted FT01 pulse / step / ramp, Simulate ... Simulate off) or when a method Block
    never ends (whoever gets the lock first keeps it). Without those three, a stall only delays: the untimed comparison
    of the method-line part is then decided even under lock contention."""
    n = len(ref["marks_at"]) + 2
    return len(set(traj[:n])) == 1 and "Simulate" not in text and ref["method_blocks_open"] == 0 and \
        (not ref["locked_at"] or ref["locked_at"][-1] == 0)


def method_has_threshold(text: str) -> bool:
    """A method line with a threshold > 0 reads Block Time while any Block is active - also an injected one, which
    restarts that clock: the line (and the main path behind it) is held up for as long as the injected Block runs."""
    return any(re.match(r"\s*(?!0\s)\d+(\.\d+)?\s+\S", ln) for ln in text.split("\n"))


def shifts_clocks(sn) -> bool:
    """An injected Block restarts Block Time; an injected Watch/Alarm body is a scope of its own while it runs, which
    restarts Scope Time, the clock of threshold lines outside Blocks."""
    return has_block(sn) or any(f.startswith(("watch_", "alarm_")) for f in sn.get("feat", ()))


def injected_ids_shared(rec) -> bool:
    """Causal shape of 'injected snippets are numbered independently': two different node objects with the same
    (negative) injected node id changed state in one run."""
    objs: dict = {}
    for e in rec["trace"]:
        if _neg(e[2]) and e[3] not in ("InjectedNode", "NullNode"):
            objs.setdefault(e[2], set()).add((e[6], e[3]))
    return any(len(v) > 1 for v in objs.values())


def has_block(sn) -> bool:
    return sn["kind"] == "block" or bool(sn.get("has_block"))


def want_of(sn) -> dict:
    """label -> number of executions the statement demands (lines on the sequential path of the snippet)"""
    return sn.get("want") or {lab: 1 for lab in sn["labels"]}


def labels_missing(sn, marks) -> list:
    return [lab for lab, c in want_of(sn).items() if marks.count(lab) != c]


def labels_excess(sn, marks) -> list:
    """labels appended more often than the snippet says: a sequential line more than once per execution, a Watch body
    line more than once, a line in a body whose condition is never true (or of a macro that is never called) at all"""
    return ([lab for lab, c in want_of(sn).items() if marks.count(lab) > c]
            + [lab for lab in sn.get("atmost", ()) if marks.count(lab) > 1]
            + [lab for lab in sn.get("never", ()) if marks.count(lab) > 0])


def order_problem(sn, marks) -> str | None:
    """The sequential lines of a snippet execute in snippet order: at any moment the labels appended so far are a
    prefix of the snippet's label sequence (macro calls expanded)."""
    w = want_of(sn)
    seq = sn.get("seq") or sn["labels"]
    got = [m for m in marks if m in w]
    if got != seq[:len(got)] and not labels_excess(sn, marks):
        return f"labels in the order {got}, the snippet says {seq}"
    return None


def lock_hold_problems(rec, n_inj: int, K: int) -> tuple[int, list[str]]:
    """Block lock clause: an injected Block that has acquired the block lock runs without competitor (the lock is
    exclusive), so it must have released the lock within the snippet's bound K, counted in interpreter ticks from the
    acquisition - whether or not the snippet had to wait for a method block before. Read from the node-state trace
    (lock_acquired transitions of this snippet's Block objects), not from the interpreter's own list of locked blocks.
    Returns (number of decided lock holds, problems)."""
    blocks = rec["injections"][n_inj].get("blocks") or {}
    its = rec["iticks_at"]
    if not blocks or not its:
        return 0, []

    def it(tick):
        return its[min(max(tick - 2, 0), len(its) - 1)]
    ev: dict = {}
    for e in rec["trace"]:
        if e[1] == "lock_acquired" and e[6] in blocks:
            ev.setdefault(e[6], []).append((e[0], e[5]))
    checked, probs = 0, []
    for pyid, lst in ev.items():
        acq = None
        for tick, new in lst:
            if new is True:
                acq = tick
            elif acq is not None:
                checked += 1
                if it(tick) - it(acq) > K:
                    probs.append(f"Block {blocks[pyid]} held the block lock for {it(tick) - it(acq)} interpreter ticks "
                                 f"(ticks {acq}..{tick}), bound {K}")
                acq = None
        if acq is not None and its[-1] - it(acq) > K:
            checked += 1
            probs.append(f"Block {blocks[pyid]} acquired the block lock at tick {acq} and still holds it "
                         f"{its[-1] - it(acq)} interpreter ticks later at the end of the run (bound {K})")
    return checked, probs


def stale_block_tag(rec, n_inj: int) -> str | None:
    """Block tag clause: at the end of the run the Block tag does not name a Block of the snippet that is not active
    (active = lock acquired and not ended, read from the trace)."""
    blocks = rec["injections"][n_inj].get("blocks") or {}
    tag = rec["block_tag"]
    if not tag or tag not in blocks.values():
        return None
    last: dict = {}
    for e in rec["trace"]:
        if e[6] in blocks and e[1] in ("lock_acquired", "block_ended"):
            last[(e[6], e[1])] = e[5]
    for pyid, name in blocks.items():
        if name == tag and last.get((pyid, "lock_acquired")) is True and last.get((pyid, "block_ended")) is not True:
            return None
    return f"Block tag is {tag!r} at the end of the run although no injected Block of that name is active"


def count_gen_coverage(res: Result, sn, rec, t: int, state: str, prefix: str = "gen"):
    """Which classes of generated snippets / injection positions were reached (REQUIRED counters)."""
    res.count(f"{prefix}_snippets_injected")
    if sn["depth"] >= 2:
        res.count(f"{prefix}_snippets_with_nested_blocks")
    if sn["depth"] >= 3:
        res.count(f"{prefix}_snippets_with_3_block_levels")
    for f in sn["feat"]:
        res.count(f"{prefix}_feat_{f}")
    if not sn["has_block"]:
        return
    acq = [e[0] for e in rec["trace"] if e[3] == "BlockNode" and not _neg(e[2]) and e[1] == "lock_acquired" and e[5] is True]
    if state in ("Paused", "Holding"):
        res.count(f"{prefix}_block_snippet_injected_while_paused_or_held")
    if t >= 2 and t - 2 < len(rec["locked_at"]) and rec["locked_at"][t - 2] > 0:
        res.count(f"{prefix}_block_snippet_injected_while_method_block_active")
    elif any(a > t for a in acq):
        res.count(f"{prefix}_block_snippet_injected_before_a_method_block")
    elif acq:
        res.count(f"{prefix}_block_snippet_injected_after_the_method_blocks")
    else:
        res.count(f"{prefix}_block_snippet_injected_into_method_without_blocks")


def check_multi(case, pt, ref, ref_part, method_ids, H, res: Result, viol):
    """One run with 2-3 injected snippets alive at the same time. Every snippet is judged by the statement on its own:
    labels exactly once within the bound (counted from its own injection; the bounds of the snippets injected before
    it are added, so that an engine that runs injected snippets one after the other is not blamed), its UOD command
    initialised once, run to completion, finalised; never twice; the method-line part equals the reference run."""
    text, traj = case["text"], case["traj"]
    sub = dict(case, only=pt)
    m = pt["multi"]
    sns = m["sns"]
    ts = [pt["t"]]
    for g in m["gaps"]:
        ts.append(ts[-1] + g)
    hold = m.get("hold")
    user = None
    if hold and pt["t"] - hold["lead"] >= 2:
        user = [(pt["t"] - hold["lead"], hold["cmd"]), (ts[-1] + hold["release"], "Un" + hold["cmd"].lower())]
        # the reference for this run has the same user commands and no injection
        ref = run_once(text, traj, H, user=user)
        if ref["errors"] or ref["tick_exc"] or len(ref["user"]) != 2 or not all(u[3] for u in ref["user"]):
            res.count("multi_hold_window_not_applicable")
            return
        ref_part = method_part(ref, method_ids)
    rec = run_once(text, traj, H, inject=[(t, sn["code"]) for t, sn in zip(ts, sns)], user=user)
    inj = rec["injections"]
    if len(inj) < len(sns):
        res.count("injection_point_not_reached")
        return
    if any(i["state"] in ("Stopped", "Restarting") for i in inj):
        res.count("injection_while_stopped_skipped")
        return
    desc = (f"{len(sns)} snippets injected at ticks {ts} ({[sn['kind'] for sn in sns]}, states "
            f"{[i['state'] for i in inj]}" + (f", user {user}" if user else "") + ")")
    if any(i["error"] for i in inj):
        viol.append((None, f"{desc}: inject_code raised for a well-formed snippet: {[i['error'] for i in inj]}", sub))
        return
    if rec["tick_exc"]:
        viol.append((None, f"{desc}: Engine.tick raised: {rec['tick_exc'][0]}", sub))
        return
    if user and [u[1:] for u in rec["user"]] != [u[1:] for u in ref["user"]]:
        viol.append((None, f"{desc}: user commands answered differently than in the run without injections: "
                           f"{rec['user']} vs {ref['user']}", sub))
        return
    res.count("multi_injection_runs")
    res.count("multi_injected_snippets", len(sns))
    if user:
        res.count("multi_runs_in_user_hold_or_pause_window")
    paused = [i["state"] in ("Paused", "Holding") for i in inj]
    if any(paused[1:]):
        res.count("multi_later_snippet_injected_while_paused_or_held")
    shared = injected_ids_shared(rec)
    final_marks = rec["marks_at"][-1]
    have_block = any(has_block(sn) for sn in sns)
    any_contention = False
    overlapped = False
    Kc = Kcmd_extra = 0
    for i, (t, sn) in enumerate(zip(ts, sns)):
        it0 = inj[i]["itick"]
        Kc += sn["K"]
        # a Block of a snippet injected later may take the block lock first: its bound is added for Block snippets
        Kb = Kc + (sum(sj["K"] for sj in sns[i + 1:] if has_block(sj)) if has_block(sn) else 0)
        gen = sn["kind"] == "gen"
        if gen:
            count_gen_coverage(res, sn, rec, t, inj[i]["state"], prefix="multi_gen")
        Kcmd_extra += max([CMD_EXTRA[c] for c in sn["cmds"]] or [0])
        # was an earlier snippet still unfinished when this one arrived? (marks_at index 0 = tick 2)
        if i > 0:
            before = rec["marks_at"][t - 2] if t >= 2 else ()
            for tj, sj in list(zip(ts, sns))[:i]:
                if labels_missing(sj, before) or any(
                        not any(c[2] == name and c[1] == "fin" and tj < c[0] <= t for c in rec["cmdlog"]) for name in sj["cmds"]):
                    overlapped = True
        who = f"snippet #{i + 1} ({sn['kind']}, injected at tick {t}, state {inj[i]['state']})"
        twice = labels_excess(sn, final_marks)
        if twice:
            viol.append(("C14.injected_snippets_share_node_ids" if shared else "C14.injected_label_twice",
                         f"{desc}: {who}: label(s) {twice} appended more often than the snippet says: {final_marks}"
                         + (f"; snippet {sn['code']!r}" if gen else ""), sub))
        ooo = order_problem(sn, final_marks)
        if ooo:
            viol.append(("C14.injected_snippets_share_node_ids" if shared else "C14.injected_lines_out_of_order",
                         f"{desc}: {who}: {ooo}; snippet {sn['code']!r}", sub))
        deadline_idx = next((k for k, v in enumerate(rec["iticks_at"]) if v - it0 >= Kb), None)
        cmd_deadline_idx = next((k for k, v in enumerate(rec["iticks_at"]) if v - it0 >= Kb + Kcmd_extra), None)
        contention = has_block(sn) and any(
            rec["locked_at"][k] > 0 for k in range(max(0, t - 2), min(len(rec["locked_at"]), (deadline_idx or 0) + 1)))
        any_contention = any_contention or contention
        if deadline_idx is None:
            res.count("bound_not_reached_in_horizon")
        elif contention:
            res.count("bound_ambiguous_block_lock_contention")
        else:
            res.count("multi_label_bound_checks")
            at = rec["marks_at"][deadline_idx]
            missing = labels_missing(sn, at)
            if missing:
                viol.append(("C14.injected_snippets_share_node_ids" if shared else "C14.injected_label_not_once_within_bound",
                             f"{desc}: {who}: label(s) {missing} not {'as often as the snippet says' if gen else 'exactly once'}"
                             f" after {Kb} interpreter ticks; marks then: {at}"
                             + (f"; snippet {sn['code']!r}" if gen else ""), sub))
            if gen:
                res.count("multi_gen_label_bound_and_order_checks")
                if sn["depth"] >= 2:
                    res.count("multi_gen_nested_block_label_bound_checks")
        if has_block(sn):
            nchk, probs = lock_hold_problems(rec, i, sn["K"])
            res.count("multi_injected_block_lock_hold_checks", nchk)
            if sn.get("depth", 1) >= 2:
                res.count("multi_injected_nested_block_lock_hold_checks", nchk)
            for pr in probs[:1]:
                viol.append(("C14.injected_snippets_share_node_ids" if shared else "C14.injected_block_keeps_block_lock",
                             f"{desc}: {who}: {pr}; snippet {sn['code']!r}", sub))
            stale = stale_block_tag(rec, i)
            if stale:
                viol.append(("C14.injected_snippets_share_node_ids" if shared else "C14.block_tag_names_inactive_injected_block",
                             f"{desc}: {who}: {stale}; snippet {sn['code']!r}", sub))
        if sn["cmds"] and cmd_deadline_idx is not None and not contention:
            res.count("multi_uod_finalize_checks")
            upto = cmd_deadline_idx + 2
            probs = []
            for name in sn["cmds"]:
                log = [c for c in rec["cmdlog"] if c[2] == name and c[0] > t]
                inits = [c for c in log if c[1] == "init"]
                fins = [c for c in log if c[1] == "fin"]
                execs = [c[4] for c in log if c[1] == "exec"]
                if len(inits) != 1:
                    probs.append(f"{name}: {len(inits)} init")
                elif len(fins) != 1 or fins[0][0] > upto:
                    probs.append(f"{name}: {len(fins)} finalize" + (f" (at tick {fins[0][0]} > {upto})" if fins else ""))
                elif execs != CMD_WANT[name]:
                    probs.append(f"{name}: exec iterations {execs} != {CMD_WANT[name]}")
                elif fins[0][3] != inits[0][3]:
                    probs.append(f"{name}: finalize on another instance than init")
                if name in rec["instances"]:
                    probs.append(f"{name}: instance still registered at the end")
            if probs:
                viol.append(("C14.injected_snippets_share_node_ids" if shared else "C14.injected_command_not_completed",
                             f"{desc}: {who}: " + "; ".join(probs), sub))
    if overlapped:
        res.count("multi_runs_with_overlapping_lifetimes")
    # ---------------- differential on the method-line part
    got = method_part(rec, method_ids)
    if rec["errors"]:
        viol.append(("C14.injected_snippets_share_node_ids" if shared else "C14.injection_caused_method_error",
                     f"{desc}: run paused by {rec['errors'][0]} although the reference run has no error", sub))
    elif got == ref_part:
        res.count("multi_differential_exact_equal")
    else:
        res.count("differential_timing_differs")
        res.count("differential_timing_differs_multi")
        amb = any_contention or (have_block and ref["method_has_block"]) or \
            (any(shifts_clocks(sn) for sn in sns) and method_has_threshold(text))
        if amb and not stall_insensitive(text, traj, ref):
            res.count("differential_ambiguous_block_lock_contention")
        else:
            if amb:
                res.count("differential_judged_under_block_lock_contention")
            what = untimed_difference(ref, ref_part, got)
            if what:
                viol.append(("C14.injected_snippets_share_node_ids" if shared else "C14.method_lines_changed_by_injection",
                             f"{desc}: method-line {what} differ from the reference run (ref marks {ref_part[1][-1]}, got "
                             f"{got[1][-1]}; ref state {sorted(map(sorted, ref_part[3]))} got "
                             f"{sorted(map(sorted, got[3]))})"[:900], sub))
            else:
                res.count("differential_equal_untimed")
    st, ex, fl = rec["inject_ms"]
    progress = len((st | ex | fl) - {"root"})
    nontrivial = (0 < progress < rec["inject_nlines"]) or any(paused)
    phase = "early" if progress <= 1 else "late" if progress >= rec["inject_nlines"] - 1 else "mid"
    key = (shape_hash(text), "multi", tuple(sn["kind"] if sn["kind"] != "gen" else ("gen", tuple(sn["feat"])) for sn in sns),
           tuple(m["gaps"]), phase, tuple(paused),
           hold["cmd"] if user else None) if nontrivial else None
    res.count("interp_ticks_counted", rec["iticks_at"][-1] if rec["iticks_at"] else 0)
    res.case(key, sample={"method": text, "inject_ticks": ts, "snippets": [sn["code"] for sn in sns], "user": user,
                          "states_at_injection": [i["state"] for i in inj], "marks": list(final_marks)[:16]})


# ------------------------------------------------------------------------------------------------ monitor
def check_case(case: dict, res: Result):
    text, traj = case["text"], case["traj"]
    rnd = random.Random(case["sub"])
    viol: list[tuple[str | None, str, dict]] = []
    KMAX = 4 + 3 * 4 + 3 + LONG_N + 8
    ref0 = run_once(text, traj, 150)
    if ref0["errors"] or ref0["tick_exc"]:
        res.count("methods_skipped_reference_error")
        res.case(None, sample={"method": text, "skipped": "reference run ends in error", "errors": ref0["errors"][:1]})
        return
    q = min(quiescence(ref0), 110)
    H0 = q + KMAX + 12
    ref = run_once(text, traj, H0)
    method_ids = ref["method_ids"]
    refs = {H0: (ref, method_part(ref, method_ids))}

    def horizon(sns):
        """Generated snippets need a longer run: their bounds, their commands, and 30 ticks for method lines that were
        held up meanwhile (an injected Block restarts Block Time, the clock of the method's thresholds). Rounded up to
        a multiple of 16 so that a few reference runs per method serve all points."""
        if not any(sn["kind"] == "gen" for sn in sns):
            return H0
        need = sum(sn["K"] for sn in sns) + sum(max([CMD_EXTRA[c] for c in sn["cmds"]] or [0]) for sn in sns)
        h = q + max(KMAX, need) + 30
        return max(H0, -(-h // 16) * 16)

    def reference(h):
        if h not in refs:
            r = run_once(text, traj, h)
            refs[h] = (r, method_part(r, method_ids))
        return refs[h]
    lines = [(f"L{i}", c) for i, c in enumerate(text.split("\n")[:-1])]
    only = case.get("only")
    points = [only] if only else []
    if not only:
        t = 1 + rnd.randrange(case["step"])
        n = 0
        while t <= q + 3:
            sn = snippet(rnd, str(n))
            if rnd.random() < GEN_SHARE:
                sn = gen_snippet(rnd, str(n))
            d = rnd.choice([None, None, None, None, None, "multi", "multi", 0, 1, 2, 3, 4, 6])
            if d == "multi":
                # 2-3 snippets whose lifetimes overlap; sometimes inside a Hold / Pause window opened by the user
                sns, gaps = multi_snippets(rnd, str(n))
                hold = None
                if rnd.random() < 0.25:
                    hold = {"cmd": rnd.choice(["Hold", "Pause"]), "lead": rnd.choice([1, 2]), "release": rnd.choice([1, 2, 3, 5])}
                points.append({"t": t, "multi": {"sns": sns, "gaps": gaps, "hold": hold}})
            else:
                points.append({"t": t, "sn": sn, "edit_delay": d})
            t += case["step"]
            n += 1
    for pt in points:
        if "multi" in pt:
            H = horizon(pt["multi"]["sns"])
            ref, ref_part = reference(H)
            check_multi(case, pt, ref, ref_part, method_ids, H, res, viol)
            continue
        t, sn, d = pt["t"], pt["sn"], pt["edit_delay"]
        H = horizon([sn])
        ref, ref_part = reference(H)
        gen = sn["kind"] == "gen"
        sub = dict(case, only=pt)
        edit = None
        if d is not None:
            edit = (t + d, lines + [("Lz", "Mark: zz")])
        rec = run_once(text, traj, H, inject=(t, sn["code"]), edit=edit)
        if rec["inject_itick"] is None:
            res.count("injection_point_not_reached")
            continue
        if rec["inject_state"] in ("Stopped", "Restarting"):
            res.count("injection_while_stopped_skipped")
            continue
        if rec["inject_error"]:
            viol.append((None, f"inject_code raised for a well-formed snippet at tick {t}: {rec['inject_error']}", sub))
            continue
        if rec["tick_exc"]:
            viol.append((None, f"Engine.tick raised after injection at tick {t}: {rec['tick_exc'][0]}", sub))
            continue
        paused_at_inject = rec["inject_state"] in ("Paused", "Holding")
        if paused_at_inject:
            res.count("injections_while_paused_or_held")
        st, ex, fl = rec["inject_ms"]
        progress = len((st | ex | fl) - {"root"})
        nontrivial = (progress > 0 and progress < rec["inject_nlines"]) or paused_at_inject
        phase = "early" if progress <= 1 else "late" if progress >= rec["inject_nlines"] - 1 else "mid"
        key = (shape_hash(text), sn["kind"], phase, paused_at_inject, d) if nontrivial else None
        # ---------------- injected effects
        final_marks = rec["marks_at"][-1]
        it0 = rec["inject_itick"]
        # first tick index (0-based in marks_at) at which K interpreter ticks have elapsed since the injection
        deadline_idx = next((i for i, v in enumerate(rec["iticks_at"]) if v - it0 >= sn["K"]), None)
        cmd_extra = max([CMD_EXTRA[c] for c in sn["cmds"]] or [LONG_N + 2])
        cmd_deadline_idx = next((i for i, v in enumerate(rec["iticks_at"]) if v - it0 >= sn["K"] + cmd_extra), None)
        twice = labels_excess(sn, final_marks)
        if twice:
            viol.append(("C14.injected_label_twice", f"injected at tick {t} ({sn['kind']}): label(s) {twice} appended "
                         f"more often than the snippet says: {final_marks}"
                         + (f"; snippet {sn['code']!r}" if gen else ""), sub))
        ooo = order_problem(sn, final_marks)
        if ooo:
            viol.append(("C14.injected_lines_out_of_order", f"injected at tick {t} ({sn['kind']}): {ooo}; snippet "
                         f"{sn['code']!r}", sub))
        if gen:
            count_gen_coverage(res, sn, rec, t, rec["inject_state"])
        lock_contention = has_block(sn) and any(
            rec["locked_at"][i] > 0 for i in range(max(0, t - 2), min(len(rec["locked_at"]), (deadline_idx or 0) + 1)))
        missing = []
        if deadline_idx is None:
            res.count("bound_not_reached_in_horizon")       # too few interpreter ticks (long pause); not judged
        else:
            at = rec["marks_at"][deadline_idx]
            missing = labels_missing(sn, at)
        cmd_problems = []
        if sn["cmds"] and cmd_deadline_idx is not None:
            upto = cmd_deadline_idx + 2      # rig tick number of that index (index 0 = tick 2, tick 1 is rig.start())
            for name in sn["cmds"]:
                log = [c for c in rec["cmdlog"] if c[2] == name and c[0] > t]
                inits = [c for c in log if c[1] == "init"]
                fins = [c for c in log if c[1] == "fin"]
                execs = [c[4] for c in log if c[1] == "exec"]
                # get_iteration_count() is 0-based at the time of the exec callback; long_exec completes at >= LONG_N
                want = CMD_WANT[name]
                if len(inits) != 1:
                    cmd_problems.append(f"{name}: {len(inits)} init")
                elif len(fins) != 1 or fins[0][0] > upto:
                    cmd_problems.append(f"{name}: {len(fins)} finalize" + (f" (at tick {fins[0][0]} > {upto})" if fins else ""))
                elif execs != want:
                    cmd_problems.append(f"{name}: exec iterations {execs} != {want}")
                elif fins[0][3] != inits[0][3]:
                    cmd_problems.append(f"{name}: finalize on another instance than init")
                if name in rec["instances"]:
                    cmd_problems.append(f"{name}: instance still registered at the end")
        # accepted merge between the injection and its completion?
        merged = isinstance(rec["edit_result"], str) and rec["edit_result"] in ("merge_method", "set_method")
        if d is None:
            res.count("injections_no_edit")
            if deadline_idx is not None:
                if lock_contention:
                    res.count("bound_ambiguous_block_lock_contention")
                else:
                    res.count("label_bound_checks")
                    if missing and block_shape(sn, rec, missing):
                        viol.append(("C14.injected_block_never_ends",
                                     f"injected at tick {t} ({sn['kind']}): the injected `End block` completed but did not end "
                                     f"the injected Block (it is not part of the program that End block searches); code after "
                                     f"the block never ran: missing {missing}, marks {rec['marks_at'][deadline_idx]}", sub))
                    elif missing:
                        viol.append(("C14.injected_label_not_once_within_bound",
                                     f"injected at tick {t} ({sn['kind']}, state {rec['inject_state']}): label(s) {missing} "
                                     f"not {'as often as the snippet says' if gen else 'exactly once'} after K={sn['K']} "
                                     f"interpreter ticks; marks then: {rec['marks_at'][deadline_idx]}"
                                     + (f"; snippet {sn['code']!r}" if gen else ""), sub))
                    if gen:
                        res.count("gen_label_bound_and_order_checks")
                        if sn["depth"] >= 2:
                            res.count("gen_nested_block_label_bound_checks")
            if has_block(sn):
                # block lock / Block tag released when the snippet's blocks have ended (also after a wait for a method block)
                nchk, probs = lock_hold_problems(rec, 0, sn["K"])
                res.count("injected_block_lock_hold_checks", nchk)
                if sn.get("depth", 1) >= 2:
                    res.count("injected_nested_block_lock_hold_checks", nchk)
                for pr in probs[:1]:
                    viol.append(("C14.injected_block_keeps_block_lock", f"injected at tick {t} ({sn['kind']}): {pr}; "
                                 f"snippet {sn['code']!r}", sub))
                stale = stale_block_tag(rec, 0)
                res.count("injected_block_tag_checks")
                if stale:
                    viol.append(("C14.block_tag_names_inactive_injected_block", f"injected at tick {t} ({sn['kind']}): "
                                 f"{stale}; snippet {sn['code']!r}", sub))
            if sn["cmds"] and cmd_deadline_idx is not None and not lock_contention:
                res.count("uod_finalize_checks")
                if cmd_problems:
                    viol.append(("C14.injected_command_not_completed", f"injected at tick {t} ({sn['kind']}): "
                                 + "; ".join(cmd_problems), sub))
            # ---------------- differential on the method-line part
            got = method_part(rec, method_ids)
            if rec["errors"]:
                viol.append(("C14.injected_block_never_ends" if sn["kind"] == "block" and
                             injected_end_block_ended_method_block(rec) else
                             "C14.injection_caused_method_error", f"injected at tick {t} ({sn['kind']}): run paused by "
                             f"{rec['errors'][0]} although the reference run has no error", sub))
            elif got == ref_part:
                res.count("differential_exact_equal")
            else:
                res.count("differential_timing_differs")
                res.count("differential_timing_differs_kind_" + sn["kind"])
                amb = lock_contention or (has_block(sn) and ref["method_has_block"]) or \
                    (shifts_clocks(sn) and method_has_threshold(text))
                if amb and not stall_insensitive(text, traj, ref):
                    res.count("differential_ambiguous_block_lock_contention")
                else:
                    if amb:
                        res.count("differential_judged_under_block_lock_contention")
                    what = untimed_difference(ref, ref_part, got)
                    if what:
                        stuck = sn["kind"] == "block" and injected_block_never_ended(rec) and rec["block_tag"] == "jblk"
                        viol.append(("C14.injected_block_never_ends" if stuck else "C14.method_lines_changed_by_injection",
                                     f"injected at tick {t} ({sn['kind']}): method-line {what} differ from the reference run "
                                     f"(ref marks {ref_part[1][-1]}, got {got[1][-1]}; ref state {sorted(map(sorted, ref_part[3]))} "
                                     f"got {sorted(map(sorted, got[3]))})"[:900], sub))
                    else:
                        res.count("differential_equal_untimed")
        else:
            res.count("injections_with_edit")
            res.count(f"edit_result_{str(rec['edit_result']).split(':')[0][:24]}")
            incomplete = bool(missing) or bool(cmd_problems)
            if deadline_idx is None:
                pass
            elif not incomplete:
                res.count("edit_injection_complete")
            elif not cmd_problems and block_shape(sn, rec, missing):
                viol.append(("C14.injected_block_never_ends",
                             f"injected at tick {t} ({sn['kind']}, edit {rec['edit_result']} at {rec['edit_tick']}): injected "
                             f"End block did not end the injected Block; missing {missing}", sub))
            elif merged:
                # was the injected code already complete when the edit arrived? then the edit cannot be the cause
                ei = rec["edit_tick"] - 2          # index of the last tick before the edit (index 0 = tick 2)
                done_before = ei >= 0 and not labels_missing(sn, rec["marks_at"][ei]) and all(
                    any(c[2] == name and c[1] == "fin" and t < c[0] <= rec["edit_tick"] for c in rec["cmdlog"])
                    for name in sn["cmds"])
                if done_before:
                    viol.append((None, f"injected at tick {t} ({sn['kind']}), complete before the edit at tick "
                                 f"{rec['edit_tick']}, but afterwards: missing {missing} {cmd_problems}", sub))
                elif rec["edit_result"] == "merge_method" and not dropped_by_edit(sn, rec):
                    viol.append((None, f"injected at tick {t} ({sn['kind']}), merge at tick {rec['edit_tick']}: the merge did "
                                 f"not drop an injected interrupt / command request ({rec['inj_intr_before']}->"
                                 f"{rec['inj_intr_after']} injected interrupts, command manager replaced: "
                                 f"{rec['cm_replaced']}), yet the injected code did not complete: missing {missing} "
                                 f"{cmd_problems}", sub))
                elif rec["edit_result"] == "merge_method":
                    viol.append(("C14.injection_lost_on_live_edit",
                                 f"injected at tick {t} ({sn['kind']}), live edit (merge) at tick {rec['edit_tick']} before the "
                                 f"injected code had completed: missing labels {missing}, commands: {cmd_problems}; marks "
                                 f"{final_marks}", sub))
                elif rec["pre_edit_actual_started"] > 0 or not dropped_by_edit(sn, rec):
                    viol.append((None, f"injected at tick {t} ({sn['kind']}), edit at tick {rec['edit_tick']} returned set_method "
                                 f"with {rec['pre_edit_actual_started']} started nodes; injected code incomplete: {missing} "
                                 f"{cmd_problems}", sub))
                else:
                    viol.append(("C14.injection_lost_on_set_method_before_first_line",
                                 f"injected at tick {t} ({sn['kind']}), edit at tick {rec['edit_tick']} took the set_method path "
                                 f"({rec['pre_edit_actual_started']} started nodes) and dropped the pending injected code: "
                                 f"missing {missing} {cmd_problems}", sub))
            else:
                viol.append((None, f"injected at tick {t} ({sn['kind']}), edit result {rec['edit_result']!r}: injected code "
                             f"incomplete without an accepted edit: missing {missing} {cmd_problems}", sub))
        res.count("interp_ticks_counted", rec["iticks_at"][-1] if rec["iticks_at"] else 0)
        if gen and key is not None:
            key = key + (tuple(sn["feat"]), sn["depth"])
        res.case(key, sample={"method": text, "inject_tick": t, "snippet": sn["code"], "edit_delay": d,
                              "state_at_injection": rec["inject_state"], "marks": list(final_marks)[:14],
                              "edit_result": rec["edit_result"]})
    seen = set()
    for mech, msg, sub in viol:
        if (mech, msg) in seen:
            continue
        seen.add((mech, msg))
        res.violation(mech, msg, sub)


def run_shard(spec):
    res = Result()
    rnd = random.Random(spec["seed"])
    for _ in range(spec["n"]):
        check_case(gen_case(rnd, spec["step"], spec.get("max_depth", 3)), res)
    return res


def replay(case):
    res = Result()
    check_case(case, res)
    return res
