"""C18 - Instruction lines decompose into exactly their parts.

Inverse-of-generator oracle: lines are composed from known parts by this module, parsed by the real parser inside a
correctly indented scaffold, and the node fields must give back exactly the parts (see DESIGN.md C18)."""
from __future__ import annotations

import itertools
import random

from opv.core import Result

ID = "C18"
LEVEL = "exploration"
TECHNIQUE = "runtime monitoring: inverse-of-generator oracle on the fields of the node the real parser builds for a composed line"
RULE = ("lines composed from (indent 4*{0..4}, optional threshold d+(.d+)? + one space, instruction name (all built-in "
        "names, UOD names with spaces/digits/punctuation, unknown names; never starting with a digit), optional ': ' "
        "argument without '#', optional comment), 0-2 extra spaces around every part; for Watch/Alarm (six operators) "
        "and Simulate ('=') the argument is tag op value [unit] with tag names with spaces, value classes {int, "
        "decimal, leading-dot, trailing-dot, exponent, negative, plus-signed, free text starting with a letter}, unit "
        "in {none} + every unit of QUANTITY_UNIT_MAP. Part (p): full product instruction x operator x unit x value class "
        "x 3 spacings; part (r): random compositions. distinct = (name class, threshold?, argument?, comment?, operator, "
        "unit, value class, spacing); non-trivial = line has at least two optional parts or a condition")
ASSUMPTIONS = [
    "well-formed line as in docs/src/Introduction.rst: indentation in multiples of four spaces, threshold followed by "
    "exactly one space, name directly followed by ': ' when an argument is present, comment introduced by '#'",
    "not asserted (ambiguous): values containing operator characters or '#', names starting with a digit, free-text "
    "values followed by a unit, empty arguments ('Mark:'), trailing whitespace of comments, the operator '=='",
    "arguments / tag / value are compared after stripping surrounding spaces (the statement speaks of parts, not of "
    "the blanks between them)",
    "the line is parsed as the last line of a correctly indented scaffold of Block lines (same entry point as the "
    "engine: create_method_parser(method, uod_command_names).parse_method)",
]
REQUIRED = {"lines_checked": 5000, "condition_lines_checked": 3000, "product_cases": 2000, "units_covered": 50,
            "operators_covered": 6}
EXHAUSTIVE_ALL = False

OPS = ["<", "<=", ">", ">=", "=", "!="]
UOD_NAMES = ["Short", "Inlet valve", "PU01 speed", "Set flow rate 2", "Flow-rate", "CO2 %", "Valve (A)", "a", "x_y", "_tmp"]
BUILTIN = ["Mark", "Block", "End block", "End blocks", "Macro", "Call macro", "Batch", "Base", "Increment run counter",
           "Run counter", "Wait", "Stop", "Pause", "Unpause", "Hold", "Unhold", "Restart", "Info", "Warning", "Error",
           "Notify", "Simulate off"]
UNKNOWN = ["Frobnicate", "Marks", "Watch out", "Blok", "End", "Simulate on", "zz top 9"]
NOARG = {"End block", "End blocks", "Increment run counter", "Stop", "Unpause", "Unhold", "Restart"}
ARGS = ["a", "A1", "0.5s", "3 min", "my label 7", "a: b", "x, y; z?", "10 %", "L", "VA01+VA02", "-3.5 L/h", "it's (ok) [1]",
        "\u00b0C 5", "tag = 4"]
TAGS = ["X", "FT01", "Run Counter", "Block Time", "Column pressure 2", "a", "TT_01", "Flow-rate", "CO2 %", "pH.1"]
COMMENTS = ["c", "a comment", "with # hash and : colon", "1.0 Mark: x", "", "\u00b5 units", "trailing!?"]
VALUE_CLASSES = ["int", "decimal", "leading_dot", "trailing_dot", "exponent", "negative", "plus", "text"]
TEXT_VALUES = ["Open", "VA01 open", "Closed now", "a", "Running"]


def all_units():
    from openpectus.lang.exec.units import QUANTITY_UNIT_MAP
    out = []
    for v in QUANTITY_UNIT_MAP.values():
        for u in v:
            if u not in out:
                out.append(u)
    return out


def value_of(cls: str, rnd: random.Random) -> str:
    d = rnd.randint(0, 999)
    f = rnd.randint(0, 99)
    return {"int": f"{d}", "decimal": f"{d}.{f}", "leading_dot": f".{f}", "trailing_dot": f"{d}.",
            "exponent": rnd.choice([f"{d}e{rnd.randint(0, 5)}", f"{d}.{f}E-{rnd.randint(1, 3)}", f"{d}e+2"]),
            "negative": rnd.choice([f"-{d}", f"-{d}.{f}", f"-.{f}"]), "plus": f"+{d}.{f}",
            "text": rnd.choice(TEXT_VALUES)}[cls]


def sp(rnd, spacing):
    """spacing: 0 = minimal, 1 = single blanks, 2 = random 0..2"""
    if spacing == 0:
        return ""
    if spacing == 1:
        return " "
    return " " * rnd.randint(0, 2)


def compose(parts: dict, rnd: random.Random, spacing: int) -> str:
    s = " " * parts["indent"]
    if parts["threshold"] is not None:
        s += parts["threshold"] + " "
    s += parts["name"]
    if parts.get("cond"):
        c = parts["cond"]
        arg = c["tag"] + sp(rnd, spacing) + c["op"] + sp(rnd, spacing) + c["value"]
        if c["unit"] is not None:
            arg += sp(rnd, spacing) + c["unit"]
        parts["argument"] = arg
    if parts["argument"] is not None:
        s += ": " + (sp(rnd, spacing) if spacing == 2 else "") + parts["argument"]
    if parts["comment"] is not None:
        s += sp(rnd, spacing) + "#" + sp(rnd, spacing) + parts["comment"]
    elif spacing == 2 and rnd.random() < 0.3:
        s += " " * rnd.randint(1, 2)     # trailing blanks after the last part
    return s


def check_line(parts: dict, line: str, res: Result, origin: str):
    from openpectus.lang.model.parser import ParserMethod, ParserMethodLine, create_method_parser
    import openpectus.lang.model.ast as p

    depth = parts["indent"] // 4
    scaffold = [(f"S{i}", " " * (4 * i) + f"Block: s{i}") for i in range(depth)]
    lines = scaffold + [("T", line)]
    case = {"origin": origin, "line": line, "parts": parts}
    method = ParserMethod([ParserMethodLine(i, c) for i, c in lines])
    try:
        prog = create_method_parser(method, list(UOD_NAMES)).parse_method(method)
        node = prog.get_all_nodes()[-1]
    except Exception as ex:
        res.violation(None, f"parse raised {type(ex).__name__}: {ex}"[:300], case)
        res.case(None)
        return
    res.count("lines_checked")
    diffs = []

    def cmp(field, got, want):
        if got != want:
            diffs.append((field, got, want))

    cmp("id", node.id, "T")
    cmp("position.character", node.position.character, parts["indent"])
    cmp("indent_error", bool(node.indent_error), False)
    cmp("threshold", node.threshold, None if parts["threshold"] is None else float(parts["threshold"]))
    cmp("threshold_part", node.threshold_part, parts["threshold"] or "")
    cmp("instruction_name", node.instruction_name, parts["name"])
    cmp("arguments", node.arguments, (parts["argument"] or "").strip())
    cmp("has_argument", bool(node.has_argument), parts["argument"] is not None)
    cmp("has_comment", bool(node.has_comment), parts["comment"] is not None)
    cmp("comment_part", node.comment_part, parts["comment"] or "")
    cond = parts.get("cond")
    if cond:
        res.count("condition_lines_checked")
        res.count("op " + cond["op"])
        tov = getattr(node, "tag_operator_value", None)
        if not isinstance(node, p.NodeWithTagOperatorValue) or tov is None:
            diffs.append(("tag_operator_value", None, "present"))
        else:
            cmp("tag_name", tov.tag_name, cond["tag"])
            cmp("op", tov.op, cond["op"])
            cmp("tag_value", tov.tag_value, cond["value"])
            cmp("tag_unit", tov.tag_unit, cond["unit"])
            if cond["cls"] != "text":
                cmp("tag_value_numeric", tov.tag_value_numeric, float(cond["value"]))
    if diffs:
        res.violation(classify(parts, diffs, node), "line %r: " % line + "; ".join(
            f"{f}: got {g!r}, composed from {w!r}" for f, g, w in diffs), case)
    key = None
    n_opt = sum(parts[k] is not None for k in ("threshold", "argument", "comment"))
    if cond or n_opt >= 2:
        key = (parts["name_class"], parts["threshold"] is not None, parts["argument"] is not None,
               parts["comment"] is not None, cond["op"] if cond else None, cond["unit"] if cond else None,
               cond["cls"] if cond else None, parts["spacing"], parts["indent"])
    res.case(key, sample={"line": line, "parts": {k: v for k, v in parts.items() if k != "name_class"}})


def classify(parts, diffs, node):
    """Two narrow classifiers; both require that every part except value/unit/numeric value came back right.

    C18.non_ascii_unit_not_recognised: composed unit contains a non-ASCII character, parser reports no unit and keeps
    the whole right-hand side (value, blanks, unit) as a string value.
    C18.number_suffix_taken_as_unit: composed without unit, numeric value; parser reports a unit made only of the
    characters e, E, 2, 3 and value + unit concatenated give back the composed number (the with-unit pattern is tried
    first and its unit class contains the digits 2 and 3, so regex backtracking splits '142' into 14|2, '0.2' into
    0.|2 and '1.5e3' into 1.5|e3)."""
    cond = parts.get("cond")
    if not cond:
        return None
    fields = {f for f, _, _ in diffs}
    if not fields <= {"tag_unit", "tag_value", "tag_value_numeric"} or "tag_unit" not in fields:
        return None
    tov = node.tag_operator_value
    if cond["unit"] is not None and not cond["unit"].isascii():
        if tov.tag_unit is None and tov.tag_value is not None and tov.tag_value.startswith(cond["value"]) \
                and tov.tag_value.endswith(cond["unit"]) \
                and tov.tag_value[len(cond["value"]):-len(cond["unit"])].strip() == "":
            return "C18.non_ascii_unit_not_recognised"
        return None
    if cond["unit"] is None and cond["cls"] != "text" and tov.tag_unit and set(tov.tag_unit) <= set("eE23") \
            and tov.tag_value is not None and tov.tag_value + tov.tag_unit == cond["value"]:
        return "C18.number_suffix_taken_as_unit"
    return None


# ------------------------------------------------------------------------------------------------ workloads
def product_specs():
    units = [None] + all_units()
    out = []
    for name in ("Watch", "Alarm"):
        for op in OPS:
            for unit in units:
                for cls in VALUE_CLASSES:
                    if cls == "text" and unit is not None:
                        continue
                    out.append((name, op, unit, cls))
    for unit in units:
        for cls in VALUE_CLASSES:
            if cls == "text" and unit is not None:
                continue
            out.append(("Simulate", "=", unit, cls))
    return out


def random_parts(rnd: random.Random) -> dict:
    r = rnd.random()
    parts = {"indent": 4 * rnd.randint(0, 4), "threshold": None, "argument": None, "comment": None, "cond": None}
    if rnd.random() < 0.4:
        parts["threshold"] = rnd.choice([f"{rnd.randint(0, 120)}", f"{rnd.randint(0, 99)}.{rnd.randint(0, 999)}", "0", "0.0",
                                         "007", "12.50"])
    if rnd.random() < 0.4:
        parts["comment"] = rnd.choice(COMMENTS)
    if r < 0.45:
        name = rnd.choice(["Watch", "Alarm", "Simulate"])
        parts["name"], parts["name_class"] = name, name
        cls = rnd.choice(VALUE_CLASSES)
        unit = None if cls == "text" or rnd.random() < 0.25 else rnd.choice(all_units())
        parts["cond"] = {"tag": rnd.choice(TAGS), "op": "=" if name == "Simulate" else rnd.choice(OPS),
                         "value": value_of(cls, rnd), "unit": unit, "cls": cls}
    else:
        if r < 0.70:
            parts["name"], parts["name_class"] = rnd.choice(BUILTIN), "builtin"
        elif r < 0.90:
            parts["name"], parts["name_class"] = rnd.choice(UOD_NAMES), "uod"
        else:
            parts["name"], parts["name_class"] = rnd.choice(UNKNOWN), "unknown"
        if parts["name"] not in NOARG and rnd.random() < 0.7:
            parts["argument"] = rnd.choice(ARGS)
    return parts


def plan(tier, seed):
    n_prod = len(product_specs())
    if tier == "quick":
        shards, n_rand = 8, 48000
    else:
        shards, n_rand = 32, 1000000
    specs = []
    for i in range(shards):
        specs.append({"seed": seed * 1000003 + i, "shard": i, "shards": shards, "n": n_rand // shards,
                      "reps": 1 if tier == "quick" else 4, "n_prod": n_prod})
    return specs


def run_shard(spec):
    res = Result()
    rnd = random.Random(spec["seed"])
    prod = product_specs()
    for rep in range(spec["reps"]):
        for idx, (name, op, unit, cls) in enumerate(prod):
            if idx % spec["shards"] != spec["shard"]:
                continue
            for spacing in (0, 1, 2):
                parts = {"indent": 4 * ((idx + rep) % 5), "threshold": None, "argument": None, "comment": None,
                         "name": name, "name_class": name, "spacing": spacing,
                         "cond": {"tag": TAGS[(idx + rep) % len(TAGS)], "op": op, "value": value_of(cls, rnd), "unit": unit,
                                  "cls": cls}}
                if (idx + spacing + rep) % 3 == 0:
                    parts["threshold"] = "1.5"
                if (idx + spacing + rep) % 4 == 0:
                    parts["comment"] = "note"
                res.count("product_cases")
                check_line(parts, compose(parts, rnd, spacing), res, "product")
    if spec["shard"] == 0:
        units = all_units()
        res.count("units_covered", len(units))
        res.count("operators_covered", len(OPS))
        res.exhaustive_parts.append(f"full product {{Watch, Alarm}} x {len(OPS)} operators x ({len(units)} units + none) x "
                                    f"{len(VALUE_CLASSES)} value classes x 3 spacings, and Simulate with '=' (free text "
                                    "only without unit)")
    for _ in range(spec["n"]):
        parts = random_parts(rnd)
        parts["spacing"] = 2 if rnd.random() < 0.6 else 1
        check_line(parts, compose(parts, rnd, parts["spacing"]), res, "random")
    return res


def replay(case):
    res = Result()
    check_line(case["parts"], case["line"], res, "replay")
    return res
