"""C01 - Live method edits never re-run or lose run progress.

Per generated method: one base run without edits (per-tick digests), then one edited run per edit point. The edit
script (1-3 edits) is generated on-line from the method state reported at edit time. Oracle parts (DESIGN.md C01):
  (i)   per-line start counts across the edits, from node-state descriptor events keyed by node id
  (ii)  method state superset at the call boundary of Engine.set_method (reported state and the interpreter's own nodes)
  (iii) an edit that changes a started/completed line (its text, its indentation, blanking / commenting it out) or that
        types an instruction into a blank/comment line the run has already passed raises MethodEditError, leaves a deep
        observable snapshot and the reported method state unchanged, and the continuation equals the base run tick by tick
  (iv)  differential: a second engine runs the final method from the start; per line id the effects must agree
plus "merge vs set chosen correctly". The known defect "the merge carries nothing over" is recognised by a narrow
classifier at the call boundary; the case is not evaluated further after it (everything later is its consequence)."""
from __future__ import annotations

import gc
import random
import re
from collections import Counter

from opv.core import Result
from opv.gen_pcode import shape_hash

ID = "C01"
LEVEL = "exploration"
TECHNIQUE = ("runtime monitoring: call-boundary state monitor on Engine.set_method, snapshot/continuation equality for "
             "rejected edits, start-count trace invariant and differential run of the final method")
RULE = ("seeded P-code generator (Mark, UOD commands of 1-5 ticks, Wait, thresholds, Block/End block(s), Watch, Alarm, "
        "Macro/Call macro, Pause/Hold with duration, counters, blank/comment lines; constant FT01, no Simulate/Base "
        "changes so that effects do not depend on absolute timing) x optional injection in flight x edit point = every "
        "tick of the run (quick: every 2nd) x on-line edit script of 1-3 edits from {append at end, append at end of an "
        "open scope, change / insert before / delete a not-yet-started line, change a started line, change a completed "
        "line, re-indent a started / a completed line by +4 or -4 columns (text otherwise equal: only the scope it "
        "belongs to changes), change only trailing blanks or the spacing after ':' of a started / completed line, "
        "add / change / remove the trailing comment of a started / completed line, blank out or comment out a started / "
        "completed instruction line, type an instruction into (or uncomment) a blank / whitespace-only / comment-only "
        "line the run has already passed, change such a passed line without making it an instruction, the same changes "
        "on lines the run has not reached incl. the trailing whitespace at the end of the method}; 60 % of the methods "
        "are decorated with trailing comments, whitespace-only lines and extra blank / comment-only / commented-out "
        "lines; 0-4 ticks between edits. distinct = (method shape, edit kinds, progress bucket at the first edit); "
        "non-trivial = at least one line had started and at least one had not when the first edit arrived")
ASSUMPTIONS = [
    "which lines are started is read from Engine.method_manager.get_method_state() at edit time and cross-checked with "
    "the started/completed/failed flags of the interpreter's own program nodes; candidates for 'not yet started' must "
    "be unstarted in both views, candidates for 'started' must be started in both",
    "blank / whitespace-only / comment-only lines: the run has PASSED such a line when a later line of the same scope "
    "(a later sibling in the interpreter's own tree, outside Alarm/macro bodies) has started in the reported state and "
    "in the interpreter's nodes - a definition that does not depend on how the engine flags or reports the blank line "
    "itself. An edit that turns a passed line into an instruction must be rejected like a change of a started line: if "
    "it were accepted the run could not continue 'as if the edited method had been loaded from the start' (that run "
    "executes the new instruction before lines which have already run). Changes of a passed blank/comment line that do "
    "not make it an instruction, and changes of the trailing comment of a started line, change no meaning: counted, not "
    "judged (rejected: MethodEditError and unchanged continuation; accepted: judged like every accepted edit). The "
    "trailing whitespace at the end of the method is never passed (editable by design): typing into it is a valid edit. "
    "The state of blank/comment lines is not part of the superset check",
    "an engine that rejects an edit which leaves every started line unchanged (e.g. any change inside a macro that has "
    "been called) is counted, not judged: the statement forbids re-running and losing progress, not refusing",
    "differential comparison is untimed: per line id the number of starts and Mark appends outside Alarm/macro bodies, "
    "'ran at least once' inside them, UOD initialisations per command name; generated methods avoid constructs whose "
    "effects depend on when a line runs, and the shapes for which C02 recorded engine defects (Watch/Alarm nested in "
    "Alarm or macro bodies, macros called from interrupts, multi-tick UOD commands in Alarm bodies)",
    "indentation is structure in P-code: an edit that changes only the leading whitespace of a started/completed line "
    "(any opener, leaf or End block line) changes that line and must be rejected like a change of its text; a change "
    "of trailing blanks or of the spacing after the first ':' does not change the meaning for sure, so whether the "
    "engine treats it as a change is counted, not judged (rejected: must be MethodEditError and the continuation must "
    "equal the base run; accepted: judged like every accepted edit)",
    "for a rejected edit the continuation is compared tick by tick and exactly (all tag values except Run Id, method "
    "state, Marks, UOD callbacks, hardware registers) with the run that never saw the attempt",
]
REQUIRED = {"edits_attempted": 1500, "started_line_edit_attempts": 400, "rejected_snapshot_checks": 400,
            "continuation_ticks_compared": 3000, "accepted_merge_boundary_checks": 500, "path_choice_checks": 500,
            "set_path_differential_checks": 20, "reindent_started_line_attempts": 250, "reindent_indent_started": 80,
            "reindent_indent_completed": 80, "reindent_dedent_started": 15, "reindent_dedent_completed": 15,
            "ws_only_started_line_attempts": 250, "ws_only_trailing": 60, "ws_only_inner": 60,
            # line kinds x positions x change kinds of blank / whitespace-only / comment-only lines and trailing comments
            "instruction_typed_into_passed_ws_line_attempts": 50, "ws_to_instr_passed_on_blank_line": 6,
            "ws_to_instr_passed_on_wsonly_line": 12, "ws_to_instr_passed_on_comment_line": 20,
            "ws_to_instr_passed_pos_next_running": 10, "ws_to_instr_passed_pos_next_completed": 30,
            "started_instruction_blanked_out_attempts": 150, "passed_ws_line_changed_without_instruction_attempts": 25,
            "trailing_ws_at_end_of_method_edit_attempts": 25, "ws_edit_unstarted_pos_unstarted": 20,
            "rejected_method_state_compared": 400, "ws_only_cmt_add": 20, "ws_only_cmt_change": 5, "ws_only_cmt_remove": 5}

ALLOW = ("mark", "uod", "wait", "block", "watch", "alarm", "macro", "thr", "blank", "pausehold", "counter", "info")
KINDS = ["append_end", "append_end", "append_scope", "change_unstarted", "insert_before_unstarted", "delete_unstarted",
         "change_started", "change_started", "change_completed", "reindent_started", "reindent_completed",
         "ws_only_started", "ws_only_completed",
         "ws_to_instr_passed", "ws_to_instr_passed", "ws_change_passed", "instr_to_ws_started", "instr_to_ws_completed",
         "ws_edit_unstarted"]
# all kinds from change_started on target a started/completed line; the reindent_* kinds change only the leading
# whitespace (= the scope the line belongs to), the ws_only_* kinds only trailing blanks or the spacing after the first ':'
# line kinds x positions (added after seed C01-e): the ws_* / instr_to_ws_* kinds edit blank, whitespace-only and
# comment-only lines, or turn an instruction line into one of those:
#   ws_to_instr_passed     an instruction is typed into a blank / whitespace-only line, or a comment-only line is
#                          uncommented, and the run has already PASSED that line (a later line of the same scope has
#                          started): the instruction can never run in its place any more -> must be rejected
#   ws_change_passed       a passed blank/comment line changes without becoming an instruction (comment text, blank <->
#                          comment, '' <-> spaces, indentation of a comment): no meaning changes, counted not judged
#   instr_to_ws_*          a started / completed instruction line is blanked out or commented out -> must be rejected
#   ws_edit_unstarted      the same changes on lines the run has not reached (incl. the trailing whitespace at the end of
#                          the method, which stays editable by design): an ordinary valid edit
WS_KINDS = ("ws_to_instr_passed", "ws_change_passed", "instr_to_ws_started", "instr_to_ws_completed", "ws_edit_unstarted")
OPENERS = ("BlockNode", "WatchNode", "AlarmNode", "MacroNode")


def plan(tier, seed):
    n = 320 if tier == "quick" else 3200
    shards = 16 if tier == "quick" else 64
    return [{"seed": seed * 1000003 + 15485863 * i + 11, "n": n // shards, "step": 2 if tier == "quick" else 1,
             "max_depth": 3 if tier == "quick" else 4} for i in range(shards)]


def gen_case(rnd: random.Random, step: int, max_depth: int) -> dict:
    from opv.rigs import liveedit_rig as L
    text = L.gen_method(rnd, ALLOW, max_depth=max_depth, maxlen=7)
    if rnd.random() < 0.35:
        text += "".join(rnd.choice(["\n", "# tail\n"]) for _ in range(rnd.randint(1, 2)))
    inject = None
    if rnd.random() < 0.3:
        inject = [rnd.randint(3, 20), rnd.choice(["Mark: jxa", "Other\nMark: jxa", "Wait: 0.3s\nMark: jxa", "Other"])]
    case = {"text": text, "ft": rnd.choice([0.0, 2.0, 6.0]), "inject": inject, "step": step, "sub": rnd.randrange(1 << 30)}
    r2 = random.Random(case["sub"] * 31 + 7)       # own stream: the generator's stream stays what it was
    if r2.random() < 0.6:
        case["text"] = decorate(case["text"], r2)
    return case


def line_kind(content: str) -> str:
    """The line kinds the parser knows: blank, whitespace-only, comment-only, instruction with / without trailing comment."""
    s = content.strip()
    if s == "":
        return "blank" if content == "" else "wsonly"
    if s.startswith("#"):
        return "comment"
    return "instr_cmt" if "#" in s else "instr"


def decorate(text: str, r: random.Random) -> str:
    """Adds the line kinds the shared generator does not emit: trailing comments on instruction lines, whitespace-only
    lines, extra blank / comment-only lines between instructions (never directly after an opener: an opener followed by
    whitespace only is C17's business). None of this changes what the method does."""
    ls = text.split("\n")
    tail = 0
    while ls and ls[-1] == "":
        ls.pop()
        tail += 1
    out = []
    for k, ln in enumerate(ls):
        s = ln.strip()
        ws = s == "" or s.startswith("#")
        if not ws and r.random() < 0.35:
            ln = ln + r.choice(["  # n%d" % k, " # n%d" % k, "    # note %d" % k])
        elif s == "" and r.random() < 0.5:
            ln = " " * r.choice([1, 4, 8])
        out.append(ln)
        kw = s.split(":")[0].strip()
        if not ws and kw not in ("Block", "Watch", "Alarm", "Macro") and r.random() < 0.25:
            ind = _indent(ln)
            out.append(r.choice(["", " " * max(ind, 2), " " * (ind + 2), " " * ind + "# c%d" % k, "# c%d" % k,
                                 " " * ind + "# Mark: c%d" % k]))
    return "\n".join(out) + "\n" * tail


# ------------------------------------------------------------------------------------------------ driving
class Run:
    """One engine run of `lines` with the case's constant FT01 and injection; records per-tick digests."""

    def __init__(self, case, lines=None):
        from opv.rigs import engine_rig as R
        from opv.rigs import liveedit_rig as L
        self.R, self.L = R, L
        self.case = case
        if lines is None:
            self.rig = R.EngineRig(case["text"])
        else:
            self.rig = R.EngineRig(R.method_from_lines(lines, version=0))
        self.rig.hw.inputs["FT01"] = case["ft"]
        self.digests: dict[int, tuple] = {}
        self.skip: list[tuple[int, int]] = []      # TRACE index ranges produced inside Engine.set_method calls
        self.rep_seen: set[str] = set()            # ids of lines inside Alarm/macro bodies in any version of the method
        self.rep_labels_seen: set[str] = set()
        self.rep_cmds_seen: set[str] = set()
        self.inject_error = None

    def start(self):
        self.rig.start()
        self.digests[self.rig.k] = self.L.digest(self.rig, 0)
        self._cmd_from = len(self.rig.cmdlog)

    def tick(self):
        rig = self.rig
        inj = self.case.get("inject")
        if inj and rig.k == inj[0]:
            try:
                rig.e.inject_code(inj[1])
            except Exception as ex:
                self.inject_error = f"{type(ex).__name__}: {ex}"[:200]
        c0 = len(rig.cmdlog)
        rig.tick(catch=True)
        self.digests[rig.k] = self.L.digest(rig, c0)

    def last_event_tick(self) -> int:
        last = 1
        tr = self.R.TRACE
        if tr:
            last = max(last, tr[-1][0])
        if self.rig.cmdlog:
            last = max(last, self.rig.cmdlog[-1][0])
        return last

    def run_to_quiescence(self, min_ticks: int, cap: int, idle: int = 25):
        while self.rig.k < cap and not self.rig.tick_exc:
            self.tick()
            if self.rig.k >= min_ticks and self.rig.k - self.last_event_tick() >= idle:
                break

    def effects(self):
        """Untimed per-line effects of the whole run."""
        R, L = self.R, self.L
        skip = self.skip
        starts: Counter = Counter()
        for idx, e in enumerate(R.TRACE):
            if e[1] == "started" and e[4] is False and e[5] is True and e[3] not in ("BlankNode", "CommentNode", "NullNode",
                                                                                      "InjectedNode"):
                if any(a <= idx < b for a, b in skip):
                    continue        # state copied by a merge, not an execution
                starts[e[2]] += 1
        marks = Counter(self.rig.marks())
        inits = Counter(c[2] for c in self.rig.cmdlog if c[1] == "init")
        self.note_repeatable()
        rep, rep_labels, rep_cmds = set(self.rep_seen), set(self.rep_labels_seen), set(self.rep_cmds_seen)
        return {"starts": starts, "marks": marks, "inits": inits, "rep": rep, "rep_labels": rep_labels, "rep_cmds": rep_cmds,
                "errors": list(self.rig.errors), "state": self.rig.state}

    def note_repeatable(self):
        """Remember which lines / labels / commands lie inside Alarm or macro bodies in the current method version
        (a line deleted by a later edit may have run several times before)."""
        L = self.L
        for n in self.rig.program().get_all_nodes():
            if L.in_repeatable(n):
                self.rep_seen.add(n.id)
                if type(n).__name__ == "MarkNode":
                    self.rep_labels_seen.add(n.name)
                if type(n).__name__ == "UodCommandNode":
                    self.rep_cmds_seen.add(n.instruction_name)

    def close(self):
        if self.rig is not None:
            self.rig.close()
            self.rig = None
            gc.collect()   # finalise this run's interpreter generators now, not while the next rig records its TRACE


def _indent(s: str) -> int:
    return len(s) - len(s.lstrip(" "))


def leaf_text(rnd: random.Random, n: int) -> str:
    return rnd.choice([f"Mark: e{n}", f"Mark: e{n}", "Short", "Wait: 0.2s", f"0.5 Mark: e{n}", "Set1: 5", f"Mark: e{n}"])


def make_edit(rnd: random.Random, run: Run, counter: list) -> dict | None:
    """Chooses one edit from the state reported (and actually held) at this moment. Returns
    {kind, new_lines, expect_reject, target}."""
    L = run.L
    rig = run.rig
    lines = L.method_lines(rig)
    ms = rig.e.method_manager.get_method_state()
    iprog = rig.e.interpreter._program
    nodes = {n.id: n for n in iprog.get_all_nodes()}
    rep_started = set(ms.started_line_ids) | set(ms.executed_line_ids)
    rep_any = rep_started | set(ms.failed_line_ids)
    act_started = {i for i, n in nodes.items() if n.started or n.completed}
    act_any = act_started | {i for i, n in nodes.items() if n.failed}
    idx = {i: k for k, (i, _) in enumerate(lines)}
    counter[0] += 1
    n = counter[0]
    newid = f"N{n}"

    def leafs_unstarted():
        out = []
        for i, c in lines:
            nd = nodes.get(i)
            if nd is None or L.is_ws(nd) or i in rep_any or i in act_any:
                continue
            if type(nd).__name__ in OPENERS or type(nd).__name__ in ("EndBlockNode", "EndBlocksNode", "ProgramNode"):
                continue
            out.append(i)
        return out

    def started_both(nd) -> bool:
        return bool(nd.started or nd.completed) and nd.id in rep_started and not nd.failed and nd.id not in ms.failed_line_ids

    def passed_by(nd):
        """The later line of the same scope (a sibling in the interpreter's own tree) that has started in both views, or
        None: the definition of 'the run has passed this line' used for blank/comment lines. Independent of the flags
        and of the reported state of the blank/comment line itself."""
        par = nd.parent
        if par is None:
            return None
        sibs = list(par.children)
        k = next((j for j, x in enumerate(sibs) if x is nd), None)
        if k is None:
            return None
        for x in sibs[k + 1:]:
            if not L.is_ws(x) and x.id in idx and started_both(x):
                return x
        return None

    def ws_nodes():
        return [nd for i, nd in nodes.items() if L.is_ws(nd) and i in idx]

    def sibling_indent(nd) -> int | None:
        """Indentation of the scope the ws line belongs to: that of the next non-ws sibling, else of the previous one."""
        par = nd.parent
        if par is None:
            return None
        sibs = list(par.children)
        k = next((j for j, x in enumerate(sibs) if x is nd), None)
        if k is None:
            return None
        for x in sibs[k + 1:] + sibs[:k][::-1]:
            if not L.is_ws(x) and x.id in idx:
                return _indent(lines[idx[x.id]][1])
        return None

    kind = rnd.choice(KINDS)
    for _attempt in range(3):
        if kind in ("ws_to_instr_passed", "ws_change_passed"):
            cands = []
            for nd in ws_nodes():
                if L.in_repeatable(nd):
                    continue            # a body that runs again: 'passed' holds per invocation only
                nxt = passed_by(nd)
                if nxt is not None:
                    cands.append((nd, nxt))
            if cands:
                nd, nxt = rnd.choice(sorted(cands, key=lambda c: idx[c[0].id]))
                i = nd.id
                k = idx[i]
                old = lines[k][1]
                lk = line_kind(old)
                ind = _indent(lines[idx[nxt.id]][1])
                pos = "next_completed" if nxt.completed else "next_running"
                if kind == "ws_to_instr_passed":
                    if lk == "comment" and rnd.random() < 0.5:
                        how = "uncommented"
                        newc = " " * ind + (old.strip().lstrip("#").strip() or f"Mark: e{n}")
                        if line_kind(newc) not in ("instr", "instr_cmt") or ":" not in newc:
                            newc = " " * ind + f"Mark: e{n}"
                    else:
                        how = "typed"
                        newc = " " * ind + leaf_text(rnd, n)
                        if rnd.random() < 0.2:
                            newc += "  # typed"
                    exp = True
                else:
                    exp = None
                    if lk == "comment":
                        how = rnd.choice(["comment_text", "comment_text", "comment_to_blank", "comment_reindent"])
                        newc = {"comment_text": old + f" x{n}", "comment_to_blank": rnd.choice(["", " " * max(ind, 1)]),
                                "comment_reindent": "    " + old}[how]
                    else:
                        how = rnd.choice(["blank_to_comment", "blank_to_comment", "blank_spaces"])
                        newc = " " * ind + f"# note {n}" if how == "blank_to_comment" else \
                            ("" if old != "" else " " * rnd.choice([2, 4, 8]))
                new = lines[:k] + [(i, newc)] + lines[k + 1:]
                return {"kind": kind, "new_lines": new, "expect_reject": exp, "target": i, "old": old, "how": how,
                        "linekind": lk, "pos": pos, "passed_by": nxt.id, "own_flags": bool(nd.started or nd.completed),
                        "own_reported": i in rep_started, "new": newc}
            kind = rnd.choice(["change_started", "change_completed", "append_end"])
            continue
        if kind == "ws_edit_unstarted":
            what = rnd.choice(["type_into_ws", "type_into_ws", "change_ws", "blank_out_instr"])
            if what == "blank_out_instr":
                def blankable(i):
                    par = nodes[i].parent
                    if par is None or type(par).__name__ == "ProgramNode":
                        return True
                    kids = [ch for ch in par.children if not L.is_ws(ch)]
                    return len(kids) >= 2 and kids[0] is not nodes[i]     # never leaves an opener without a first body line
                cands = [i for i in leafs_unstarted() if blankable(i)]
                if cands:
                    i = rnd.choice(cands)
                    k = idx[i]
                    old = lines[k][1]
                    ind = _indent(old)
                    how = rnd.choice(["instr_to_blank", "instr_to_spaces", "instr_commented_out"])
                    newc = {"instr_to_blank": "", "instr_to_spaces": " " * max(ind, 2),
                            "instr_commented_out": " " * ind + "# " + old[ind:]}[how]
                    new = lines[:k] + [(i, newc)] + lines[k + 1:]
                    return {"kind": kind, "new_lines": new, "expect_reject": False, "target": i, "old": old, "how": how,
                            "linekind": line_kind(old), "pos": "unstarted", "new": newc}
            else:
                cands = []
                for nd in ws_nodes():
                    if nd.started or nd.completed or nd.failed or nd.id in rep_any or passed_by(nd) is not None:
                        continue
                    anc = [a for a in nd.parents if type(a).__name__ != "ProgramNode"]
                    trailing = bool(getattr(nd, "has_only_trailing_whitespace", False))
                    if not trailing and any(a.completed or a.failed for a in anc):
                        continue        # a scope that was cut short: nothing is known about this line
                    cands.append((nd, trailing, anc))
                if cands:
                    nd, trailing, anc = rnd.choice(sorted(cands, key=lambda c: idx[c[0].id]))
                    i = nd.id
                    k = idx[i]
                    old = lines[k][1]
                    lk = line_kind(old)
                    ind = sibling_indent(nd)
                    if trailing and (ind is None or any(a.completed or a.failed for a in anc) or rnd.random() < 0.5):
                        ind = 0         # the end of the method: a new root-level line
                    if ind is not None:
                        if what == "type_into_ws":
                            how = "typed"
                            newc = " " * ind + leaf_text(rnd, n)
                        elif lk == "comment":
                            how = rnd.choice(["comment_text", "comment_to_blank"])
                            newc = old + f" x{n}" if how == "comment_text" else ""
                        else:
                            how = rnd.choice(["blank_to_comment", "blank_spaces"])
                            newc = " " * ind + f"# note {n}" if how == "blank_to_comment" else \
                                ("" if old != "" else " " * rnd.choice([2, 4, 8]))
                        new = lines[:k] + [(i, newc)] + lines[k + 1:]
                        return {"kind": kind, "new_lines": new, "expect_reject": False, "target": i, "old": old, "how": how,
                                "linekind": lk, "pos": "trailing" if trailing else "unstarted", "new": newc}
            kind = rnd.choice(["change_unstarted", "append_end"])
            continue
        if kind == "append_end":
            what = rnd.random()
            if what < 0.7:
                add = [(newid, leaf_text(rnd, n))]
            elif what < 0.85:
                add = [(newid, f"Block: be{n}"), (newid + "a", f"    Mark: e{n}"), (newid + "b", "    End block")]
            else:
                add = [(newid, "Watch: Run Counter >= 0"), (newid + "a", f"    Mark: e{n}")]
            return {"kind": kind, "new_lines": lines + add, "expect_reject": False, "target": newid}
        if kind == "append_scope":
            cands = [nd for i, nd in nodes.items() if type(nd).__name__ in OPENERS and not nd.completed and i in idx]
            started_open = [nd for nd in cands if nd.started]
            pool = started_open or cands
            if pool:
                nd = rnd.choice(sorted(pool, key=lambda x: idx[x.id]))
                sub = [d for d in nd.get_child_nodes(recursive=True) if d.id in idx]
                nonws = [d for d in sub if not L.is_ws(d)]
                last = max([idx[d.id] for d in nonws] + [idx[nd.id]])
                ind = _indent(lines[idx[nd.id]][1]) + 4
                new = lines[:last + 1] + [(newid, " " * ind + f"Mark: e{n}")] + lines[last + 1:]
                return {"kind": kind, "new_lines": new, "expect_reject": False, "target": nd.id}
            kind = "append_end"
            continue
        if kind in ("change_unstarted", "insert_before_unstarted", "delete_unstarted"):
            cands = leafs_unstarted()
            if kind == "delete_unstarted":
                def deletable(i):
                    par = nodes[i].parent
                    if par is None or type(par).__name__ == "ProgramNode":
                        return True
                    return sum(1 for ch in par.children if not L.is_ws(ch)) >= 2
                cands = [i for i in cands if deletable(i)]
            if cands:
                i = rnd.choice(cands)
                k = idx[i]
                ind = _indent(lines[k][1])
                if kind == "change_unstarted":
                    new = lines[:k] + [(i, " " * ind + leaf_text(rnd, n))] + lines[k + 1:]
                elif kind == "insert_before_unstarted":
                    new = lines[:k] + [(newid, " " * ind + leaf_text(rnd, n))] + lines[k:]
                else:
                    new = lines[:k] + lines[k + 1:]
                return {"kind": kind, "new_lines": new, "expect_reject": False, "target": i}
            kind = "append_end"
            continue
        # change_started / change_completed
        want_completed = kind.endswith("_completed")
        pool_ids = set(ms.executed_line_ids) if want_completed else rep_started
        cands = []
        for i in pool_ids:
            nd = nodes.get(i)
            if nd is None or i not in idx or L.is_ws(nd) or type(nd).__name__ == "ProgramNode":
                continue
            if i not in act_started or i in ms.failed_line_ids or nd.failed:
                continue
            if want_completed and not nd.completed:
                continue
            cands.append(i)
        if cands:
            cands = sorted(cands, key=lambda x: idx[x])
            deep = [c for c in cands if _indent(lines[idx[c]][1]) >= 4]
            dedent = kind.startswith("reindent_") and bool(deep) and rnd.random() < 0.75
            with_cmt = [c for c in cands if "#" in lines[idx[c]][1]]
            force_cmt = kind.startswith("ws_only_") and bool(with_cmt) and rnd.random() < 0.2
            i = rnd.choice(deep if dedent else with_cmt if force_cmt else cands)
            k = idx[i]
            old = lines[k][1]
            ind = _indent(old)
            cls = type(nodes[i]).__name__
            if kind.startswith("reindent_"):
                # same text, other indentation: the line moves into / out of a scope (or becomes an indentation error)
                delta = -4 if dedent else 4
                new = lines[:k] + [(i, " " * (ind + delta) + old[ind:])] + lines[k + 1:]
                return {"kind": kind, "new_lines": new, "expect_reject": True, "target": i, "old": old,
                        "how": "indent+4" if delta > 0 else "dedent-4", "cls": cls}
            if kind.startswith("ws_only_"):
                # textual difference without a difference in meaning for sure: not judged either way (expect_reject None)
                how = rnd.choice(["trailing", "trailing", "trailing2", "inner", "inner", "cmt"])
                how = "cmt" if force_cmt else how
                body = old[ind:]
                if how == "cmt":
                    # the trailing comment of an instruction line: added, changed or removed, instruction text untouched
                    if "#" in body:
                        how = rnd.choice(["cmt_change", "cmt_remove"])
                        code = body[:body.index("#")]
                        newc = code + f"# changed {n}" if how == "cmt_change" else code.rstrip()
                    else:
                        how = "cmt_add"
                        newc = body + f"  # added {n}"
                elif how == "inner" and ": " in body:
                    newc = body.replace(": ", ":  ", 1)
                else:
                    how = "trailing" if how == "inner" else how
                    newc = body + (" " if how == "trailing" else "   ")
                new = lines[:k] + [(i, " " * ind + newc)] + lines[k + 1:]
                return {"kind": kind, "new_lines": new, "expect_reject": None, "target": i, "old": old, "how": how}
            if kind.startswith("instr_to_ws_"):
                # the instruction disappears: the line becomes blank, whitespace-only or is commented out
                how = rnd.choice(["instr_to_blank", "instr_to_spaces", "instr_commented_out"])
                newc = {"instr_to_blank": "", "instr_to_spaces": " " * max(ind, 2),
                        "instr_commented_out": " " * ind + "# " + old[ind:]}[how]
                new = lines[:k] + [(i, newc)] + lines[k + 1:]
                return {"kind": kind, "new_lines": new, "expect_reject": True, "target": i, "old": old, "how": how,
                        "linekind": line_kind(old), "pos": "completed" if nodes[i].completed else "started", "new": newc}
            if cls == "BlockNode":
                newc = f"Block: bx{n}"
            elif cls in ("WatchNode", "AlarmNode"):
                kw = "Watch" if cls == "WatchNode" else "Alarm"
                newc = f"{kw}: Run Counter >= {n + 7}"
            elif cls == "MacroNode":
                newc = f"Macro: MX{n}"
            else:
                newc = f"Mark: x{n}"
            keeps = "#" in old and rnd.random() < 0.5
            if keeps:
                newc += "  " + old[old.index("#"):]        # the instruction changes, its trailing comment stays
            new = lines[:k] + [(i, " " * ind + newc)] + lines[k + 1:]
            return {"kind": kind, "new_lines": new, "expect_reject": True, "target": i, "old": old, "keeps_comment": keeps}
        kind = "append_end"
    return None


# ------------------------------------------------------------------------------------------------ monitor
def check_case(case: dict, res: Result):
    viol: list[tuple[str | None, str, dict]] = []
    base = Run(case)
    try:
        base.start()
        base.run_to_quiescence(min_ticks=12, cap=110)
        q = min(base.last_event_tick(), 100)
        T = q + 8
        while base.rig.k < T + 30:
            base.tick()
        base_digests = dict(base.digests)
        base_err = bool(base.rig.errors) or bool(base.rig.tick_exc) or bool(base.inject_error)
    finally:
        base.close()
    if base_err:
        res.count("methods_skipped_base_run_error")
        res.case(None, sample={"method": case["text"], "skipped": "base run ends in error"})
        return
    only = case.get("only")
    if only:
        points = [tuple(only)]
    else:
        r0 = random.Random(case["sub"])
        points = [(t, r0.randrange(1 << 30)) for t in range(1 + r0.randrange(case["step"]), T, case["step"])]
        if all(p[0] != 1 for p in points) and r0.random() < 0.5:
            points.insert(0, (1, r0.randrange(1 << 30)))       # the "nothing has started yet" edit point
    for t, sseed in points:
        sub = dict(case, only=[t, sseed])
        try:
            edited_run(case, t, sseed, base_digests, T, res, viol, sub)
        except _Stop:
            pass
    seen = set()
    for mech, msg, sub in viol:
        if (mech, msg) in seen:
            continue
        seen.add((mech, msg))
        res.violation(mech, msg, sub)


class _Stop(Exception):
    pass


def edited_run(case, t, sseed, base_digests, T, res: Result, viol, sub):
    from openpectus.lang.exec.errors import MethodEditError
    rnd = random.Random(sseed)
    run = Run(case)
    R, L = run.R, run.L
    rig = run.rig
    counter = [0]
    kinds: list[str] = []
    accepted: list[dict] = []
    rejected_only = True
    first_attempt_tick = None
    nontrivial = False
    bucket = "none"

    def V(mech, msg):
        viol.append((mech, msg, sub))

    try:
        run.start()
        while rig.k < t:
            run.tick()
        # the prefix must replay the base run exactly, otherwise the harness itself is not deterministic
        for k in range(1, t + 1):
            if run.digests.get(k) != base_digests.get(k):
                res.count("nondeterministic_prefix_skipped")
                return
        nedits = rnd.choice([1, 1, 2, 3])
        for ei in range(nedits):
            if rig.tick_exc:
                break
            run.note_repeatable()
            ed = make_edit(rnd, run, counter)
            if ed is None:
                break
            res.count("edits_attempted")
            res.count("edit_kind_" + ed["kind"])
            kinds.append(ed["kind"])
            mm = rig.e.method_manager
            ms0 = mm.get_method_state()
            iprog0 = rig.e.interpreter._program
            act0 = L.actual_started(iprog0)
            ws0 = {n.id for n in iprog0.get_all_nodes() if L.is_ws(n)}
            nlines0 = sum(1 for n in iprog0.get_all_nodes() if not L.is_ws(n) and n.id != "root")
            progressed = sum(1 for i, f in act0.items() if any(f) and i not in ws0 and i != "root")
            if ei == 0:
                nontrivial = 0 < progressed < nlines0
                bucket = "none" if progressed == 0 else "all" if progressed >= nlines0 else \
                    "early" if progressed * 3 <= nlines0 else "late" if progressed * 3 >= 2 * nlines0 else "mid"
                first_attempt_tick = rig.k
            run_active = bool(rig.e._runstate_started)
            any_started = any(f[0] or f[1] or f[2] for f in act0.values())
            snap0 = L.snapshot(rig)
            tr0 = len(R.TRACE)
            result = None
            exc = None
            try:
                result = rig.e.set_method(R.method_from_lines(ed["new_lines"], version=0))
            except MethodEditError as ex:
                exc = ex
            except Exception as ex:  # noqa
                exc = ex
            run.skip.append((tr0, len(R.TRACE)))
            desc = f"edit #{ei + 1} ({ed['kind']} on {ed['target']}) after tick {rig.k}"
            if ed["expect_reject"]:
                res.count("started_line_edit_attempts")
            if ed["kind"].startswith("reindent_"):
                res.count("reindent_started_line_attempts")
                res.count("reindent_" + ed["how"].split("-")[0].split("+")[0] + "_" + ed["kind"].split("_")[1])
                if ed["cls"] in OPENERS:
                    res.count("reindent_of_scope_opener")
            ws_only = ed["expect_reject"] is None
            if ed["kind"].startswith("ws_only_"):
                res.count("ws_only_started_line_attempts")
                res.count("ws_only_" + ed["how"])
            if ed.get("keeps_comment"):
                res.count("change_started_line_keeping_its_trailing_comment")
            if ed["kind"] in WS_KINDS:
                # line kind x position x change kind of the blank/comment-line stratum
                res.count("ws_line_edit_attempts")
                res.count(f"{ed['kind']}_{ed['how']}")
                res.count(f"{ed['kind']}_on_{ed['linekind']}_line")
                res.count(f"{ed['kind']}_pos_{ed['pos']}")
                if ed["kind"] == "ws_to_instr_passed":
                    res.count("instruction_typed_into_passed_ws_line_attempts")
                    res.count("passed_ws_line_own_flags_" + ("set" if ed["own_flags"] else "unset"))
                    res.count("passed_ws_line_reported_" + ("yes" if ed["own_reported"] else "no"))
                elif ed["kind"].startswith("instr_to_ws_"):
                    res.count("started_instruction_blanked_out_attempts")
                elif ed["kind"] == "ws_change_passed":
                    res.count("passed_ws_line_changed_without_instruction_attempts")
                elif ed["pos"] == "trailing":
                    res.count("trailing_ws_at_end_of_method_edit_attempts")
                    if exc is None:
                        res.count("trailing_ws_at_end_of_method_edit_accepted")
            # ------------------------------------------------------------ rejected
            if exc is not None:
                snap1 = L.snapshot(rig)
                diff = L.snapshot_diff(snap0, snap1)
                if ed["expect_reject"]:
                    if not isinstance(exc, MethodEditError):
                        V(None, f"{desc}: changing started line {ed['target']} ({ed.get('old')!r}) raised "
                                f"{type(exc).__name__} instead of MethodEditError: {exc}"[:500])
                        raise _Stop()
                    res.count("started_line_edit_rejected")
                    res.count("rejected_snapshot_checks")
                    # the reported method state on its own (it is also part of the snapshot): same ids, same order
                    res.count("rejected_method_state_compared")
                    ms1 = mm.get_method_state()
                    if L.state_sets(ms0) != L.state_sets(ms1) or list(ms0.started_line_ids) != list(ms1.started_line_ids) \
                            or list(ms0.executed_line_ids) != list(ms1.executed_line_ids):
                        V("C01.rejected_edit_changed_method_state",
                          f"{desc}: rejected with MethodEditError but the reported method state changed: started "
                          f"{list(ms0.started_line_ids)} -> {list(ms1.started_line_ids)}, executed "
                          f"{list(ms0.executed_line_ids)} -> {list(ms1.executed_line_ids)}"[:600])
                        raise _Stop()
                    if ed["kind"] == "ws_to_instr_passed":
                        res.count("instruction_typed_into_passed_ws_line_rejected")
                    elif ed["kind"].startswith("instr_to_ws_"):
                        res.count("started_instruction_blanked_out_rejected")
                    if diff:
                        V("C01.rejected_edit_left_trace", f"{desc}: rejected with MethodEditError but the observable snapshot "
                                                          f"changed in {diff}")
                        raise _Stop()
                elif ws_only:
                    # the code under test treats the textual difference as a change of the started line: allowed, but
                    # then it is a rejection like any other (not the error state); the continuation is compared below
                    res.count("ws_only_edit_rejected")
                    if not isinstance(exc, MethodEditError):
                        V(None, f"{desc}: meaning-preserving change ({ed['how']}) of started/passed line {ed['target']} "
                                f"({ed.get('old')!r}) raised {type(exc).__name__} instead of MethodEditError: {exc}"[:500])
                        raise _Stop()
                    if diff:
                        res.count("ws_only_edit_rejected_but_snapshot_changed")
                        rejected_only = False
                else:
                    res.count("valid_edit_rejected")
                    res.count("valid_edit_rejected_" + _reason(str(exc)))
                    if not isinstance(exc, MethodEditError):
                        V(None, f"{desc}: an edit that leaves every started line unchanged raised {type(exc).__name__} "
                                f"(engine put into error state): {exc}"[:500])
                        raise _Stop()
                    if diff:
                        res.count("valid_edit_rejected_but_snapshot_changed")
                        rejected_only = False      # continuation is no longer comparable
            # ------------------------------------------------------------ accepted
            else:
                if ed["expect_reject"]:
                    if ed["kind"].startswith("reindent_"):
                        V("C01.reindented_started_line_edit_accepted",
                          f"{desc}: line {ed['target']} was reported as started/executed ({ed.get('old')!r}) but the edit that "
                          f"changes only its indentation ({ed['how']}, i.e. the scope it belongs to) was accepted ({result})")
                        raise _Stop()
                    if ed["kind"] == "ws_to_instr_passed":
                        V("C01.instruction_typed_into_passed_line_accepted",
                          f"{desc}: the run had passed the {ed['linekind']} line {ed['target']} ({ed.get('old')!r}; the later "
                          f"line {ed['passed_by']} of the same scope was started/executed in the reported state and in the "
                          f"interpreter's nodes), but the edit that turns it into the instruction {ed['new']!r} was accepted "
                          f"({result}): that instruction can no longer run in its place (line itself reported "
                          f"started/executed before the edit: {ed['own_reported']}, its node flags set: {ed['own_flags']})")
                        raise _Stop()
                    V("C01.started_line_edit_accepted",
                      f"{desc}: line {ed['target']} was reported as started/executed ({ed.get('old')!r}) but the edit that "
                      f"changes it was accepted ({result})")
                    raise _Stop()
                if ws_only:
                    res.count("ws_only_edit_accepted")      # judged like any accepted edit: nothing may re-run or get lost
                rejected_only = False
                res.count("edits_accepted")
                res.count("path_choice_checks")
                if run_active and any_started and result != "merge_method":
                    V("C01.set_path_taken_on_started_run",
                      f"{desc}: run active with started lines but Engine.set_method took the {result} path (replaces the "
                      f"interpreter without merging)")
                    raise _Stop()
                if result == "merge_method" and not (run_active and any_started):
                    V(None, f"{desc}: merge path taken although run_active={run_active} any_started={any_started}")
                    raise _Stop()
                new_ids = {i for i, _ in ed["new_lines"]} | {"root"}
                if result == "merge_method":
                    res.count("accepted_merge_boundary_checks")
                    ms1 = mm.get_method_state()
                    iprog1 = rig.e.interpreter._program
                    act1 = L.actual_started(iprog1)
                    keep = {i: f for i, f in act0.items() if i in new_ids and i not in ws0 and any(f)}
                    lost_act = sorted(i for i, f in keep.items()
                                      if (f[0] and not act1.get(i, (0, 0, 0))[0]) or (f[1] and not act1.get(i, (0, 0, 0))[1])
                                      or (f[2] and not act1.get(i, (0, 0, 0))[2]))
                    rep0 = (set(ms0.started_line_ids) | set(ms0.executed_line_ids) | set(ms0.failed_line_ids)) & new_ids - ws0
                    rep1 = set(ms1.started_line_ids) | set(ms1.executed_line_ids) | set(ms1.failed_line_ids)
                    lost_rep = sorted(rep0 - rep1)
                    nothing_in_new = not any(any(f) for f in act1.values())
                    if keep and nothing_in_new and not rep1:
                        # the exact shape of the known defect: a fresh, stateless program runs and is reported
                        V("C01.merge_discards_all_state",
                          f"{desc}: accepted merge; before: {len(keep)} started lines {sorted(keep)[:8]} (reported "
                          f"{sorted(rep0)[:8]}); after: no node of the new interpreter's program is started/completed and the "
                          f"reported method state is empty")
                        res.count("merge_total_discard_observed")
                        raise _Stop()
                    if lost_act or lost_rep:
                        V("C01.partial_state_loss_on_merge",
                          f"{desc}: accepted merge lost progress of lines still in the method: interpreter nodes {lost_act[:8]}, "
                          f"reported method state {lost_rep[:8]} (kept: interpreter {sum(1 for f in act1.values() if any(f))} "
                          f"nodes, reported {len(rep1)})")
                        raise _Stop()
                    res.count("merge_kept_all_state")
                accepted.append({"tick": rig.k, "kind": ed["kind"], "result": result, "lines": ed["new_lines"]})
            for _ in range(rnd.choice([0, 1, 2, 4])):
                run.tick()
        # ---------------------------------------------------------------- continuation
        if first_attempt_tick is None:
            return
        if not accepted and rejected_only:
            # nothing may have changed: compare with the base run tick by tick
            upto = T
            while rig.k < upto and not rig.tick_exc:
                run.tick()
            for k in range(first_attempt_tick + 1, upto + 1):
                res.count("continuation_ticks_compared")
                if run.digests.get(k) != base_digests.get(k):
                    d = L.digest_diff(run.digests[k], base_digests[k]) if k in run.digests and k in base_digests else "missing tick"
                    V("C01.rejected_edit_changed_continuation",
                      f"edit(s) {kinds} at tick {first_attempt_tick} were all rejected, but tick {k} differs from the run "
                      f"without the attempt: {d}"[:700])
                    break
            res.count("cases_all_rejected")
        elif accepted:
            last = accepted[-1]["tick"]
            run.run_to_quiescence(min_ticks=max(T, last + 30), cap=last + 170)
            if rig.tick_exc:
                V(None, f"Engine.tick raised after edits {kinds}: {rig.tick_exc[0]}")
                raise _Stop()
            eff = run.effects()
            nticks = rig.k
            # (i) start counts across the edits
            res.count("start_count_checks")
            twice = sorted(i for i, c in eff["starts"].items() if c > 1 and i not in eff["rep"])
            if twice:
                V("C01.line_started_again_after_edit",
                  f"edits {kinds} (accepted at ticks {[a['tick'] for a in accepted]}): line(s) {twice[:6]} went from not-started "
                  f"to started more than once outside Alarm/macro bodies; marks {rig.marks()[:20]}")
                raise _Stop()
            # (iv) differential against the final method run from the start
            # (the rigs share the TRACE / virtual clock globals: everything needed from `run` is extracted before the
            # reference engine is constructed)
            edited_digests = dict(run.digests)
            run.close()
            _differential(case, accepted, eff, nticks, kinds, res, V, exact=(accepted[0]["result"] == "set_method" and
                                                                             len(accepted) == 1 and len(kinds) == 1),
                          edited_digests=edited_digests)
    finally:
        run.close()
        if first_attempt_tick is not None:
            key = (shape_hash(case["text"]), tuple(kinds), bucket, bool(case.get("inject"))) if nontrivial else None
            res.case(key, sample={"method": case["text"], "edit_tick": t, "edits": kinds, "progress": bucket,
                                  "accepted": [(a["tick"], a["kind"], a["result"]) for a in accepted][:3],
                                  "inject": case.get("inject")})


def _reason(msg: str) -> str:
    if "macro" in msg.lower():
        return "macro_started"
    if "different class" in msg or "class mismatch" in msg.lower():
        return "class_mismatch"
    if "already started" in msg:
        return "line_started"
    return "other"


def _differential(case, accepted, eff, nticks, kinds, res: Result, V, exact: bool, edited_digests):
    """Second engine: the final method from the start, same constant input, same injection, same number of ticks."""
    ref = Run(case, lines=accepted[-1]["lines"])
    try:
        ref.start()
        while ref.rig.k < nticks and not ref.rig.tick_exc:
            ref.tick()
        r = ref.effects()
        ref_digests = dict(ref.digests)
        ref_exc = list(ref.rig.tick_exc)
    finally:
        ref.close()
    if r["errors"] or ref_exc or ref.inject_error:
        res.count("differential_skipped_reference_error")
        return
    if eff["errors"]:
        V(None, f"edits {kinds}: the edited run ends in the error state ({eff['errors'][0]}) but the final method run from "
                f"the start does not")
        return
    if exact:
        # an edit before anything started is a plain load: the two runs must be identical tick by tick
        res.count("set_path_differential_checks")
        for k in range(accepted[0]["tick"] + 1, nticks + 1):
            if edited_digests.get(k) != ref_digests.get(k):
                V("C01.set_before_start_differs_from_fresh_load",
                  f"edit {kinds} at tick {accepted[0]['tick']} (set_method path, nothing started): tick {k} differs from the "
                  f"final method loaded from the start: "
                  f"{_dd(edited_digests.get(k), ref_digests.get(k))}"[:700])
                break
        return
    res.count("differential_checks")
    rep = eff["rep"] | r["rep"]
    problems = []
    for i in sorted(set(eff["starts"]) | set(r["starts"])):
        a, b = eff["starts"].get(i, 0), r["starts"].get(i, 0)
        if (i in rep and (a > 0) != (b > 0)) or (i not in rep and a != b):
            problems.append(f"line {i}: started {a}x in the edited run, {b}x in the reference")
    rl = eff["rep_labels"] | r["rep_labels"]
    for lab in sorted(set(eff["marks"]) | set(r["marks"])):
        a, b = eff["marks"].get(lab, 0), r["marks"].get(lab, 0)
        if (lab in rl and (a > 0) != (b > 0)) or (lab not in rl and a != b):
            problems.append(f"Mark {lab}: {a}x vs {b}x")
    rc = eff["rep_cmds"] | r["rep_cmds"]
    for name in sorted(set(eff["inits"]) | set(r["inits"])):
        a, b = eff["inits"].get(name, 0), r["inits"].get(name, 0)
        if (name in rc and (a > 0) != (b > 0)) or (name not in rc and a != b):
            problems.append(f"UOD {name}: initialised {a}x vs {b}x")
    if problems:
        V("C01.effects_differ_from_final_method_run",
          f"edits {kinds} accepted at ticks {[a['tick'] for a in accepted]}: effects differ from a run of the final method from "
          f"the start: " + "; ".join(problems[:6]))


def _dd(a, b) -> str:
    from opv.rigs import liveedit_rig as L
    if a is None or b is None:
        return "missing tick"
    return L.digest_diff(a, b)


def run_shard(spec):
    res = Result()
    rnd = random.Random(spec["seed"])
    for _ in range(spec["n"]):
        check_case(gen_case(rnd, spec["step"], spec.get("max_depth", 3)), res)
    return res


def replay(case):
    res = Result()
    check_case(case, res)
    return res
