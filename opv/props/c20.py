"""C20 - A method the analyzer accepts does not fail on names, args or units.

For a generated (UOD, method): the definitions the engine itself publishes (uod.create_lsp_definition() +
engine.get_command_definitions(), exactly what EngineMessageBuilder sends to the aggregator) are turned into
commands/tags with lsp_analysis.build_commands / build_tags and the method is analysed with lsp_analysis.analyze.
If there is no ERROR item, the same method is run on the real engine (EngineRig, virtual clock, benign inputs) and
every exception handed to Engine.set_error_state is classified by text and raise site (see DESIGN.md C20)."""
from __future__ import annotations

import random
import re
import traceback

from opv.core import Result, h

ID = "C20"
LEVEL = "exploration"
TECHNIQUE = ("runtime monitoring: differential between the editor's analysis (engine-published definitions) and an engine "
             "run; set_error_state wrapper + failed-node scan, failures classified by exception text and raise site")
RULE = ("UOD drawn from a pool (unit-ful / unit-less / text tags incl. %, vol%, degC, bar, mS/cm, AU; commands with "
        "default parser, no-argument parser, RegexNumber with/without units, int-only, RegexCategorical exclusive/"
        "additive; with/without totalizer (volume base units) and column volume) x method from a template grammar biased "
        "to near-valid arguments and units (Base with every unit of the static list, Wait/Pause/Hold durations, Run "
        "counter, regex command arguments at and just outside their language, Watch/Alarm/Simulate over all published "
        "tags with own/compatible/foreign/no unit, numeric and text values, thresholds, Block/Macro nesting). distinct = "
        "(UOD variant, shape hash of the method); non-trivial = method accepted by the analysis and at least 3 "
        "instructions started in the run")
ASSUMPTIONS = [
    "analysis input is built as the aggregator builds it from the engine's UodInfoMsg: uod.create_lsp_definition(), "
    "system_commands = engine.get_command_definitions(), lsp_analysis.build_commands/build_tags, lsp_analysis.analyze "
    "(parser with uod_command_names=[])",
    "openpectus.aggregator.deps is replaced by a stub module before lsp_analysis is imported (unused by the functions "
    "under test)",
    "benign inputs: FT01 follows a scripted trajectory, every other register reads 0; the run is bounded (<= 120 ticks)",
    "a failure counts for the property only if its text/site puts it in one of the three classes (undefined "
    "tag/command, invalid command argument, incompatible units in a condition); exec callbacks of the generated UOD "
    "accept any parsed argument, every other failure (non-numeric comparison, End block outside a block, ...) is "
    "counted as 'other failure' and not judged",
]
REQUIRED = {"cases": 600, "accepted_and_run": 250, "rejected_by_analysis": 100, "instructions_started": 1500,
            "accepted_base_lines": 30, "accepted_condition_lines": 150, "accepted_regex_command_lines": 80}

BASE_UNITS_TRIED = ["s", "min", "h", "L", "mL", "CV", "DV", "g", "kg", "ms", "m", ""]


# ------------------------------------------------------------------------------------------------ UOD generation
EXTRA_TAGS = [("PT01", "bar", 1.0), ("Cond", "mS/cm", 2.0), ("Pct", "%", 50.0), ("VolPct", "vol%", 10.0),
              ("Area", "m2", 1.0), ("Mass", "kg", 3.0), ("AT01", "AU", 0.1), ("Txt", None, "Open"), ("Dur", "min", 2.0),
              ("Vol", "L", 1.0), ("Temp2", "degF", 70.0), ("N", None, 3)]
CMD_POOL = {
    "Short": ("default", None), "Long": ("default", None), "Noarg": ("none", None),
    "Set2": ("number", {"units": ["L/h"]}), "Flow": ("number", {"units": ["L/h", "L/min"]}),
    "Speed": ("number", {"units": ["%"], "non_negative": True}), "Count": ("number", {"units": None, "int_only": True}),
    "Level": ("number", {"units": None}), "Mode": ("cat", {"exclusive_options": ["A", "B"]}),
    "Valves": ("cat", {"exclusive_options": ["Closed"], "additive_options": ["VA01", "VA02", "VA03"]}),
    "Mix": ("cat", {"additive_options": ["X1", "X2"]}), "Inlet valve": ("default", None),
}
CMD_ARGS = {
    "Short": ["", "", "x"], "Long": ["", "5"], "Noarg": ["", "", "1"], "Inlet valve": ["open", "", "3 %"],
    "Set2": ["2.5 L/h", "3L/h", "4 L/min", "2.5", "-1 L/h", "x", "", "2 L/h "], "Flow": ["1 L/h", "2 L/min", "3 L/d", "1.5", ".5 L/h"],
    "Speed": ["10 %", "5%", "-5 %", "5", "5 vol%", "1e2 %"], "Count": ["3", "3.5", "-1", "03", "", "1e2"],
    "Level": ["3", "3.5", "-2", "-.5", "3 L", "abc"], "Mode": ["A", "B", "C", "A+B", "", "a"],
    "Valves": ["Closed", "VA01", "VA01+VA02", "Closed+VA01", "VA04", "VA01+", "+VA01"], "Mix": ["X1", "X1+X2", "X3", "", "X1X2"],
}


def draw_uod_spec(rnd: random.Random) -> dict:
    return {"tags": [t[0] for t in EXTRA_TAGS if rnd.random() < 0.6],
            "cmds": [c for c in CMD_POOL if rnd.random() < 0.7],
            "totalizer": rnd.random() < 0.45, "cv": rnd.random() < 0.2}


def make_factory(spec: dict):
    def factory(log):
        from opv.rigs import engine_rig as R
        from openpectus.engine.hardware import RegisterDirection
        from openpectus.lang.exec.regex import RegexNumber, RegexCategorical
        from openpectus.lang.exec.tags import Tag, TagDirection
        from openpectus.lang.exec.tags_impl import ReadingTag
        from openpectus.lang.exec.uod import UodBuilder

        def init(cmd):
            log.append((R.TICK[0], "init", cmd.name, cmd.instance_id, 0))

        def fin(cmd):
            log.append((R.TICK[0], "fin", cmd.name, cmd.instance_id, cmd.get_iteration_count()))

        def short_exec(cmd, **kw):
            log.append((R.TICK[0], "exec", cmd.name, cmd.instance_id, cmd.get_iteration_count()))
            cmd.set_complete()

        def long_exec(cmd, **kw):
            log.append((R.TICK[0], "exec", cmd.name, cmd.instance_id, cmd.get_iteration_count()))
            if cmd.get_iteration_count() >= 3:
                cmd.set_complete()

        b = (UodBuilder().with_instrument("Rig20").with_author("opv", "opv@example.invalid").with_filename("rig_uod")
             .with_hardware(R.RecordingHardware()).with_location("lab")
             .with_hardware_register("FT01", RegisterDirection.Both)
             .with_hardware_register("Out1", RegisterDirection.Write, safe_value=0)
             .with_tag(ReadingTag("FT01", "L/h"))
             .with_tag(Tag("Out1", value=0, unit=None, direction=TagDirection.Output))
             .with_tag(Tag("X", value=0, unit=None))
             .with_tag(Tag("TT01", value=20.0, unit="degC")))
        for name, unit, value in EXTRA_TAGS:
            if name in spec["tags"]:
                b = b.with_tag(Tag(name, value=value, unit=unit))
        for name in spec["cmds"]:
            kind, par = CMD_POOL[name]
            ex = long_exec if name == "Long" else short_exec
            if kind == "default":
                b = b.with_command(name=name, exec_fn=ex, init_fn=init, finalize_fn=fin)
            elif kind == "none":
                b = b.with_command(name=name, exec_fn=ex, init_fn=init, finalize_fn=fin, arg_parse_fn=None)
            elif kind == "number":
                b = b.with_command_regex_arguments(name=name, arg_parse_regex=RegexNumber(**par), exec_fn=ex,
                                                   init_fn=init, finalize_fn=fin)
            else:
                b = b.with_command_regex_arguments(name=name, arg_parse_regex=RegexCategorical(**par), exec_fn=ex,
                                                   init_fn=init, finalize_fn=fin)
        if spec["totalizer"] or spec["cv"]:
            b = b.with_tag(ReadingTag("Tot", "L")).with_hardware_register("Tot", RegisterDirection.Read) \
                 .with_accumulated_volume(totalizer_tag_name="Tot")
            if spec["cv"]:
                b = b.with_tag(Tag("ColVol", value=2.0, unit="L")).with_accumulated_cv(cv_tag_name="ColVol",
                                                                                       totalizer_tag_name="Tot")
        uod = b.build()
        uod.hwl.connect()
        return uod
    return factory


# ------------------------------------------------------------------------------------------------ method generation
def gen_method(rnd: random.Random, spec: dict, tagdefs: list[tuple[str, str | None]]) -> str:
    """Template grammar. Every statement draws its argument from a 'plausible' pool (what a user would expect to be
    valid) or, with the method's sloppiness p_bad, from a 'doubtful' pool just outside it. Which of them the analysis
    accepts is decided by the analysis, not here."""
    from openpectus.lang.exec.units import QUANTITY_UNIT_MAP
    units_all = [u for v in QUANTITY_UNIT_MAP.values() for u in v]
    lines: list[str] = []
    n = [0]
    macros: list[str] = []
    cmds = spec["cmds"]
    p_bad = rnd.choice([0.0, 0.0, 0.04, 0.1, 0.3])

    def pick(good, doubtful):
        return rnd.choice(doubtful) if rnd.random() < p_bad else rnd.choice(good)

    def quantity_mates(u):
        for v in QUANTITY_UNIT_MAP.values():
            if u in v:
                return v
        return [u]

    foreign_tags = [(t[0], t[1]) for t in EXTRA_TAGS if t[0] not in spec["tags"]] + [("Nosuchtag", None), ("FT02", "L/h")]
    foreign_cmds = [c for c in CMD_POOL if c not in cmds] + ["Frobnicate", "Shrt"]

    def cond(assign=False):
        name, unit = rnd.choice(foreign_tags) if rnd.random() < p_bad / 3 else rnd.choice(tagdefs)
        op = "=" if assign else rnd.choice(["<", "<=", ">", ">=", "=", "!="])
        value = rnd.choice(["0", "1", "5", "0.5", "10", "100", "7", "41", "1.5"])
        if unit is None and rnd.random() < 0.15:
            value = rnd.choice(["Open", "Running", "abc"])
        if rnd.random() < p_bad:
            u = rnd.choice([None, rnd.choice(units_all), unit])
        elif unit is None:
            u = None
        else:
            u = unit if rnd.random() < 0.6 else rnd.choice(quantity_mates(unit))
        return f"{name} {op} {value}" + (f" {u}" if u else "")

    def stmt(ind, depth):
        pad = " " * ind
        n[0] += 1
        r = rnd.random()
        if r < 0.14:
            lines.append(f"{pad}Mark: m{n[0]}")
        elif r < 0.30 and cmds:
            c = rnd.choice(foreign_cmds) if rnd.random() < p_bad / 3 else rnd.choice(cmds)
            pool = CMD_ARGS.get(c, [""])
            a = pick(pool[:max(1, len(pool) // 2)], pool)
            lines.append(f"{pad}{c}" + (f": {a}" if a != "" else ""))
        elif r < 0.40:
            u = pick(BASE_UNITS_TRIED[:9], BASE_UNITS_TRIED)
            lines.append(f"{pad}Base: {u}" if u else f"{pad}Base")
        elif r < 0.47:
            lines.append(f"{pad}{rnd.choice(['0.1', '0.2', '0', '0.05', '1'])} Mark: t{n[0]}")
        elif r < 0.53:
            lines.append(f"{pad}Wait: " + pick(['0.2s', '0.1 s', '0.01 min', '0.001 h', '.2s', '0.3s'],
                                               ['2', '0.5', 's', '-1s', '0.3 sec', '1e-1s', '0.2 ms']))
        elif r < 0.66 and depth < 2:
            lines.append(f"{pad}{rnd.choice(['Watch', 'Alarm'])}: {cond()}")
            for _ in range(rnd.randint(1, 2)):
                stmt(ind + 4, depth + 1)
        elif r < 0.72 and depth < 2:
            lines.append(f"{pad}Block: b{n[0]}")
            for _ in range(rnd.randint(1, 2)):
                stmt(ind + 4, depth + 1)
            lines.append(f"{pad}    End block")
        elif r < 0.76 and depth == 0:
            name = f"M{len(macros)}"
            lines.append(f"{pad}Macro: {name}")
            for _ in range(rnd.randint(1, 2)):
                stmt(ind + 4, 2)
            macros.append(name)
        elif r < 0.79 and macros:
            lines.append(f"{pad}Call macro: {rnd.choice(macros)}")
        elif r < 0.86:
            if rnd.random() < 0.7:
                lines.append(f"{pad}Simulate: {cond(assign=True)}")
            else:
                lines.append(f"{pad}Simulate off: {(rnd.choice(foreign_tags) if rnd.random() < p_bad / 3 else rnd.choice(tagdefs))[0]}")
        elif r < 0.90:
            lines.append(pad + pick(["Increment run counter", "Run counter: 3", "Run counter: 0", "Run counter: 12"],
                                    ["Run counter: 3.5", "Run counter: -1", "Run counter: x", "Run counter: 1e1", "Run counter",
                                     "Increment run counter: 1"]))
        elif r < 0.94:
            lines.append(pad + rnd.choice(["Info: hello", "Warning: careful", "Notify: done", "Batch: B1", "Info: a: b",
                                           "Error: told you"]))
        elif r < 0.98:
            lines.append(pad + pick(["Pause: 0.2s", "Hold: 0.2 s", "Hold: 0.01 min", "Hold: .2s", "Pause: 0.1s"],
                                    ["Pause: 1", "Hold: 5 x", "Pause: -1s", "Pause: 0.2", "Hold: 1e-1s", "Unpause", "Unhold"]))
        else:
            lines.append(pad + rnd.choice(["End blocks", "Mark: x"]))

    for _ in range(rnd.randint(2, 7)):
        stmt(0, 0)
    if rnd.random() < 0.2:
        lines.append("Stop")
    return "\n".join(lines) + "\n"


# ------------------------------------------------------------------------------------------------ classification
RX_NAME = re.compile(r"Tag name .* not found|Unknown tag|Unknown command|Invalid command type scheduled|Invalid instruction|"
                     r"Interpreter command .* is not supported|Unknown internal engine command|Command .* not found|"
                     r"Expected Uod to have command")
RX_ARG = re.compile(r"Invalid arguments for command|has invalid argument|Invalid argument '|Failed to initialize arguments|"
                    r"for command '.*' is not valid|Argument error")
RX_UNIT = re.compile(r"incompatible units|non-pint units|Invalid unit|DimensionalityError|UndefinedUnitError|Cannot convert|"
                     r"Conversion error|is not defined in the unit registry")


def exception_chain(ex):
    seen = []
    while ex is not None and ex not in seen:
        seen.append(ex)
        ex = ex.__cause__ or ex.__context__
    return seen


def describe(ex) -> dict:
    ch = exception_chain(ex)
    texts = []
    sites = []
    for e in ch:
        msg = getattr(e, "message", None) or str(e)
        texts.append(f"{type(e).__name__}: {' '.join(str(msg).split())}")
        sites += [f.name for f in traceback.extract_tb(e.__traceback__)]
    node = next((getattr(e, "node", None) for e in ch if getattr(e, "node", None) is not None), None)
    return {"text": " <- ".join(texts)[:600], "sites": sites, "node": node}


def failure_class(d: dict, rig=None) -> str:
    """The interpreter re-raises from its generator stack, so the raise site is identified by the node attached to the
    NodeInterpretationError and by the wrapper text ('Error evaluating condition: ...' is only produced around
    PInterpreter._evaluate_condition of a Watch/Alarm node)."""
    import openpectus.lang.model.ast as p
    t = d["text"]
    node = d["node"]
    if RX_NAME.search(t):
        return "undefined_name"
    if RX_ARG.search(t):
        return "invalid_argument"
    if isinstance(node, p.NodeWithCondition) and "Error evaluating condition" in t and RX_UNIT.search(t):
        if not re.search(r"incompatible units|non-pint units|Invalid unit|Cannot convert|not defined in the unit registry", t):
            # bare 'Conversion error' (TypeError while comparing): a unit problem only if two different units were involved
            c = node.tag_operator_value
            try:
                tag_unit = rig.e.tags[c.tag_name].unit
            except Exception:
                return "other"
            if c.tag_unit is None or tag_unit is None or c.tag_unit == tag_unit:
                return "other"
        return "incompatible_units"
    return "other"


def classify(cls: str, d: dict, rig, published_tags=()) -> str | None:
    """C20.base_units_static_list: `Base: u` with u in the analyzer's static list (regex.REGEX_BASE_ARG built from
    units.BASE_VALID_UNITS) but not registered with the UOD's base_unit_provider -> NodeInterpretationError
    "Base instruction has invalid argument 'u'" attached to the Base node."""
    from openpectus.lang.exec.units import BASE_VALID_UNITS
    import openpectus.lang.model.ast as p
    node = d["node"]
    if cls == "invalid_argument" and node is not None and node.instruction_name == "Base":
        m = re.search(r"Base instruction has invalid argument '([^']*)'", d["text"])
        if m and m.group(1) == node.arguments and m.group(1) in BASE_VALID_UNITS \
                and m.group(1) not in rig.e.uod.base_unit_provider.get_units():
            return "C20.base_units_static_list"
    # C20.simulate_off_unknown_tag_accepted: consequence of C19.simulate_off_unknown_dissimilar_tag_not_reported - the
    # analysis says nothing about `Simulate off: <t>` for an unknown t (longer than two characters, no similar published
    # tag name); the interpreter then fails in visit_SimulateOffNode with ValueError('Tag name <t> not found')
    if cls == "undefined_name" and isinstance(node, p.SimulateOffNode):
        m = re.search(r"Tag name (.*?) not found", d["text"])
        t = node.arguments
        if m and m.group(1) == t and len(t) > 2 and t not in published_tags and published_tags:
            from Levenshtein import ratio
            if max(ratio(t, n) for n in published_tags) <= 0.7:
                return "C20.simulate_off_unknown_tag_accepted"
    # C20.percent_tag_vs_molpercent_condition: tag unit '%', condition unit 'mol%': are_comparable('%', 'mol%') is True
    # (analysis and compare_values agree on that) but pint reads 'mol%' as mol * percent, the comparison of the two
    # quantities raises and compare_values turns it into ValueError('Conversion error')
    if cls == "incompatible_units" and isinstance(node, p.NodeWithCondition) and "Conversion error" in d["text"]:
        c = node.tag_operator_value
        try:
            tag_unit = rig.e.tags[c.tag_name].unit
        except Exception:
            return None
        if tag_unit == "%" and c.tag_unit == "mol%":
            return "C20.percent_tag_vs_molpercent_condition"
    return None


# ------------------------------------------------------------------------------------------------ rig
_L = None


def lsp():
    global _L
    if _L is None:
        import sys
        import types
        if "openpectus.aggregator.deps" not in sys.modules:
            import openpectus.aggregator  # noqa: F401  (empty package)
            stub = types.ModuleType("openpectus.aggregator.deps")
            stub.get_aggregator = lambda: None
            sys.modules["openpectus.aggregator.deps"] = stub
        import openpectus.lsp.lsp_analysis as L
        _L = L
    return _L


class Doc:
    version = 1

    def __init__(self, source):
        self.source = source


def check_case(case: dict, res: Result):
    from opv.rigs import engine_rig as R
    from openpectus.lang.exec.analyzer import AnalyzerItemType
    import openpectus.lang.model.ast as p
    L = lsp()
    spec = case["uod"]
    rnd = random.Random(case["seed"])
    rig = R.EngineRig(None, uod_factory=make_factory(spec), hooks=False)
    try:
        res.count("cases")
        # same start-up sequence as openpectus.engine.main: Engine(uod) -> validate_configuration -> build_commands
        rig.uod.validate_configuration()
        rig.uod.build_commands()
        uod_def = rig.uod.create_lsp_definition()
        uod_def.system_commands = rig.e.get_command_definitions()
        inp = L.AnalysisInput(L.build_commands(uod_def), L.build_tags(uod_def), "opv")
        tagdefs = [(t.name, t.unit) for t in uod_def.tags]
        text = case.get("text") or gen_method(rnd, spec, tagdefs)
        case = dict(case, text=text)
        try:
            result = L.analyze(inp, Doc(text))
        except Exception as ex:
            res.count("analysis_raised (C19, not judged here)")
            res.case(None, sample={"method": text, "analysis_raised": str(ex)[:120]})
            return
        errs = [it for it in result.items if it.type == AnalyzerItemType.ERROR]
        if errs:
            res.count("rejected_by_analysis")
            res.case(None)
            return
        res.count("accepted_and_run")
        for ln in text.split("\n"):
            s = ln.strip()
            if s.startswith("Base"):
                res.count("accepted_base_lines")
            elif re.match(r"(\d\S* )?(Watch|Alarm|Simulate):", s):
                res.count("accepted_condition_lines")
            elif any(s.startswith(c) for c in CMD_POOL if CMD_POOL[c][0] in ("number", "cat")):
                res.count("accepted_regex_command_lines")
        captured = []
        inner = rig.e.set_error_state

        def ses(ex, _inner=inner):
            captured.append(ex)
            return _inner(ex)
        rig.e.set_error_state = ses  # type: ignore
        rig.e.set_method(R.to_method(text))
        rig.start()
        traj = case["traj"]
        quiet = 0
        while rig.k < 120 and not captured:
            rig.hw.inputs["FT01"] = traj[min(rig.k, len(traj) - 1)]
            rig.hw.inputs["Tot"] = 0.05 * rig.k
            before = (rig.e.interpreter._program.child_index, len(rig.cmdlog))
            rig.tick(catch=True)
            quiet = quiet + 1 if before == (rig.e.interpreter._program.child_index, len(rig.cmdlog)) else 0
            if quiet >= 30 or rig.tick_exc:
                break
        prog = rig.program()
        started = sum(1 for nd in prog.get_all_nodes()[1:] if nd.started or nd.completed)
        res.count("instructions_started", started)
        if rig.tick_exc:
            res.count("tick_raised (C13, not judged here)")
        viol = []
        for ex in captured:
            d = describe(ex)
            cls = failure_class(d, rig)
            res.count("failure_" + cls)
            if cls == "other":
                res.count("other failure: " + re.sub(r"'[^']*'|[0-9]+", "_", d["text"].split(" <- ")[0].split("':")[-1])[:80].strip())
                continue
            where = f" at line {d['node'].position.line} '{d['node'].instruction_name}: {d['node'].arguments}'" \
                if d["node"] is not None else ""
            viol.append((classify(cls, d, rig, [t[0] for t in tagdefs]), f"analysis reported no error but the run failed with {cls.replace('_', ' ')}"
                         f"{where}: {d['text'][:300]}"))
        # commands that failed without reaching set_error_state (internal command .fail()): observed, not judged
        failed_nodes = [nd for nd in prog.get_all_nodes()[1:] if nd.failed]
        if failed_nodes and not captured:
            res.count("node_failed_without_error_state (not judged)")
        for mech, msg in viol:
            res.violation(mech, msg, case)
        key = None
        if started >= 3:
            from opv.gen_pcode import shape_hash
            key = h([sorted(spec["tags"]), sorted(spec["cmds"]), spec["totalizer"], spec["cv"], shape_hash(text)])
        res.case(key, sample={"uod": spec, "method": text, "ticks": rig.k, "started": started,
                              "failures": [describe(e)["text"][:120] for e in captured]})
    finally:
        rig.close()


def plan(tier, seed):
    if tier == "quick":
        shards, n = 8, 2400
    else:
        shards, n = 32, 60000
    return [{"seed": seed * 1000003 + i, "n": n // shards} for i in range(shards)]


def run_shard(spec):
    from opv.gen_pcode import trajectory
    res = Result()
    rnd = random.Random(spec["seed"])
    uod = draw_uod_spec(rnd)
    for j in range(spec["n"]):
        if j % 6 == 0:
            uod = draw_uod_spec(rnd)
        case = {"uod": uod, "seed": rnd.randrange(1 << 30), "traj": trajectory(rnd, 120)}
        check_case(case, res)
    return res


def replay(case):
    res = Result()
    check_case(case, res)
    return res
