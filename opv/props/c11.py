"""C11 - Command exclusivity and init/finalize pairing.

Per-instance automaton + per-tick exclusivity over the callback log of the instrumented UOD commands
(rig.cmdlog; instance ids are unique, so the history is unambiguous). See DESIGN.md C11."""
from __future__ import annotations

import random

from opv.core import Result
from opv.gen_pcode import trajectory, shape_hash

ID = "C11"
LEVEL = "exploration"
TECHNIQUE = "runtime monitoring: per-instance init/exec/finalize automaton and per-tick exclusivity over UOD callback log"
RULE = ("seeded P-code generator with ~45 % UOD command lines (Short/Long/Long2/Other/Drive1/Set1/Fail; Long and Long2 "
        "declared overlapping; durations long_n in 1..8 ticks, Fail raising at iteration 0..3) inside Block/Watch/Alarm/"
        "Macro structure, in 15 % of the methods a Stop/Restart line inserted at a random position (also inside "
        "Watch/Alarm bodies) x scripted FT01 trajectory x a schedule of 0-6 events between ticks (inject code issuing "
        "commands, cancel_instruction of a running instance, user Pause/Hold/Unpause/Unhold, Stop, Restart, Start after "
        "Stop). distinct = shape hash of method + event kinds; non-trivial = at least 2 command instances and at least "
        "one conflict (same-name/overlapping request while the older instance is alive), cancel, failure or stop with a "
        "live instance. 30 % of these runs use a UOD declared with 2-4 overlap lists drawn from the seed over "
        "Long/Long2/Other/Drive1/Short/Fail in which at least one command is a member of several lists (e.g. [Long, Long2], "
        "[Other, Long2], [Other, Short]); a second, directed stratum uses such UODs with a sequence of 2-6 single requests "
        "of the listed commands in a seeded order (every order arises), one request per tick, issued as consecutive method "
        "lines, separated by Mark/Wait lines, or injected 1-4 ticks apart while the earlier multi-tick commands still run, "
        "optionally followed by a Stop; two commands conflict iff they share ANY declared overlap list. A third, directed "
        "same-tick stratum (960 quick / 19 200 thorough runs) lets two or three interpreter paths - main program + body of a "
        "Watch or Alarm, two interrupt handlers with or without the main program, two Alarms with bodies of equal period "
        "(the burst repeats on lines requested and cancelled before), main program / Watch + injected code - issue "
        "same-name, overlapping or non-conflicting UOD commands timed onto ONE tick (~2/3 aligned, the rest one tick apart), "
        "with or without an older conflicting instance still running, under the standard and multi-list UODs, optionally "
        "inside a Block, followed by a later single request, a Stop/Restart or a cancel; same-tick requests are ordered by "
        "their arrival at CommandManager.schedule")
ASSUMPTIONS = [
    "'execute' is observed as a call of the command's exec function; an instance is alive from its init call to its "
    "finalize call; callbacks are logged by the rig UOD with cmd.instance_id",
    "quiescence = the tick at which System State becomes Stopped (all instances initialised up to then), or 30 ticks "
    "without any callback of an instance while the engine keeps ticking (running commands are executed on every tick, "
    "also while paused/held)",
    "two same-name/overlapping instances that both execute in one tick are reported even when the first was "
    "finalized before the second was initialised (the statement is per tick)",
    "6 % of the runs also issue UOD commands through execute_control_command_from_user; the statement quantifies over "
    "methods and injected code only, so anomalies in those runs are counted (unjudged_*), not judged",
    "request origin and aborted cancellations are observed by recording wrappers on CommandRequest.from_user and "
    "Tracking.mark_cancelled (classifiers only); the tick for which a request is received and the arrival order within "
    "that tick are observed by a recording wrapper on CommandManager.schedule (same-tick rules and classifiers)",
    "'declared as overlapping' = both names occur in at least one list given to UodBuilder.with_command_overlap; the "
    "relation is not transitive ([A, X] and [B, X] do not make A and B overlap) and does not depend on the order of the "
    "lists; multi-list UODs are the standard rig UOD with the lists declared through with_command_overlap",
    "same-tick bursts: 'requesting such a command first cancels the older one' is read in arrival order (order of the "
    "CommandManager.schedule calls, observed by the recording wrapper) also for requests received for one tick: a request "
    "followed in its tick by a conflicting request that is itself the newest of its conflict group in that tick must "
    "have no exec call from that tick on, and that newest request must be initialised unless Engine.set_error_state was "
    "called in that tick (command-manager loop aborted) or a Stop/Restart request was dequeued in that tick or the three "
    "ticks before. Not judged: a request followed only by conflicting requests that are themselves superseded in the "
    "tick by requests it does not conflict with (overlap is not transitive), and ticks containing a user-issued request. "
    "There is no known-finding class for bursts any more: every anomaly in or around a burst is judged and attributed "
    "to an observed cause (Stop/Restart queued behind the request, two requests under one instance id, aborted "
    "cancellation) or reported",
]
REQUIRED = {"instances_checked": 300, "exec_events": 1000, "conflicts_older_cancelled": 20, "cancel_requests": 5,
            "stops_with_live_instance": 5, "failed_instances": 5, "quiescence_checks": 100,
            # UODs with several overlap lists sharing commands (generated + directed stratum)
            "multi_overlap_runs": 600, "directed_multi_overlap_runs": 300, "multi_overlap_instances_checked": 2000,
            # a command that is a member of >= 2 overlap lists was requested while an instance of a different command
            # sharing one of those lists was alive / sharing only a list declared after the first one naming the requested
            # command / and that older instance was finalized in the tick of the request
            "multi_overlap_conflicts_with_command_in_several_lists": 300,
            "multi_overlap_conflicts_via_later_declared_list": 120,
            "multi_overlap_conflicts_older_cancelled": 300,
            # ticks with exactly one new UOD request that conflicts with a live instance of another command
            "multi_overlap_single_request_conflict_ticks": 400,
            # same-tick bursts (>= 2 mutually conflicting UOD requests received for one command-manager tick): all, with
            # an older conflicting instance alive / without, of >= 3 requests, same-name / overlapping pairs, repeated on
            # the same lines in one run; requests judged as superseded / as the newest of their conflict group
            "same_tick_conflicting_request_bursts": 400, "bursts_with_older_conflicting_instance_alive": 120,
            "bursts_without_older_instance": 200, "bursts_of_3_or_more_requests": 40, "bursts_with_same_name_pair": 150,
            "bursts_with_overlapping_pair": 200, "bursts_after_an_earlier_burst_of_the_run": 40,
            "burst_superseded_requests_judged": 400, "burst_newest_requests_judged": 400,
            "burst_newest_requests_started_in_their_tick": 350,
            # per source of the second/third request: Watch body, Alarm body, two interrupt handlers, injected code
            "bursts_in_directed_runs_watch": 50, "bursts_in_directed_runs_alarm": 50, "bursts_in_directed_runs_two": 60,
            "bursts_in_directed_runs_two_alarms": 50, "bursts_in_directed_runs_inject": 25,
            "bursts_in_directed_runs_watch_inject": 40}

OVERLAP = (frozenset(("Long", "Long2")),)
INJECT = ("Long\n", "Long2\n", "Other\n", "Fail\n", "Short\n", "Drive1\n", "Long\nLong2\n", "Mark: inj\nLong\n",
          "Long2\nLong\n")
USER_CMDS = ("Long", "Long2", "Other", "Drive1", "Short")
UOD_NAMES = ("Short", "Long", "Long2", "Other", "Fail", "Set1", "SetPlain", "Drive1", "Set2", "Mode")


def conflicts(a: str, b: str) -> bool:
    return a == b or any(a in o and b in o for o in OVERLAP)


def plan(tier, seed):
    n = 2400 if tier == "quick" else 60000
    nd = 480 if tier == "quick" else 9600       # directed multi-overlap runs (short: 2-6 requests, no structure)
    nb = 960 if tier == "quick" else 19200      # directed same-tick runs (two or three paths aligned on one tick)
    shards = 16 if tier == "quick" else 48
    return [{"seed": seed * 1000003 + i, "n": n // shards, "n_directed": nd // shards, "n_burst": nb // shards,
             "max_depth": 3 if tier == "quick" else 4}
            for i in range(shards)]


# pool of the multi-overlap configurations: the multi-tick commands (weighted up) plus Short and Fail
OV_POOL = ("Long", "Long2", "Other", "Drive1", "Long", "Long2", "Other", "Drive1", "Short", "Fail")
MULTI_CMDS = ("Long", "Long2", "Other", "Drive1", "Short", "Long", "Long2", "Other", "Drive1", "Set1: 3")
MULTI_INJECT = ("Long\n", "Long2\n", "Other\n", "Drive1\n", "Short\n", "Fail\n", "Other\n", "Drive1\n",
                "Long\nOther\n", "Mark: inj\nLong2\n", "Drive1\nLong2\n")


def gen_overlaps(rnd: random.Random) -> list[list[str]]:
    """2-4 overlap lists of 2-3 commands each, pairwise different as sets, at least one command in >= 2 lists.
    The order of the lists and of the names inside a list is part of the configuration."""
    while True:
        lists: list[list[str]] = []
        for _ in range(rnd.choice([2, 2, 3, 3, 4])):
            size = rnd.choice([2, 2, 2, 3])
            o: list[str] = []
            while len(o) < size:
                c = rnd.choice(OV_POOL)
                if c not in o:
                    o.append(c)
            lists.append(o)
        if len({frozenset(o) for o in lists}) != len(lists):
            continue
        flat = [c for o in lists for c in o]
        if any(flat.count(c) >= 2 for c in flat):
            return lists


def gen_directed(rnd: random.Random):
    """Directed multi-overlap run: a seeded sequence of single requests of commands from the overlap lists, at most one
    request per tick, the earlier (multi-tick) ones still running when the next arrives."""
    overlaps = gen_overlaps(rnd)
    listed = sorted({c for o in overlaps for c in o})
    multi = [c for c in listed if c not in ("Short",)]
    k = rnd.choice([2, 3, 3, 4, 4, 5, 6])
    # a permutation of the listed commands (every order arises over the seeds), continued with repeats if k is larger
    perm = rnd.sample(multi, len(multi))
    seq = perm[:k]
    while len(seq) < k:
        seq.append(rnd.choice(listed))
    long_n = rnd.choice([3, 4, 6, 8, 8])
    mode = rnd.choice(["method", "method_spaced", "inject", "mixed"])
    sched: list[list] = []
    lines = ["Base: s"]
    t = rnd.randint(3, 6)
    for i, c in enumerate(seq):
        by_method = mode in ("method", "method_spaced") or (mode == "mixed" and i % 2 == 0)
        if by_method:
            if mode != "method" and i and rnd.random() < 0.6:
                lines.append(rnd.choice(["Mark: m%d" % i, "Wait: 0.2s", "Wait: 0.4s"]))
            lines.append(c)
        else:
            sched.append([t, "inject", c + "\n"])
            t += rnd.randint(1, 4)
    if mode in ("inject", "mixed"):
        lines.append("Wait: %.1fs" % (0.1 * (t + 2)))     # keep the method running while the injections arrive
    last = t + (2 * len(seq) if mode != "inject" else 0)
    r = rnd.random()
    if r < 0.35:
        sched.append([last + rnd.randint(0, 6), "user", "Stop"])
    elif r < 0.45:
        sched.append([last + rnd.randint(0, 6), "user", "Restart"])
    elif r < 0.55:
        sched.append([last + rnd.randint(0, 3), "cancel", rnd.randint(0, 3)])
    sched.sort(key=lambda s: s[0])
    return {"text": "\n".join(lines) + "\n", "traj": [0.0], "long_n": long_n, "fail_at": rnd.randint(1, 3),
            "sched": sched, "overlaps": overlaps, "directed": mode}

BURST_NAMES = ("Long", "Long2", "Other", "Drive1", "Short")


def gen_burst(rnd: random.Random):
    """Directed same-tick stratum: two or three UOD requests issued by different interpreter paths (main program + body
    of a Watch / Alarm, two interrupt handlers, injected code) timed so that - for ~2/3 of the cases - they reach
    CommandManager.schedule in ONE tick (the rest are near misses, one tick apart), same-name / overlapping /
    non-conflicting, with and without an older instance still running, under the standard and under multi-list UODs,
    optionally followed by a later single request, a Stop/Restart or a cancel. Interrupt handlers run after the main
    program within a tick, a later registered handler after an earlier one, injected code after the method lines."""
    from opv.rigs.cmd_rig import make_conflicts
    multi = rnd.random() < 0.4
    overlaps = gen_overlaps(rnd) if multi else None
    ov = overlaps if multi else [sorted(o) for o in OVERLAP]
    conf = make_conflicts(ov)
    names = list(BURST_NAMES) + (["Fail"] if any("Fail" in o for o in ov) else [])
    pairs = [(x, y) for x in names for y in names if x != y and conf(x, y)]
    free = [(x, y) for x in names for y in names if not conf(x, y)]
    kind = rnd.choice(["same", "same", "overlap", "overlap", "overlap", "free"])
    if kind == "same":
        a = b = rnd.choice(names)
    elif kind == "overlap":
        a, b = rnd.choice(pairs)
    else:
        a, b = rnd.choice(free)
    partners = [x for x in names if conf(x, a) or conf(x, b)]
    c = rnd.choice(partners) if rnd.random() < 0.7 else rnd.choice(names)
    older = rnd.choice([None, None, a, b, rnd.choice(partners), rnd.choice(partners), rnd.choice(names)])
    later = rnd.choice([None, None, None, a, b, rnd.choice(partners)])
    struct = rnd.choice(["watch", "watch", "alarm", "alarm", "two", "two", "two_nomain", "inject", "watch_inject",
                         "two_alarms"])
    in_block = rnd.random() < 0.25
    w = rnd.choice([0.4, 0.5, 0.6])
    j = rnd.choice([0.0, 0.0, 0.0, 0.0, 0.1, -0.1])        # 0 = the paths are aligned on one tick
    opener = "Alarm: FT01 > 3 L/h" if struct == "alarm" else "Watch: Run Counter >= 0"
    lines = ["Base: s"]
    if older:
        lines.append(older)
    ind = ""
    if in_block:
        lines.append("Block: b1")
        ind = "    "
    sched: list[list] = []
    # tick in which the main path's request is dequeued (measured on the rig; only used to place the schedule events)
    est = 3 + 2 * bool(older) + bool(in_block)
    if struct in ("watch", "alarm", "watch_inject"):
        lines += [ind + opener, ind + "    Wait: %.1fs" % w, ind + "    " + b,
                  ind + "Wait: %.1fs" % (w + 0.1 + j), ind + a]
        est += round(10 * (w + 0.1 + j)) + 7
        if struct == "watch_inject":
            sched.append([est - 3 + rnd.choice([0, 0, 0, 1, -1]), "inject", c + "\n"])
    elif struct == "two_alarms":
        # two Alarms with bodies of equal duration, the second registered two ticks later: the burst repeats with every
        # alarm period, on lines that were requested (and cancelled) before and with the previous winner still running
        lines += [ind + "Alarm: FT01 > 3 L/h", ind + "    Wait: %.1fs" % w, ind + "    " + b,
                  ind + "Alarm: FT01 > 3 L/h", ind + "    Wait: %.1fs" % (w - 0.2 + j), ind + "    " + c,
                  ind + "    Mark: p"]
        est += round(10 * w) + 8
    elif struct in ("two", "two_nomain"):
        lines += [ind + opener, ind + "    Wait: %.1fs" % w, ind + "    " + b,
                  ind + "Watch: Run Counter >= 0", ind + "    Wait: %.1fs" % (w - 0.2 + j), ind + "    " + c]
        if struct == "two":
            lines += [ind + "Wait: %.1fs" % (w - 0.1 + rnd.choice([0.0, 0.0, 0.0, 0.1, -0.1])), ind + a]
        est += round(10 * w) + 8
    else:
        lines += [ind + "Wait: %.1fs" % (w + 0.1), ind + a]
        est += round(10 * (w + 0.1)) + 5
        sched.append([est - 3 + round(10 * j), "inject", b + "\n"])
        if rnd.random() < 0.4:
            sched.append([est - 3 + round(10 * j), "inject", c + "\n"])
    if later:
        lines += [ind + "Wait: %.1fs" % rnd.choice([0.2, 0.3, 0.6]), ind + later]
    lines.append(ind + "Wait: %.1fs" % rnd.choice([0.5, 1.5, 2.0]))
    if in_block:
        lines.append(ind + "End block")
    r = rnd.random()
    if r < 0.12:
        sched.append([est + rnd.randint(-2, 8), "user", "Stop"])
    elif r < 0.2:
        sched.append([est + rnd.randint(-2, 8), "user", "Restart"])
    elif r < 0.3:
        sched.append([est + rnd.randint(-1, 6), "cancel", rnd.randint(0, 3)])
    sched.sort(key=lambda s: s[0])
    case = {"text": "\n".join(lines) + "\n", "traj": [6.0] * 45 + [0.0],
            "long_n": rnd.choice([2, 6, 12, 16, 16]), "fail_at": rnd.randint(1, 3), "sched": sched,
            "burst": struct}
    if multi:
        case["overlaps"] = overlaps
    return case


def gen_case(rnd: random.Random, max_depth=3):
    from opv.rigs.cmd_rig import CmdGen, CMDS
    overlaps = gen_overlaps(rnd) if rnd.random() < 0.3 else None      # None = the rig's standard single [Long, Long2]
    cmds = (CMDS if overlaps is None else MULTI_CMDS) + (("Fail",) if rnd.random() < 0.3 else ())
    inject = INJECT if overlaps is None else MULTI_INJECT
    g = CmdGen(rnd, p_uod=0.45, uod_cmds=cmds, max_depth=max_depth,
               allow=("mark", "uod", "wait", "block", "watch", "alarm", "macro", "thr", "pausehold", "blank"),
               thr_values=("0.2", "0.5", "1", "0", "0.3"), allow_stop=rnd.random() < 0.2)
    text = g.program(rnd.randint(3, 9))
    if rnd.random() < 0.15:
        # method-issued Stop/Restart anywhere (also inside Watch/Alarm/Block bodies)
        from opv.rigs.cmd_rig import insert_line
        t2 = insert_line(text, rnd.randint(1, 12), rnd.choice(["Stop", "Restart"]))
        text = t2 if t2 is not None else text
    sched = []
    user_uod = rnd.random() < 0.06     # unjudged stratum, see ASSUMPTIONS
    for _ in range(rnd.choice([0, 1, 2, 2, 3, 4, 6])):
        t = rnd.randint(2, 45)
        kind = rnd.choice(["inject", "inject", "inject", "user" if user_uod else "inject", "cancel", "cancel", "stop",
                           "restart", "pause", "hold"])
        if kind == "inject":
            sched.append([t, "inject", rnd.choice(inject)])
        elif kind == "user":
            sched.append([t, "user", rnd.choice(USER_CMDS)])
            if rnd.random() < 0.3:      # a second request before the same tick
                sched.append([t, "user", rnd.choice(USER_CMDS)])
        elif kind == "cancel":
            sched.append([t, "cancel", rnd.randint(0, 3)])
        elif kind == "stop":
            sched.append([t, "user", "Stop"])
            if rnd.random() < 0.5:
                sched.append([t + rnd.randint(2, 5), "user", "Start"])
        elif kind == "restart":
            sched.append([t, "user", "Restart"])
        elif kind == "pause":
            sched.append([t, "user", "Pause"])
            sched.append([t + rnd.randint(1, 6), "user", "Unpause"])
        else:
            sched.append([t, "user", "Hold"])
            sched.append([t + rnd.randint(1, 6), "user", "Unhold"])
    sched.sort(key=lambda s: s[0])
    case = {"text": text, "traj": trajectory(rnd, 200), "long_n": rnd.choice([1, 2, 3, 4, 4, 6, 8]),
            "fail_at": rnd.randint(0, 3), "sched": sched}
    if overlaps is not None:
        case["overlaps"] = overlaps
    return case


def check_case(case, res: Result):
    from opv.rigs import engine_rig as R
    from opv.rigs import cmd_rig as CR

    CR.install_request_hooks()
    CR.install_schedule_hook()
    CR.reset_request_hooks()
    CR.REQS.clear()
    ov = case.get("overlaps")
    if ov is None:
        overlaps = [sorted(o) for o in OVERLAP]
        rig = R.EngineRig(case["text"], long_n=case["long_n"], fail_at=case["fail_at"])
    else:
        overlaps = [list(o) for o in ov]
        rig = R.EngineRig(case["text"], uod_factory=CR.overlap_uod_factory(overlaps, case["long_n"], case["fail_at"]))
    conflicts = CR.make_conflicts(overlaps)      # same name, or both in ANY one declared overlap list
    multi = ov is not None
    raw: list[tuple] = []            # (mech, msg, involved instance ids)
    sched = [tuple(s) for s in case["sched"]]
    last_sched = max([s[0] for s in sched], default=0)
    stop_ticks: list[int] = []          # ticks at whose end the state is Stopped after having been something else
    live_at_stop_request = 0
    cancels = 0
    try:
        rig.start()
        prev_state = rig.state
        last_ev_tick = 0
        stopped_for = 0
        while rig.k < 170:
            for (t, kind, arg) in sched:
                if t != rig.k:
                    continue
                if kind == "inject":
                    try:
                        rig.e.inject_code(arg)
                        res.count("injections")
                    except Exception:
                        res.count("injections_rejected")
                elif kind == "user":
                    if arg in ("Stop", "Restart") and _live(rig.cmdlog):
                        live_at_stop_request += 1
                    ok = rig.user(arg)
                    res.count("user_" + arg + ("" if ok else "_rejected"))
                elif kind == "cancel":
                    live = _live(rig.cmdlog)
                    if live:
                        iid = live[arg % len(live)]
                        try:
                            rig.e.cancel_instruction(iid)
                            cancels += 1
                        except Exception:
                            res.count("cancel_rejected")
            rig.hw.inputs["FT01"] = case["traj"][min(rig.k, len(case["traj"]) - 1)]
            n0 = len(rig.cmdlog)
            rig.tick()
            if len(rig.cmdlog) != n0:
                last_ev_tick = rig.k
            st = rig.state
            if st == "Stopped" and prev_state != "Stopped":
                stop_ticks.append(rig.k)
            stopped_for = stopped_for + 1 if st == "Stopped" else 0
            prev_state = st
            if rig.k > last_sched:
                if stopped_for >= 3 or rig.k - last_ev_tick >= 32:
                    break
        log = list(rig.cmdlog)
        declared = [list(o) for o in rig.uod.overlapping_command_names_lists]
        error_ticks = {e[0] for e in rig.errors}       # ticks in which Engine.set_error_state was called (classifier only)
        end_tick = rig.k
        end_state = rig.state
        leftover = sorted(rig.uod.command_instances)
        user_iids = set(CR.USER_IIDS)
        # user-issued requests whose cancellation aborted inside Tracking.mark_cancelled (NullNode is not cancellable)
        user_cancel_failed = {f[1] for f in CR.CANCEL_MARK_FAILS if f[1] in user_iids and f[2] == "NullNode"}
        reqs = [q for q in CR.REQS if q[1] in UOD_NAMES]
        all_reqs = list(CR.REQS)
        # instances whose cancellation aborted inside Tracking.mark_cancelled (node.cancel() refused) before finalize
        cancel_aborted = {f[1] for f in CR.CANCEL_MARK_FAILS if f[1] is not None}
    finally:
        rig.close()

    # ---------------------------------------------------------------- oracle over the callback log
    if declared != overlaps:
        raise RuntimeError(f"harness: UOD declares overlap lists {declared}, case asked for {overlaps}")
    res.count("cancel_requests", cancels)
    res.count("stops_with_live_instance", live_at_stop_request)
    per: dict[str, list] = {}
    order: list[str] = []
    for ev in log:
        if ev[3] not in per:
            per[ev[3]] = []
            order.append(ev[3])
        per[ev[3]].append(ev)
    name_of = {iid: evs[0][2] for iid, evs in per.items()}
    conflict_seen = 0
    failed = 0

    def V(mech, msg, involved, tick=None):
        # tick is given for the exclusivity rules (a pair of instances at one tick), None for per-instance rules
        raw.append((mech, msg, tuple(involved), tick))

    # (1) automaton per instance
    for iid in order:
        evs = per[iid]
        res.count("instances_checked")
        phases = [e[1] for e in evs]
        nm = name_of[iid]
        if phases[0] != "init":
            V("C11.exec_before_init", f"instance {iid[:8]} of {nm}: first callback is {phases[0]} "
              f"at tick {evs[0][0]} ({phases[:6]})", [iid])
        if phases.count("init") > 1:
            V("C11.init_twice", f"instance {iid[:8]} of {nm}: {phases.count('init')} init calls at ticks "
              f"{[e[0] for e in evs if e[1] == 'init']}", [iid])
        if phases.count("fin") > 1:
            V("C11.finalize_twice", f"instance {iid[:8]} of {nm}: {phases.count('fin')} finalize calls at ticks "
              f"{[e[0] for e in evs if e[1] == 'fin']}", [iid])
        if "fin" in phases and phases.index("fin") != len(phases) - 1:
            after = phases[phases.index("fin") + 1:]
            if "exec" in after or "init" in after:
                V("C11.callback_after_finalize", f"instance {iid[:8]} of {nm}: {after[:6]} after finalize "
                  f"(tick {evs[phases.index('fin')][0]})", [iid])
        res.count("exec_events", phases.count("exec"))
        if nm == "Fail" and any(e[1] == "exec" and e[4] >= case["fail_at"] for e in evs):
            failed += 1
    res.count("failed_instances", failed)

    # (2) exclusivity: lifetimes and per tick
    alive: dict[str, str] = {}           # instance id -> name (init seen, no fin)
    exec_in_tick: dict[int, list[str]] = {}
    alive_at_tick_start: dict[int, set] = {}
    cur_tick = None
    for ev in log:
        tick, phase, nm, iid, _ = ev
        if tick != cur_tick:
            cur_tick = tick
            alive_at_tick_start[tick] = set(alive)
        if phase == "init":
            if any(o != iid and conflicts(onm, nm) for o, onm in alive.items()):
                conflict_seen += 1      # judged at the exec below
            alive[iid] = nm
        elif phase == "exec":
            for o, onm in alive.items():
                if o != iid and conflicts(onm, nm):
                    V("C11.older_conflicting_instance_not_cancelled",
                      f"instance {iid[:8]} of {nm} executes at tick {tick} while instance {o[:8]} of {onm} "
                      f"(init tick {per[o][0][0]}) is still alive - the older one was not cancelled and finalized first",
                      [iid, o], tick)
            lst = exec_in_tick.setdefault(tick, [])
            if iid not in lst:
                lst.append(iid)
        elif phase == "fin":
            alive.pop(iid, None)
    for tick, iids in exec_in_tick.items():
        for i in range(len(iids)):
            for j in range(i + 1, len(iids)):
                a, b = iids[i], iids[j]
                if conflicts(name_of[a], name_of[b]):
                    both_new = a not in alive_at_tick_start[tick] and b not in alive_at_tick_start[tick]
                    mech = "C11.two_requests_in_one_tick_both_execute" if both_new else \
                        "C11.older_instance_executes_in_tick_of_replacement"
                    V(mech, f"tick {tick}: instances {a[:8]} ({name_of[a]}) and {b[:8]} ({name_of[b]}) both "
                      f"have an exec call in this tick", [a, b], tick)
    # older instance cancelled by a newer conflicting request: fin of O in the tick of N's init, O alive before
    older_cancelled = 0
    for iid in order:
        t_init = per[iid][0][0]
        for o in order:
            if o == iid or not conflicts(name_of[o], name_of[iid]):
                continue
            oe = per[o]
            if oe[0][0] < t_init and oe[-1][1] == "fin" and oe[-1][0] == t_init and o in alive_at_tick_start.get(t_init, ()):
                older_cancelled += 1
    res.count("conflicts_older_cancelled", older_cancelled)
    if multi:
        res.count("multi_overlap_runs")
        if case.get("directed"):
            res.count("directed_multi_overlap_runs")
            res.count("directed_" + case["directed"])
        res.count("multi_overlap_instances_checked", len(order))
        # request of a command while an instance of a *different* conflicting command was alive at the start of the tick
        for iid in order:
            nm, t_init = name_of[iid], per[iid][0][0]
            if per[iid][0][1] != "init":
                continue
            mine = [o for o in overlaps if nm in o]             # declared lists with the requested command, in order
            for o in alive_at_tick_start.get(t_init, ()):
                onm = name_of[o]
                if o == iid or onm == nm or not conflicts(onm, nm):
                    continue
                res.count("multi_overlap_conflicts")
                if len(mine) >= 2:
                    res.count("multi_overlap_conflicts_with_command_in_several_lists")
                    if onm not in mine[0]:
                        # the running command shares only a later declared list with the requested one
                        res.count("multi_overlap_conflicts_via_later_declared_list")
                    if per[o][-1][1] == "fin" and per[o][-1][0] == t_init:
                        res.count("multi_overlap_conflicts_older_cancelled")
                if len([x for x in overlaps if onm in x]) >= 2:
                    res.count("multi_overlap_conflicts_with_running_command_in_several_lists")

    # (2b) same-tick bursts: >= 2 UOD requests received for one command-manager tick (arrival order = order of the
    #      CommandManager.schedule calls). "requesting such a command first cancels the older one": a request that is
    #      followed, in its own tick, by a conflicting request which is itself not superseded in that tick (the *newest*
    #      of its conflict group) never executes from that tick on; that newest request is the one that gets started.
    uod_reqs_at: dict[int, list] = {}
    for q in reqs:
        uod_reqs_at.setdefault(q[0], []).append(q)
    ctl_req_ticks = {q[0] for q in all_reqs if q[1] in ("Stop", "Restart")}
    n_bursts_in_run = 0
    for t, qs in sorted(uod_reqs_at.items()):
        if len(qs) < 2 or t > end_tick:
            continue
        if any(q[3] == "user" or q[2] in user_iids for q in qs):
            res.count("ticks_with_several_uod_requests_one_user_issued_unjudged")     # see ASSUMPTIONS
            continue
        res.count("ticks_with_several_uod_requests")
        newest = [not any(conflicts(q[1], o[1]) for o in qs[j + 1:]) for j, q in enumerate(qs)]
        grp = [q for q in qs if any(o is not q and conflicts(o[1], q[1]) for o in qs)]
        if len(grp) < 2:
            res.count("ticks_with_several_non_conflicting_uod_requests")
            continue
        older_alive = [o for o in alive_at_tick_start.get(t, ()) if any(conflicts(name_of[o], q[1]) for q in grp)]
        res.count("same_tick_conflicting_request_bursts")
        res.count("bursts_of_3_or_more_requests" if len(grp) >= 3 else "bursts_of_2_requests")
        res.count("bursts_with_older_conflicting_instance_alive" if older_alive else "bursts_without_older_instance")
        if any(a[1] == b[1] for i, a in enumerate(grp) for b in grp[i + 1:]):
            res.count("bursts_with_same_name_pair")
        if any(a[1] != b[1] and conflicts(a[1], b[1]) for i, a in enumerate(grp) for b in grp[i + 1:]):
            res.count("bursts_with_overlapping_pair")
        if case.get("burst"):
            res.count("bursts_in_directed_runs_" + case["burst"])
        n_bursts_in_run += 1
        if n_bursts_in_run >= 2:
            res.count("bursts_after_an_earlier_burst_of_the_run")
        for i, q in enumerate(qs):
            sup = [o for j, o in enumerate(qs) if j > i and newest[j] and conflicts(q[1], o[1])]
            if sup:
                res.count("burst_superseded_requests_judged")
                ex = [e for e in per.get(q[2], ()) if e[1] == "exec" and e[0] >= t]
                if ex:
                    V("C11.earlier_request_of_tick_executes_although_newer_conflicting_request_in_same_tick",
                      f"tick {t}: requests in arrival order {[(o[1], o[2][:8]) for o in qs]}: {q[1]} {q[2][:8]} was "
                      f"followed in the same tick by the conflicting request {sup[-1][1]} {sup[-1][2][:8]} but executes "
                      f"at ticks {ex[0][0]}..{ex[-1][0]} ({len(ex)} exec calls) - the older request was not cancelled; "
                      f"callbacks of the newer one: {[(e[0], e[1]) for e in per.get(sup[-1][2], ())][:4]}",
                      [q[2], sup[-1][2]], t)
                else:
                    res.count("burst_superseded_requests_never_executed")
            elif any(conflicts(q[1], o[1]) for o in qs[:i]):
                # the newest request of a conflict group of this tick: it has to be started unless the command-manager
                # loop of that tick was aborted by an exception or a Stop/Restart was being processed
                res.count("burst_newest_requests_judged")
                if q[2] in per:
                    res.count("burst_newest_requests_started")
                    if per[q[2]][0][0] == t:
                        res.count("burst_newest_requests_started_in_their_tick")
                elif t in error_ticks or any(t - 3 <= c <= t for c in ctl_req_ticks):
                    res.count("burst_newest_requests_not_started_excused_error_or_stop")
                else:
                    olds = [o for o in qs[:i] if conflicts(q[1], o[1])]
                    V("C11.newest_request_of_tick_never_started",
                      f"tick {t}: requests in arrival order {[(o[1], o[2][:8]) for o in qs]}: {q[1]} {q[2][:8]} is the "
                      f"newest of its conflict group but was never initialised (no Stop/Restart/error in that tick); "
                      f"callbacks of the older requests of the tick: "
                      f"{[(o[1], o[2][:8], [(e[0], e[1]) for e in per.get(o[2], ())][:3]) for o in olds]}",
                      [q[2]] + [o[2] for o in olds], t)
            elif any(conflicts(q[1], o[1]) for o in qs[i + 1:]):
                # followed only by conflicting requests that are themselves superseded in this tick by requests this one
                # does not conflict with (overlap is not transitive): the statement does not say which of them applies
                res.count("burst_requests_followed_only_by_superseded_conflicting_requests_unjudged")

    # (3) quiescence
    def fin_tick(iid):
        return next((e[0] for e in per[iid] if e[1] == "fin"), None)
    for st in stop_ticks:
        res.count("quiescence_checks")
        for iid in order:
            if per[iid][0][0] <= st and (fin_tick(iid) is None or fin_tick(iid) > st):
                V(_classify_leak(per, iid, st), f"Stop completed at tick {st} but instance {iid[:8]} of {name_of[iid]} "
                  f"(init tick {per[iid][0][0]}, last callback {per[iid][-1][1]} at tick {per[iid][-1][0]}) was not "
                  f"finalized by then; uod.command_instances at end={leftover}", [iid])
    if end_tick < 170:
        res.count("quiescence_checks")
        for iid in order:
            if fin_tick(iid) is None and end_tick - per[iid][-1][0] >= 30 and not any(per[iid][0][0] <= st for st in stop_ticks):
                V("C11.instance_never_finalized", f"instance {iid[:8]} of {name_of[iid]} (init tick {per[iid][0][0]}) had "
                  f"no callback for {end_tick - per[iid][-1][0]} ticks and was never finalized; "
                  f"uod.command_instances={leftover}", [iid])
    else:
        res.count("runs_not_quiescent_at_cap")

    kinds = sorted({s[1] + ":" + str(s[2]).split("\n")[0] for s in sched})
    interesting = len(order) >= 2 and (conflict_seen or cancels or failed or live_at_stop_request)
    ov_key = tuple(tuple(o) for o in overlaps) if multi else None
    res.case((shape_hash(case["text"]), kinds, ov_key) if interesting else None,
             sample={"method": case["text"], "sched": case["sched"], "long_n": case["long_n"], "instances": len(order),
                     "conflicts": conflict_seen, "ticks": end_tick, "overlaps": overlaps})
    # ---- narrow classifiers
    # There is no class "conflicting requests in one tick" any more: since /repo 1e1c6889 + 0e30d6ff a same-tick burst is
    # resolved correctly (the newest request of the tick is started, the older ones are dropped), so every anomaly in or
    # around a burst is judged by (1), (2), (2b) and attributed below to the cause that is actually observed in the run
    # (Stop/Restart queued behind the request, two requests under one instance id, aborted cancellation, ...).
    if multi:
        # ticks whose only new UOD request conflicts, through a different command name, with an instance alive at the
        # start of that tick
        for t, qs in uod_reqs_at.items():
            if len(qs) == 1 and any(name_of[a] != qs[0][1] and conflicts(name_of[a], qs[0][1])
                                    for a in alive_at_tick_start.get(t, ()) if a in name_of):
                res.count("multi_overlap_single_request_conflict_ticks")

    seen_req: dict[str, int] = {}
    for q in reqs:
        seen_req[q[2]] = seen_req.get(q[2], 0) + 1
    dup_req = {i for i, c in seen_req.items() if c >= 2}

    init_ticks = {i: [e[0] for e in evs if e[1] == "init"] for i, evs in per.items()}
    stop_race = CR.stop_race_tainted(all_reqs, alive_at_tick_start, name_of, conflicts, UOD_NAMES, init_ticks)

    # (name, stop tick) of instances touched by the Stop race that were still alive when that Stop completed
    leaked = [(name_of[i], st) for st in stop_ticks for i in stop_race
              if i in per and per[i][0][0] <= st and (fin_tick(i) is None or fin_tick(i) > st)]

    ctl_ticks = ctl_req_ticks
    req_ticks: dict[str, list] = {}
    for q in reqs:
        req_ticks.setdefault(q[2], []).append(q[0])

    # (e) a request left without instance by an aborted command-manager loop: it was dequeued in tick tq together with a
    #     newer Fail request; Fail (newest first) raised in its exec, the exception left the loop over the executing list
    #     before this request was started; a Stop/Restart dequeued in the next tick runs its cancel phase first (cancel "by
    #     name" finds no instance and leaves the request), then the request starts - after the cancel phase
    pending_after_abort = set()
    for i in order:
        tq = req_ticks.get(i, [])
        if len(tq) == 1 and tq[0] in error_ticks and per[i][0][1] == "init" and per[i][0][0] > tq[0] \
                and per[i][0][0] in ctl_ticks \
                and any(e[0] == tq[0] and e[1] == "exec" and e[2] == "Fail" and e[3] != i and e[4] >= case["fail_at"]
                        for e in log):
            pending_after_abort.add(i)
    leaked_pending = [(name_of[i], st) for st in stop_ticks for i in pending_after_abort
                      if per[i][0][0] <= st and (fin_tick(i) is None or fin_tick(i) > st)]

    seen = set()
    unjudged = bool(user_iids & set(order))
    for mech, msg, involved, vtick in raw:
        if unjudged:
            # runs containing UOD commands issued through execute_control_command_from_user are outside the
            # statement's quantifier (methods and injected code); anomalies there are counted, not judged
            res.count("unjudged_anomalies_in_runs_with_user_issued_uod_commands")
            if any(i in user_cancel_failed for i in involved):
                res.count("unjudged_user_issued_command_cancel_aborted_before_finalize")
            continue
        started = [i for i in involved if i in name_of]      # involved requests that ever had a callback
        if any(i in stop_race for i in involved):
            # (d) a UOD request queued before a Stop/Restart of the same tick survives the Stop's cancel phase
            mech = "C11.request_queued_before_stop_in_same_tick"
        elif any(i in pending_after_abort for i in involved) or (
                started and leaked_pending and all(
                    any(conflicts(name_of[i], ln) and per[i][0][0] > lt for ln, lt in leaked_pending)
                    for i in started)):
            # (e) and its cascade (the surviving instance is re-used by name by later requests, as in (d'))
            mech = "C11.request_left_pending_by_failed_tick_starts_after_stop_cancel_phase"
        elif any(i in dup_req for i in involved):
            # (c) two CommandRequests were scheduled under one instance id: visit_UodCommandNode takes
            #     record.last_instance_id instead of the id created for its own visit, so two interpreter paths walking
            #     the same line (stale Watch/Alarm handler surviving a reset, see C02 findings) request "the same" instance
            mech = "C11.two_requests_share_one_instance_id"
        elif started and all(any(conflicts(name_of[i], ln) and per[i][0][0] > lt for ln, lt in leaked) for i in started):
            # (d') cascade of (d): the instance that survived an earlier Stop/Restart stays in uod.command_instances and
            #      is re-used *by name* by every later request of that command (exec under the old id, no init)
            mech = "C11.request_queued_before_stop_in_same_tick"
        elif any(i in cancel_aborted for i in involved):
            # (b) CommandManager._cancel_command called cmd.cancel() on the instance, then Tracking.mark_cancelled raised
            #     because the AST node refused node.cancel() (its cancel flag was already set by an earlier cancel of
            #     another instance of the same line); the finalize step was skipped, the newer request then finalizes
            #     the old instance in its own name and is dropped, and the old request re-creates itself
            mech = "C11.cancel_aborted_before_finalize_node_refused_cancel"
        if (mech, msg) in seen:
            continue
        seen.add((mech, msg))
        res.violation(mech, msg, case)


def _live(cmdlog) -> list[str]:
    """instance ids with init and without fin, in init order"""
    alive: list[str] = []
    for ev in cmdlog:
        if ev[1] == "init" and ev[3] not in alive:
            alive.append(ev[3])
        elif ev[1] == "fin" and ev[3] in alive:
            alive.remove(ev[3])
    return alive


def _classify_leak(per, iid, stop_tick):
    """An instance initialised in the very tick in which the Stop/Restart performed its cancel phase (the tick before
    System State became Stopped), i.e. a request that sat behind the Stop request in the executing list."""
    return "C11.instance_alive_after_stop"


def run_shard(spec):
    res = Result()
    rnd = random.Random(spec["seed"])
    for _ in range(spec["n"]):
        check_case(gen_case(rnd, spec.get("max_depth", 3)), res)
    rnd = random.Random(spec["seed"] * 7919 + 17)
    for _ in range(spec.get("n_directed", 0)):
        check_case(gen_directed(rnd), res)
    rnd = random.Random(spec["seed"] * 104729 + 29)
    for _ in range(spec.get("n_burst", 0)):
        check_case(gen_burst(rnd), res)
    return res


def replay(case):
    res = Result()
    check_case(case, res)
    return res
