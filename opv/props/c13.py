"""C13 - Engine ticks never crash; method errors pause the run.

Hostile workload (corrupted grammar methods, raw unicode lines, random injected snippets, random user
command schedules) against the real engine on the virtual clock. Deciding observations:
  * exceptions out of Engine.tick (caught around rig.tick, with the traceback's function names)  -> never allowed
  * `failed` False->True descriptor events of AST nodes, judged at the end of the same tick  -> Paused / Error /
    failed_line_ids
  * after an error: Stop accepted and Stopped within 4 ticks; corrected method clears Method Status
See DESIGN.md C13."""
from __future__ import annotations

import gc
import random

from opv.core import Result
from opv.gen_pcode import Gen, shape_hash

ID = "C13"
LEVEL = "exploration"
TECHNIQUE = ("runtime monitoring: exception monitor on Engine.tick plus end-of-tick state oracle on node `failed` "
             "transitions, under fuzzed methods / injections / user command schedules")
RULE = ("seeded P-code generator output with 0-4 random corruptions (unknown commands/tags, bad units, bad arguments, "
        "wrong indentation, missing arguments, stray colons, unicode, very long lines, scripted failing UOD command, "
        "Simulate/Watch/Alarm on engine-owned system tags) or "
        "raw random unicode lines; x random injected snippets (valid and unparsable) x random user command schedule "
        "(Pause/Unpause/Hold/Unhold/Stop/Start/Restart/UOD/unknown names); 30 ticks (thorough 45) on the virtual clock; "
        "afterwards either Stop or a corrected method followed by Stop. distinct = shape hash of the method text + "
        "corruption kinds + outcome; non-trivial = the run reached the error state, or code was injected, or a user "
        "command was accepted")
ASSUMPTIONS = [
    "hardware fake and UOD callbacks stay inside their declared domains; the only scripted callback failure is the "
    "UOD command `Fail`, which raises ValueError from exec (a failing instruction in the sense of the statement)",
    "Engine.set_method / inject_code raising to their caller is allowed (not a tick); only Engine.tick must not raise",
    "'failing instruction' = an AST node whose `failed` flag goes False->True; membership in failed_line_ids is only "
    "asserted for nodes of the method program (injected nodes and user-command null nodes are not method lines)",
    "the end-of-tick state (Paused/Error) is judged only when no user Stop/Restart was issued in the 3 preceding "
    "ticks and the engine is not Stopped/Restarting at tick end (Stop legitimately overrides the pause); a tick that "
    "ends Running with Method Status Error is counted, not judged, when an Unpause/Unhold/Start command is in the "
    "method, in injected code or was issued by the user in the 3 preceding ticks (it executes in the command phase "
    "after the interpreter phase of the same tick)",
    "'corrected method' = every line reported in failed_line_ids replaced by a valid Mark line, all other lines "
    "unchanged, submitted through Engine.set_method while the run is paused by the error",
]
REQUIRED = {"ticks": 50000, "failed_node_events": 500, "failed_line_judged": 300, "stop_after_error_checks": 150,
            "corrected_method_checks": 150, "inject_calls": 500, "user_cmds_accepted": 300}

USER_CMDS = ["Pause", "Unpause", "Hold", "Unhold", "Stop", "Start", "Restart", "Short", "Long", "Fail", "Bogus",
             "Pause", "Unpause", "Hold", "Unhold"]

UNI = ["é", "中", "م", "ر", "ح", "ب", "ا", "µ", "°", "ß", "‮", "​", "😀", "ñ", "Ω", "́", "﻿", "\xa0"]


def plan(tier, seed):
    n = 10000 if tier == "quick" else 160000
    shards = 16 if tier == "quick" else 64
    per = n // shards
    return [{"seed": seed * 1000003 + 7919 * i + 13, "n": per, "ticks": 30 if tier == "quick" else 45}
            for i in range(shards)]


# ------------------------------------------------------------------------------------------------ generators
def _uni(rnd, n):
    return "".join(rnd.choice(UNI) for _ in range(n))


def corrupt_line(rnd: random.Random, line: str) -> tuple[str, str]:
    """Returns (kind, new line). Indentation of the original line is kept unless the kind is about indentation."""
    ind = len(line) - len(line.lstrip(" "))
    pad = " " * ind
    body = line.strip()
    kind = rnd.choice(["unknown_cmd", "unknown_tag", "bad_unit", "bad_arg", "indent", "missing_arg", "colons",
                       "unicode", "long", "fail_cmd", "threshold", "control", "sim_system_tag"])
    if kind == "sim_system_tag":
        tag = rnd.choice(["Connection Status", "Process Time", "Run Time", "System State", "Clock", "Base", "Run Counter",
                          "Block Time", "Scope Time", "Method Status", "Run Id", "Block", "Mark", "Batch Name",
                          "Accumulated Volume", "Block Volume"])
        val = rnd.choice(["1", "10 ms", "5 s", "abc", "x", "kg", "0", "-1", "Connected", "Error", "2 L", "1 h", "0.5 min"])
        return kind, pad + rnd.choice([f"Simulate: {tag} = {val}", f"Simulate: {tag} = {val}", f"Simulate off: {tag}",
                                       f"Watch: {tag} > {val}", f"Alarm: {tag} = {val}"])
    if kind == "unknown_cmd":
        return kind, pad + rnd.choice(["Bogus", "Bogus: 1", "Shrt", "mark: a", "MARK: a", "Danger: zz", "Noop: x",
                                       "Call macro: nope", "End", "Endblock", "Start", "Unpause", "Unhold"])
    if kind == "unknown_tag":
        return kind, pad + rnd.choice(["Watch: Nope > 1", "Alarm: Nope = 2", "Simulate: Nope = 1", "Simulate off: Nope",
                                       "Watch: Mark = A", "Watch: ft01 > 1 L/h", "Simulate off: FT01",
                                       "Simulate: Mark = 3"])
    if kind == "bad_unit":
        return kind, pad + rnd.choice(["Watch: FT01 > 3 kg", "Wait: 1 kg", "Set2: 2.5 kg", "Base: kg", "Pause: 5 x",
                                       "Hold: 1 L", "Watch: TT01 > 3 L/h", "Alarm: FT01 > 3 degC", "Base: L",
                                       "Simulate: FT01 = 3 kg", "Watch: X > 1 s", "Base: CV", "Wait: 1 %"])
    if kind == "bad_arg":
        return kind, pad + rnd.choice(["Wait: abc", "Set1: abc", "Mode: C", "Run counter: x", "Hold: -1s", "Set2: x L/h",
                                       "Wait: -1s", "Set1: 1.5", "Set1: 99999999999999999999999", "Wait: 1e400s",
                                       "Run counter: 1.5", "Watch: X = a", "Watch: X != 2", "Watch: FT01 > abc L/h",
                                       "Mode: A+B", "Short: 3", "Increment run counter: 3", "Set2: 2.5", "Wait: nan s",
                                       "Wait: inf s", "Simulate: X = abc", "Watch: FT01 == 3 L/h", "Wait: 0x10s"])
    if kind == "indent":
        how = rnd.choice(["plus", "minus", "tab", "odd"])
        if how == "plus":
            return kind, " " * (ind + rnd.choice([1, 2, 4, 8, 12])) + body
        if how == "minus":
            return kind, " " * max(0, ind - rnd.choice([1, 2, 4, 8])) + body
        if how == "tab":
            return kind, "\t" + body
        return kind, " " * rnd.choice([1, 3, 5, 7]) + body
    if kind == "missing_arg":
        return kind, pad + rnd.choice(["Watch", "Wait", "Mark", "Block", "Macro", "Alarm", "Watch: FT01 >", "Set1",
                                       "Call macro", "Watch:", "Mark:", "Block:", "Alarm: FT01", "Simulate", "Base",
                                       "Simulate: X =", "Simulate off", "Run counter", "Set2", "Mode", "Wait:",
                                       "Watch: > 1", "Macro:", "Call macro:", "Batch", "Notify", "Info"])
    if kind == "colons":
        return kind, pad + rnd.choice([": x", "Mark:: a", "Mark: a: b:", "::", "Watch: : > 1", ":", "Mark :a", "Wait:: 1s",
                                       "Block: a: b", ": :", "0.5: Mark: a", "Mark: a #: c", "#:", "Set1:: 3"])
    if kind == "unicode":
        return kind, pad + rnd.choice(["Mark: " + _uni(rnd, 3), _uni(rnd, rnd.randint(1, 8)), "Märk: x",
                                       "Watch: " + _uni(rnd, 2) + " > 1", "Block: " + _uni(rnd, 4),
                                       "Macro: " + _uni(rnd, 2), "Wait: 1" + _uni(rnd, 1), _uni(rnd, 1) + " Mark: a",
                                       "Mark: a\r", "Mark:\ta", "Mark: a\x0b", "Mark: \x00", "Info: " + _uni(rnd, 6),
                                       "Batch: " + _uni(rnd, 3), "# " + _uni(rnd, 5), "Call macro: " + _uni(rnd, 2)])
    if kind == "long":
        n = rnd.choice([300, 2000, 6000])
        return kind, pad + rnd.choice(["Mark: " + "a" * n, "Wait: " + "9" * n + "s", "9" * (n // 10) + " Mark: a",
                                       "B" * n, "Watch: FT01 > " + "1" * n + " L/h", "Block: " + "b" * n,
                                       "Mark: a" + " " * n, "Set1: " + "7" * n, "Info: " + "i: " * (n // 3),
                                       "Call macro: " + "M" * n, "Mark: " + "# " * (n // 2)])
    if kind == "fail_cmd":
        return kind, pad + "Fail"
    if kind == "threshold":
        return kind, pad + rnd.choice(["1.5.2 Mark: z", "-1 Mark: a", ".5 Mark: b", "1e3 Mark: c", "0.0.1 Wait: 1s",
                                       "1,5 Mark: d", "0.1 0.2 Mark: e", "1. Mark: f", "0.2", "0.2 # c", "0.3 Short x"])
    # control: engine control commands inside the method
    return "control", pad + rnd.choice(["Stop", "Restart", "Pause", "Hold", "Pause: 0.2s", "Hold: 0.2s", "Unpause",
                                        "Unhold", "Pause: 0s", "Hold: 0s", "Pause: abc"])


def raw_lines(rnd: random.Random) -> str:
    alphabet = list("abcXYZ019 :#.<>=-+%/\\\t'\"()[]{}|&^~`$@!?,;_") + UNI + ["Mark", "Watch", "Block", "End block",
                                                                              "Wait", "Macro", "Alarm", "FT01", "L/h",
                                                                              "    ", "  ", ": ", "Call macro", "s"]
    out = []
    for _ in range(rnd.randint(1, 10)):
        out.append(" " * rnd.choice([0, 0, 0, 4, 4, 8, 1]) + "".join(rnd.choice(alphabet) for _ in range(rnd.randint(0, 14))))
    return "\n".join(out) + "\n"


SNIPPETS = ["Mark: i1", "Short", "Long\nMark: i2", "Wait: 0.3s\nMark: i3", "Block: ib\n    Mark: x\n    End block",
            "Watch: FT01 > 2 L/h\n    Mark: w", "Bogus", "    Mark: indented", "Watch: Nope > 1\n    Mark: n",
            "Call macro: nope", "Macro: IM\n    Mark: a", "Call macro: M0", "End block", "End blocks", "Stop", "Restart",
            "Pause", "Hold: 0.2s", "", "\n\n", "Fail", "Wait: abc", "Base: kg", "Alarm: X = 0\n    Mark: ia",
            "Mark", "Watch", ": x", "Set1: abc", "Mode: C", "Unpause", "# only a comment", "0.5 Mark: thr",
            "Simulate: X = 3", "Simulate off: Nope", "Increment run counter", "Block: open\n    Mark: never ended",
            "Other\nOther", "Long\nLong2", "Mark: a\n        Mark: b", "Macro: M0\n    Mark: redefined",
            "Call macro: IM", "Base: s", "Base: min", "Info: hi", "Notify: n", "Batch: b", "Run counter: x",
            "Simulate: Connection Status = 1", "Simulate: Process Time = 10 ms", "Simulate: Run Time = abc",
            "Simulate: System State = Stopped", "Simulate off: Process Time"]


def gen_case(rnd: random.Random, ticks: int) -> dict:
    kinds = []
    if rnd.random() < 0.12:
        text = raw_lines(rnd)
        kinds.append("raw")
    else:
        g = Gen(rnd, max_depth=3, allow_stop=rnd.random() < 0.15)
        text = g.program(rnd.randint(2, 8))
        lines = text.split("\n")[:-1]
        for _ in range(rnd.choice([0, 1, 1, 1, 2, 2, 3, 4])):
            i = rnd.randrange(len(lines))
            k, new = corrupt_line(rnd, lines[i])
            kinds.append(k)
            if rnd.random() < 0.25:
                lines.insert(i, new)
            else:
                lines[i] = new
        text = "\n".join(lines) + "\n"
    injects = []
    for _ in range(rnd.choice([0, 0, 1, 1, 2, 3])):
        sn = rnd.choice(SNIPPETS)
        if rnd.random() < 0.1:
            sn = _uni(rnd, rnd.randint(1, 5)) + rnd.choice(["", ": ", "\n"]) + sn
        injects.append((rnd.randint(0, ticks - 2), sn))
    users = []
    for k in range(ticks):
        if rnd.random() < 0.07:
            users.append((k, rnd.choice(USER_CMDS)))
    traj = [rnd.choice([0.0, 0.0, 2.0, 4.0, 6.0]) for _ in range(ticks + 20)]
    return {"text": text, "kinds": sorted(set(kinds)), "injects": sorted(injects), "users": users, "traj": traj,
            "ticks": ticks, "post": rnd.choice(["stop", "fix", "fix"]), "fail_at": rnd.choice([1, 1, 2, 3])}


# ------------------------------------------------------------------------------------------------ monitor
def check_case(case: dict, res: Result):
    from opv.rigs import engine_rig as R
    from openpectus.lang.exec.errors import MethodEditError

    text = case["text"]
    viol: list[tuple[str | None, str]] = []
    try:
        rig = R.EngineRig(text, fail_at=case.get("fail_at", 1))
    except Exception as ex:     # loading garbage may be refused by set_method; that is not a tick (C17/C19 cover parsing)
        res.count("set_method_raised_on_load")
        res.case(None, sample={"method": text[:300], "load_error": f"{type(ex).__name__}: {ex}"[:200]})
        R.install_virtual_time(None)
        return
    injects = {}
    for k, sn in case["injects"]:
        injects.setdefault(k, []).append(sn)
    users = {}
    for k, c in case["users"]:
        users.setdefault(k, []).append(c)
    mm = rig.e.method_manager
    errs: list = []          # exceptions handed to Engine.set_error_state (looked up on the instance at call time)
    _orig_ses = rig.e.set_error_state

    def _ses(ex, _o=_orig_ses):
        errs.append(ex)
        return _o(ex)
    rig.e.set_error_state = _ses  # type: ignore
    accepted_users = 0
    inject_ok = 0
    last_stop_restart = -10
    judged = 0
    method_has_stop = any(ln.strip().split(":")[0].strip() in ("Stop", "Restart") for ln in text.split("\n"))
    # an Unpause / Unhold / Start engine command that executes in the command phase of the failing tick (after the
    # interpreter phase) legitimately overrides the pause within that tick
    # (a Pause/Hold with a duration ends with an internal Unpause/Unhold in the command phase)
    unpause_in_code = bool(_UNPAUSE_RE.search(text))
    last_unpause = -10
    try:
        if not rig.user("Start"):
            viol.append((None, "Start rejected on a freshly constructed engine"))
        for k in range(case["ticks"]):
            rig.hw.inputs["FT01"] = case["traj"][k]
            for sn in injects.get(k, ()):
                res.count("inject_calls")
                if _UNPAUSE_RE.search(sn):
                    unpause_in_code = True
                try:
                    rig.e.inject_code(sn)
                    inject_ok += 1
                    res.count("inject_accepted")
                except Exception:
                    res.count("inject_raised_to_caller")     # allowed
            for c in users.get(k, ()):
                res.count("user_cmds")
                if rig.user(c):
                    accepted_users += 1
                    res.count("user_cmds_accepted")
                    if c in ("Stop", "Restart"):
                        last_stop_restart = rig.k
                    if c in ("Unpause", "Unhold", "Start"):
                        last_unpause = rig.k
            n0 = len(R.TRACE)
            ne0 = len(errs)
            nexc = len(rig.tick_exc)
            tb = _tick(rig)
            res.count("ticks")
            if tb is not None:
                viol.append((_classify_exception(rig, tb), f"Engine.tick raised at tick {rig.k}: {tb[0]}: {tb[1]} "
                                                                f"(via {' > '.join(tb[2][-4:])})"))
                break
            # ---- failing instruction => Paused / Error / failed_line_ids, judged at the end of the same tick.
            # Two independent triggers: a node's `failed` flag going True, and Engine.set_error_state being called from
            # inside the tick (the exception names the failing node when the interpreter knows it).
            failed_events = [e for e in R.TRACE[n0:] if e[1] == "failed" and e[5] is True]
            if failed_events:
                # Only nodes the engine can currently reach count. Generators of a discarded interpreter (after Stop /
                # Restart / an earlier case) are finalised by the garbage collector at arbitrary moments; if a `finally`
                # clause of PInterpreter.visit raises there, the enclosing frames mark their (dead) nodes failed.
                live = _live_node_ids(rig)
                dead = [e for e in failed_events if e[6] not in live]
                if dead:
                    res.count("failed_events_on_unreachable_nodes_ignored", len(dead))
                    failed_events = [e for e in failed_events if e[6] in live]
            err_calls = errs[ne0:]
            if failed_events or err_calls:
                res.count("failed_node_events", len(failed_events))
                res.count("error_state_calls_in_tick", len(err_calls))
                state = rig.state
                status = str(rig.tag("Method Status"))
                ambiguous = (rig.k - last_stop_restart <= 3) or state in ("Stopped", "Restarting")
                if {"System State", "Method Status"} & _simulated(rig):
                    # the reported state is masked by a Simulate instruction: the observation channel is not usable
                    res.count("failed_tick_ambiguous_state_tag_simulated")
                elif ambiguous:
                    res.count("failed_tick_ambiguous_stop_or_restart_in_flight")
                elif method_has_stop and state != "Paused":
                    res.count("failed_tick_ambiguous_method_has_stop")
                elif (unpause_in_code or rig.k - last_unpause <= 3) and state != "Paused" and status == "Error":
                    res.count("failed_tick_ambiguous_unpause_in_flight")
                else:
                    judged += 1
                    res.count("failed_tick_judged")
                    what = [(e[2], e[3]) for e in failed_events] or [type(x).__name__ for x in err_calls]
                    if state != "Paused" or status != "Error":
                        viol.append(("C13.failed_instruction_did_not_pause",
                                     f"tick {rig.k}: {what} failed but System State={state} Method Status={status}"))
                    if not rig.e.has_error_state():
                        viol.append(("C13.failed_instruction_without_error_state",
                                     f"tick {rig.k}: {what} failed but engine.has_error_state() is False"))
                    if failed_events and not err_calls:
                        viol.append(("C13.failed_node_without_error_state_call",
                                     f"tick {rig.k}: {what} marked failed but Engine.set_error_state was not called"))
                    ms = mm.get_method_state()
                    cand = [(e[2], e[6], e[3]) for e in failed_events]
                    for x in err_calls:
                        nd = getattr(x, "node", None)
                        if nd is not None and (nd.id, id(nd), type(nd).__name__) not in cand:
                            cand.append((nd.id, id(nd), type(nd).__name__))
                    for nid, pyid, cls in cand:
                        node = mm.program.get_child_by_id(nid, include_self=True)
                        if node is None or id(node) != pyid:
                            res.count("failed_non_method_node")     # injected node / user command null node
                            continue
                        res.count("failed_line_judged")
                        if nid not in ms.failed_line_ids:
                            reset_same_tick = any(x[1] == "failed" and x[5] is False and x[6] == pyid for x in R.TRACE[n0:])
                            in_alarm = any(type(a).__name__ == "AlarmNode" for a in node.parents)
                            mech = "C13.failed_flag_reset_by_alarm_rearm" if (reset_same_tick and in_alarm) else \
                                "C13.failed_line_not_reported"
                            viol.append((mech, f"tick {rig.k}: line {nid} ({cls}: {_line(text, nid)!r}) failed but "
                                               f"failed_line_ids={ms.failed_line_ids} (flag reset in same tick: "
                                               f"{reset_same_tick}, inside Alarm: {in_alarm})"))
        # ---- responsiveness after an error
        err = rig.e.has_error_state() and not rig.tick_exc
        state = rig.state
        if err and {"System State", "Method Status"} & _simulated(rig):
            # reported state and command gating read a tag masked by Simulate (same family as SIM_KEY); counted only
            res.count("error_runs_not_post_checked_state_tag_simulated")
        elif err and state not in ("Stopped", "Restarting") and rig.k - last_stop_restart > 3:
            res.count("runs_ending_in_error")
            did_fix = False
            if case["post"] == "fix":
                ms = mm.get_method_state()
                cur = [(ln.id, ln.content) for ln in mm._method.lines]
                failed = [i for i in ms.failed_line_ids if any(i == a for a, _ in cur)]
                if failed:
                    new = []
                    for i, c in cur:
                        if i in failed:
                            ind = len(c) - len(c.lstrip(" "))
                            new.append((i, " " * ind + f"Mark: fixed{i}"))
                        else:
                            new.append((i, c))
                    res.count("corrected_method_checks")
                    did_fix = True
                    try:
                        rig.e.set_method(R.method_from_lines(new, version=0))
                        status = str(rig.tag("Method Status"))
                        if status != "OK" or rig.e.has_error_state():
                            viol.append(("C13.corrected_method_did_not_clear_status",
                                         f"after correcting failed line(s) {failed}: Method Status={status} "
                                         f"has_error_state={rig.e.has_error_state()}"))
                    except MethodEditError as ex:
                        # a failing line that cannot be corrected because the engine classifies it as protected
                        in_macro = False
                        for fid in failed:
                            node = mm.program.get_child_by_id(fid)
                            if node is not None and any(type(a).__name__ == "MacroNode" and a.run_started_count > 0
                                                        for a in node.parents):
                                in_macro = True
                        # a macro defined by *injected* code (negative node id) that has been called makes the
                        # validation reject every later edit ("may not be deleted": it is not a method line)
                        inj_macro = any(_re.fullmatch(r"-\d+", str(m.id)) and m.run_started_count > 0
                                        for m in mm.program.macros.values())
                        viol.append(("C13.failed_line_in_started_macro_cannot_be_corrected" if in_macro
                                     else "C13.injected_started_macro_blocks_live_edit" if inj_macro
                                     else "C13.corrected_method_rejected",
                                     f"correcting failed line(s) {failed} rejected: {ex}"[:400]))
                    except Exception as ex:
                        import traceback as _tb
                        tb = (type(ex).__name__, str(ex)[:300], [f.name for f in _tb.extract_tb(ex.__traceback__)])
                        viol.append((_classify_exception(rig, tb) or "C13.corrected_method_raised",
                                     f"correcting failed line(s) {failed} raised {type(ex).__name__}: {ex} "
                                     f"(via {' > '.join(tb[2][-3:])})"[:400]))
                    # a few ticks with the corrected method: still no exception out of tick
                    for _ in range(3):
                        tb = _tick(rig)
                        res.count("ticks")
                        if tb is not None:
                            viol.append((_classify_exception(rig, tb), f"Engine.tick raised after corrected method at tick "
                                                                       f"{rig.k}: {tb[0]}: {tb[1]}"))
                            break
                else:
                    res.count("error_without_failed_method_line")
            if rig.state not in ("Stopped", "Restarting") and not rig.tick_exc:
                res.count("stop_after_error_checks")
                if did_fix:
                    res.count("stop_after_fix_checks")
                if not rig.user("Stop"):
                    viol.append(("C13.stop_rejected_after_error", f"Stop rejected in state {rig.state} after an error"))
                else:
                    ok = False
                    late_failure = False
                    for j in range(4):
                        ne0 = len(errs)
                        tb = _tick(rig)
                        res.count("ticks")
                        if len(errs) > ne0 and not rig.e._runstate_started and rig.state == "Paused":
                            # Stop completed in this tick (run no longer started) and a command that was still in the
                            # old command manager's list failed afterwards in the same command phase
                            late_failure = True
                        if tb is not None:
                            viol.append((_classify_exception(rig, tb), f"Engine.tick raised while stopping at tick {rig.k}: "
                                                                       f"{tb[0]}: {tb[1]}"))
                            break
                        if rig.state == "Stopped":
                            ok = True
                            break
                    if not ok and not rig.tick_exc:
                        viol.append(("C13.command_failing_after_stop_completed_leaves_paused" if late_failure
                                     else "C13.stop_not_reached_after_error",
                                     f"Stop accepted after an error but System State={rig.state} after 4 ticks "
                                     f"(run started flag {rig.e._runstate_started}, errors {rig.errors[-1:]})"))
        elif err:
            res.count("error_runs_not_post_checked")
        nontrivial = err or inject_ok > 0 or accepted_users > 0
        key = (shape_hash(text), tuple(case["kinds"]), bool(err), inject_ok > 0, accepted_users > 0) if nontrivial else None
        res.case(key, sample={"method": text[:400], "kinds": case["kinds"], "injects": case["injects"][:3],
                              "users": case["users"][:5], "ended_in_error": bool(err), "failed_ticks_judged": judged})
    finally:
        rig.close()
        del rig
        gc.collect()        # finalise this case's interpreter generators now, not during the next case
    seen = set()
    for mech, msg in viol:
        if (mech, msg) in seen:
            continue
        seen.add((mech, msg))
        res.violation(mech, msg, case)


import re as _re


def _tick(rig):
    """One tick; returns None or (exception type name, text, [function names of the traceback, outermost first])."""
    import traceback
    try:
        rig.tick()
        return None
    except Exception as ex:  # noqa - recorded in rig.tick_exc by the rig as well
        return (type(ex).__name__, str(ex)[:300], [f.name for f in traceback.extract_tb(ex.__traceback__)])


def _live_node_ids(rig) -> set:
    """python ids of all AST nodes reachable from the engine right now: the method program, the program the
    interpreter runs, nodes of registered interrupts (injected code) and the null nodes of user commands."""
    out = set()
    try:
        e = rig.e
        progs = [e.method_manager.program, e.interpreter._program]
        for pr in progs:
            for n in pr.get_all_nodes():
                out.add(id(n))
        for intr in e.interpreter.interrupts:
            out.add(id(intr.node))
            for n in intr.node.get_child_nodes(recursive=True):
                out.add(id(n))
        info = e.interpreter.runtimeinfo
        for n in list(info._null_node_map.values()) + list(info._injected_node_map.values()):
            out.add(id(n))
            if hasattr(n, "get_child_nodes"):
                for ch in n.get_child_nodes(recursive=True):
                    out.add(id(ch))
    except Exception:
        pass
    return out


SIM_KEY = "C13.simulate_masks_engine_owned_tag"


def _simulated(rig) -> set:
    try:
        return {t.name for t in rig.e._system_tags.tags.values() if getattr(t, "simulated", False)}
    except Exception:
        return set()


def _classify_exception(rig, tb) -> str | None:
    """Narrow causal shape of the known way in which engine code raises: a `Simulate:` instruction masks an
    engine-owned system tag and engine bookkeeping reads the masked value back (the traceback must pass through the
    reading function and that very tag must be simulated right now). Anything else stays unclassified."""
    simulated = _simulated(rig)
    if tb[0] == "AssertionError" and "notify_tag_updates" in tb[2] and "Connection Status" in simulated:
        return SIM_KEY
    if tb[0] == "ValueError" and "update_calculated_tags" in tb[2] and "as_float" in tb[2] and \
            ({"Process Time", "Run Time"} & simulated):
        return SIM_KEY
    if tb[0] in ("TypeError", "ValueError", "OverflowError", "OSError") and "format_time_as_clock" in tb[2] and \
            "Clock" in simulated:
        return SIM_KEY
    return None


_UNPAUSE_RE = _re.compile(r"Unpause|Unhold|(Pause|Hold)\s*:")


def _line(text: str, lid: str) -> str:
    try:
        return text.split("\n")[int(lid[1:])][:80]
    except Exception:
        return "?"


def run_shard(spec):
    res = Result()
    rnd = random.Random(spec["seed"])
    for _ in range(spec["n"]):
        check_case(gen_case(rnd, spec["ticks"]), res)
    return res


def replay(case):
    res = Result()
    check_case(case, res)
    return res
