"""C04 - Watch runs once after its condition holds; Alarm re-arms.

Trace invariant over (condition evaluations, activation / registration / cancel / force flag transitions, body child
starts, block-end events, request log) of the real interpreter, see DESIGN.md C04.

Observation (attached from the harness, nothing in /repo or the shared rig is edited; see opv/rigs/interrupt_hooks.py):
* engine_rig descriptors (started, completed, activated, interrupt_registered, block_ended, run_count, ...)
* two more descriptors of the same kind for Node._cancelled / Node._forced (accepted cancel / force = flag goes True,
  a reset of the flag by reset_runtime_state is visible as well)
* wrappers around PInterpreter._evaluate_condition / _register_interrupt / _unregister_interrupt and h_enter/h_exit
  brackets around every step of an interrupt handler; all of them append to the same TRACE list, so that the order
  of everything is the order of execution and it is known in whose handler an event happened.
"""
from __future__ import annotations

import random
import re
from decimal import Decimal

from opv.core import Result
from opv.gen_pcode import Gen, shape_hash
from opv.rigs.interrupt_hooks import install, HITS, QUIET

ID = "C04"
LEVEL = "exploration"
TECHNIQUE = ("runtime monitoring: trace invariant over condition evaluations, activation/cancel/force flags, body "
             "starts and block-end events of generated runs with requests placed around the activation tick")
RULE = ("(a) focus templates: one Watch/Alarm under 0-3 wrappers (Block / always-true Watch / Alarm / macro call) with "
        "a body of 1-3 lines, followed by Wait + End block(s) when inside a block; (b) seeded P-code generator programs "
        "(Block, End block(s) also inside interrupt bodies, Watch, Alarm, Macro, Wait, thresholds, UOD commands). "
        "A dry run locates registration / block-end / activation ticks; the FT01 trajectory (const, step up/down, "
        "pulse of width 1-3, ramp, plateau exactly at the threshold) crosses the threshold at such a tick +(-2..+3); "
        "0-2 cancel/force requests through Engine.cancel_instruction / force_instruction (run-log item ids) at such a "
        "tick +(-2..+2). (c) force class (12 %): one Watch/Alarm outside any Watch/Alarm/macro (root level, or in one "
        "Block that stays open), force request 1-8 ticks after its registration while the condition is false, "
        "condition false for >= 20 further ticks, then false for good / true later (step, pulse) / true once "
        "before the force; sometimes a second force or a cancel. "
        "distinct = method shape hash x trajectory kind x request signature; non-trivial = at least "
        "one body line started, or a cancel was accepted, or a block ended with a registered Watch/Alarm inside")
ASSUMPTIONS = [
    "'runs' is read as: a line of the body (direct child of the Watch/Alarm) is started by somebody other than that "
    "line's own interrupt handler; a run of the body begins with the first such start after a registration or reset "
    "of the Watch/Alarm. For 'after the block that contains it has ended' any line below the Watch/Alarm counts, but "
    "only if the line is executed after the start (a bare started flag in the End-block tick is counted, not judged)",
    "'only after a tick in which its condition evaluated true' / 'once per activation': every run of the body needs an "
    "activation of its own - a True result of PInterpreter._evaluate_condition or an accepted force (Node._forced) - "
    "that happened after the last reset of the node (Alarm re-arm, reset by an enclosing Alarm / macro invocation) "
    "and was not used up by an earlier run of the body; an accepted force (the flag going True) accounts for ONE "
    "activation: it is used up by the next activation of the node, a force flag that merely stays set across a "
    "re-arm is not a new force; an evaluation made by a handler that survived the reset of "
    "its enclosing scope is accepted (lenient reading)",
    "a Watch outside Alarm/macro bodies may run its body once per run of the method; inside such a scope once per "
    "reset by that scope (each invocation of the scope has its own Watch)",
    "accepted cancel = Node._cancelled went True through Engine.cancel_instruction and has not been reset since",
    "Alarm re-arm is asserted as bounded liveness with K=8 engine ticks and only for Alarms whose ancestors are "
    "Program/Block nodes (no enclosing Watch/Alarm/Macro), while the run is Running and not in error",
    "the FT01 value seen by an evaluation in tick T is the scripted reading of tick T (no Simulate in the grammar)",
    "observation through data descriptors / method wrappers installed from the harness (opv/rigs/interrupt_hooks.py)",
]
REQUIRED = {"eval_events": 10000, "cond_crosschecks": 10000, "activations": 1500, "body_child_starts": 2000,
            "body_runs": 1000, "cancel_accepted": 100, "cancel_effective_checks": 50, "force_accepted": 100,
            "forced_activations": 80, "block_end_with_registered_interrupt": 300, "blockend_effective_checks": 200,
            "alarm_rearm_checks": 300, "alarm_rerun_checks": 200, "watch_once_checks": 500,
            "force_then_false_alarm_root_checks": 60, "force_then_false_alarm_checks": 80,
            "force_then_false_watch_checks": 20, "force_then_false_then_true_alarm_checks": 20,
            "force_then_false_one_activation_per_force": 100}

K_LIVE = 8
FORCE_SHARE = 0.12     # share of cases of the force class (gen_force_case)
LO_HI = [(0.0, 6.0), (2.0, 4.0), (0.0, 4.0), (2.0, 6.0)]

# ----------------------------------------------------------------------------------------------------------------
# workload
WATCH_CONDS = ("FT01 > 3 L/h", "FT01 > 3 L/h", "FT01 >= 3 L/h", "FT01 < 3 L/h", "FT01 > 1 L/h", "FT01 >= 5 L/h",
               "X = 0", "X = 1", "Run Counter >= 0", "Block Time > 0.3 s", "FT01 <= 3 L/h")
ALARM_CONDS = ("FT01 > 3 L/h", "FT01 > 3 L/h", "FT01 >= 3 L/h", "FT01 >= 5 L/h", "FT01 < 1 L/h", "X = 1")
FOCUS_CONDS = ("FT01 > 3 L/h", "FT01 > 3 L/h", "FT01 >= 3 L/h", "FT01 < 3 L/h", "FT01 <= 3 L/h")


class Gen4(Gen):
    """Generator programs for C04: Gen + `End block` / `End blocks` as ordinary statements inside blocks (also in
    Watch/Alarm bodies inside a block), so that blocks end while interrupts inside them are pending or running."""

    def stmt(self, ind, depth, in_block, no_blank=False):
        r = self.r
        if in_block and r.random() < 0.08:
            self.kinds.append("endblock")
            self.emit(ind, r.choice(["End block", "End block", "End blocks"]))
            return
        return super().stmt(ind, depth, in_block, no_blank)


def gen_random_program(rnd: random.Random, max_depth: int) -> str:
    allow = ["mark", "uod", "wait", "block", "watch", "alarm", "thr", "blank", "info"]
    if rnd.random() < 0.35:
        allow.append("macro")
    g = Gen4(rnd, allow=tuple(allow), max_depth=max_depth, watch_conds=WATCH_CONDS, alarm_conds=ALARM_CONDS,
             thr_values=("0.2", "0.5", "1", "0", "0.3"), wait_values=("0.1", "0.3", "0.5", "0.8", "0"),
             uod_cmds=("Short", "Long", "Short", "Other", "Set1: 3"))
    return g.program(rnd.randint(3, 8))


def gen_focus_program(rnd: random.Random, max_depth: int) -> str:
    """One Watch/Alarm in focus below 0..max_depth wrappers, main path continues and (inside a block) ends the block."""
    L = ["Base: s"]
    n = [0]

    def lab():
        n[0] += 1
        return f"m{n[0]}"
    for _ in range(rnd.randint(0, 2)):
        L.append(f"Mark: {lab()}")
    ind = 0
    wrappers = []
    use_macro = rnd.random() < 0.08
    if use_macro:
        L.append("Macro: M0")
        ind = 4
        wrappers.append("macro")
    for _ in range(rnd.randint(0, max_depth)):
        w = rnd.choice(["block", "block", "block", "watch", "alarm" if rnd.random() < 0.3 else "watch"])
        if w == "block":
            L.append(" " * ind + f"Block: b{lab()}")
        elif w == "watch":
            L.append(" " * ind + "Watch: " + rnd.choice(["Run Counter >= 0", "X = 0", "FT01 < 7 L/h"]))
        else:
            L.append(" " * ind + "Alarm: " + rnd.choice(["Run Counter >= 0", "FT01 < 7 L/h"]))
        wrappers.append(w)
        ind += 4
        if rnd.random() < 0.3:
            L.append(" " * ind + f"Mark: {lab()}")
    in_block = "block" in wrappers
    kind = rnd.choice(["Watch", "Watch", "Alarm"])
    L.append(" " * ind + f"{kind}: {rnd.choice(FOCUS_CONDS)}")
    # body
    bi = ind + 4
    for i in range(rnd.randint(1, 3)):
        c = rnd.choice(["mark", "mark", "mark", "wait", "uod", "thr", "block", "endblock" if in_block else "mark"])
        if c == "mark":
            L.append(" " * bi + f"Mark: {lab()}")
        elif c == "wait":
            L.append(" " * bi + f"Wait: {rnd.choice(['0.2', '0.4', '0.1'])}s")
        elif c == "uod":
            L.append(" " * bi + rnd.choice(["Short", "Long", "Set1: 3"]))
        elif c == "thr":
            L.append(" " * bi + f"{rnd.choice(['0.3', '0', '1'])} Mark: {lab()}")
        elif c == "block":
            L.append(" " * bi + f"Block: b{lab()}")
            L.append(" " * (bi + 4) + f"Mark: {lab()}")
            L.append(" " * (bi + 4) + "End block")
        else:
            L.append(" " * bi + rnd.choice(["End block", "End blocks"]))
    # main path continues in every enclosing scope, innermost first
    for w in reversed(wrappers):
        if rnd.random() < 0.7:
            L.append(" " * ind + f"Wait: {rnd.choice(['0.3', '0.6', '1', '1.5', '0.1'])}s")
        if rnd.random() < 0.4:
            L.append(" " * ind + f"Mark: {lab()}")
        if w == "block":
            L.append(" " * ind + rnd.choice(["End block", "End block", "End block", "End blocks"]))
        ind -= 4
    if use_macro:
        ind = 0
        L.append("Call macro: M0")
        if rnd.random() < 0.4:
            L.append("Call macro: M0")
    for _ in range(rnd.randint(0, 2)):
        L.append(rnd.choice([f"Mark: {lab()}", "Wait: 0.5s", "Short"]))
    return "\n".join(L) + "\n"


def make_traj(rnd: random.Random, pivot: int, n: int):
    """FT01 readings, index k is read in engine tick k+2 (tick 1 is the Start tick). Crosses the threshold 3 at
    tick pivot+off."""
    kind = rnd.choice(["const", "step_up", "step_up", "step_down", "pulse", "pulse", "pulse2", "ramp", "plateau"])
    lo, hi = rnd.choice(LO_HI)
    at = max(0, pivot + rnd.randint(-2, 3) - 2)      # index of the first reading on the other side
    if kind == "const":
        v = rnd.choice([lo, hi, 3.0])
        out = [v] * n
    elif kind == "step_up":
        out = [lo if k < at else hi for k in range(n)]
    elif kind == "step_down":
        out = [hi if k < at else lo for k in range(n)]
    elif kind in ("pulse", "pulse2"):
        w = rnd.randint(1, 3)
        out = [hi if at <= k < at + w else lo for k in range(n)]
        if kind == "pulse2":
            at2 = at + w + rnd.randint(1, 12)
            w2 = rnd.randint(1, 12)
            out = [hi if at2 <= k < at2 + w2 else v for k, v in enumerate(out)]
    elif kind == "ramp":
        slope = rnd.choice([0.25, 0.5, 1.0, -0.5])
        out = [min(6.0, max(0.0, 3.0 + slope * (k - at))) for k in range(n)]
    else:   # plateau exactly at the threshold, then above
        w = rnd.randint(1, 4)
        out = [lo if k < at else 3.0 if k < at + w else hi for k in range(n)]
    return kind, out


def drive(text: str, traj: list[float], reqs: list[dict], max_ticks: int, min_ticks: int):
    """Runs the method; returns (rig, ft, reqlog, programs). Caller closes the rig."""
    from opv.rigs import engine_rig as R
    install()
    rig = R.EngineRig(text)
    ft = {1: 0.0}
    reqlog = []
    by_tick: dict[int, list[dict]] = {}
    for q in reqs:
        by_tick.setdefault(q["tick"], []).append(q)
    rig.start()
    last_ev = rig.k
    seen = len(R.TRACE)
    while rig.k < max_ticks:
        T = rig.k + 1
        for q in by_tick.get(T, ()):
            reqlog.append(_apply_request(rig, q))
            last_ev = rig.k
        v = traj[min(T - 2, len(traj) - 1)]
        rig.hw.inputs["FT01"] = v
        ft[T] = v
        rig.tick()
        tr = R.TRACE
        if any(tr[i][1] not in QUIET for i in range(seen, len(tr))) or (rig.cmdlog and rig.cmdlog[-1][0] == rig.k):
            last_ev = rig.k
        seen = len(tr)
        if rig.errors:
            break
        if rig.k >= min_ticks and rig.k - last_ev >= 14:
            break
    return rig, ft, reqlog


def _apply_request(rig, q):
    """cancel / force of the latest run-log item of the line q['line'] (node id). Logged into TRACE."""
    from opv.rigs import engine_rig as R
    node_id = q["line"]
    item_id = None
    via = "runlog"
    try:
        items = rig.runlog().items
        for it in items:
            rec = rig.e.tracking.get_record_by_instance_id(it.id)
            if rec is not None and rec.node_id == node_id:
                item_id = it.id
    except Exception:
        via = "record"      # run log not producible (C15's business): use the record directly
        rec = rig.e.tracking.runtimeinfo.get_record_by_node(node_id)
        item_id = rec.last_instance_id if rec is not None else None
    node = rig.program().get_child_by_id(node_id)
    if item_id is None or node is None:
        R.TRACE.append((rig.k, "req_skipped", node_id, "", None, q["kind"], 0))
        return {"tick": q["tick"], "kind": q["kind"], "line": node_id, "outcome": "no-item"}
    before = (node.cancelled, node.forced, getattr(node, "activated", None))
    R.TRACE.append((rig.k, "req_" + q["kind"], node_id, type(node).__name__, None, None, id(node)))
    try:
        (rig.e.cancel_instruction if q["kind"] == "cancel" else rig.e.force_instruction)(item_id)
        ok = True
        err = ""
    except Exception as ex:
        ok = False
        err = f"{type(ex).__name__}: {ex}"[:120]
    R.TRACE.append((rig.k, "req_done", node_id, type(node).__name__, None, ok, id(node)))
    return {"tick": q["tick"], "kind": q["kind"], "line": node_id, "outcome": "accepted" if ok else "rejected",
            "before": before, "after": (node.cancelled, node.forced), "via": via, "err": err}


def _pivots(text, traj, reqs, max_ticks, min_ticks):
    """Dry run: registration ticks, activation ticks (per line id) and block-end ticks."""
    from opv.rigs import engine_rig as R
    rig = None
    try:
        rig, ft, _ = drive(text, traj, reqs, max_ticks, min_ticks)
        reg, act, ends = {}, {}, {}
        for ev in R.TRACE:
            if ev[1] == "interrupt_registered" and ev[5] is True:
                reg.setdefault(ev[2], ev[0])
            elif ev[1] == "activated" and ev[5] is True:
                act.setdefault(ev[2], ev[0])
            elif ev[1] == "block_ended" and ev[5] is True:
                ends.setdefault(ev[2], ev[0])
        conds = [n.id for n in rig.program().get_all_nodes() if type(n).__name__ in ("WatchNode", "AlarmNode")]
        return {"reg": reg, "act": act, "ends": ends, "ticks": rig.k, "conds": conds, "error": bool(rig.errors)}
    finally:
        if rig is not None:
            rig.close()


FALSE_VALUES = {"FT01 > 3 L/h": (0.0, 2.0, 3.0), "FT01 >= 3 L/h": (0.0, 2.0), "FT01 < 3 L/h": (6.0, 4.0, 3.0),
                "FT01 <= 3 L/h": (4.0, 6.0)}
TRUE_VALUES = {"FT01 > 3 L/h": (4.0, 6.0), "FT01 >= 3 L/h": (3.0, 6.0), "FT01 < 3 L/h": (0.0, 2.0),
               "FT01 <= 3 L/h": (3.0, 0.0)}
FORCE_QUIET = 20        # ticks after an accepted force in which the condition stays false


def gen_force_case(rnd: random.Random):
    """Force class: ONE Watch/Alarm that is not nested in any Watch/Alarm/macro (at root level, or in one Block that
    stays open), condition false when the force request arrives and for at least FORCE_QUIET (+ body length) ticks
    after it. Variants: false for the rest of the run / true later (step or pulse) / true once before the force
    (the Alarm has already completed a run by its condition) ; a second force or a cancel later in the run."""
    L = ["Base: s"]
    n = [0]

    def lab():
        n[0] += 1
        return f"m{n[0]}"
    for _ in range(rnd.randint(0, 2)):
        L.append(f"Mark: {lab()}")
    kind = rnd.choice(["Alarm", "Alarm", "Alarm", "Watch"])
    cond = rnd.choice(FOCUS_CONDS)
    in_block = rnd.random() < 0.25
    ind = 0
    if in_block:
        L.append(f"Block: b{lab()}")
        ind = 4
    L.append(" " * ind + f"{kind}: {cond}")
    cond_line = len(L) - 1
    for i in range(rnd.randint(1, 3)):
        c = rnd.choice(["mark", "mark", "mark", "wait", "uod", "thr"])
        if c == "mark":
            L.append(" " * (ind + 4) + f"Mark: {lab()}")
        elif c == "wait":
            L.append(" " * (ind + 4) + f"Wait: {rnd.choice(['0.2', '0.4', '0.1'])}s")
        elif c == "uod":
            L.append(" " * (ind + 4) + rnd.choice(["Short", "Long", "Set1: 3"]))
        else:
            L.append(" " * (ind + 4) + f"{rnd.choice(['0.3', '0'])} Mark: {lab()}")
    if in_block:
        # the block stays open for the whole observation window (the main path waits inside it)
        L.append(" " * ind + f"Mark: {lab()}")
        L.append(" " * ind + "Wait: 30s")
        L.append(" " * ind + "End block")
    for _ in range(rnd.randint(0, 3)):
        L.append(rnd.choice([f"Mark: {lab()}", "Wait: 0.5s", "Short", "Wait: 1s"]))
    text = "\n".join(L) + "\n"
    fv = rnd.choice(FALSE_VALUES[cond])
    tv = rnd.choice(TRUE_VALUES[cond])
    p0 = _pivots(text, [fv] * 4, [], 40, 12)
    line = f"L{cond_line}"
    reg = p0["reg"].get(line, 4)
    variant = rnd.choice(["stay_false", "stay_false", "true_later_step", "true_later_pulse", "true_before"])
    tf = reg + rnd.randint(1, 8)                   # tick of the force request
    traj_len = 200
    traj = [fv] * traj_len
    if variant == "true_before":
        # a pulse of 1-3 ticks right after the registration: one run of the body by the condition; the force comes
        # when the Alarm has been re-armed (a Watch is used up by then: its force request is rejected)
        w = rnd.randint(1, 3)
        at = reg + rnd.randint(0, 2)
        for t in range(at, at + w):
            traj[t - 2] = tv
        tf = at + w + rnd.randint(8, 14)
    quiet_to = tf + FORCE_QUIET + rnd.randint(6, 12)
    if variant == "true_later_step":
        for t in range(quiet_to, traj_len + 2):
            traj[t - 2] = tv
    elif variant == "true_later_pulse":
        for t in range(quiet_to, quiet_to + rnd.randint(1, 10)):
            traj[t - 2] = tv
    reqs = [{"tick": tf, "kind": "force", "line": line, "rel": "reg"}]
    x = rnd.random()
    if x < 0.15:
        reqs.append({"tick": tf + rnd.randint(6, 18), "kind": "force", "line": line, "rel": "reg"})
    elif x < 0.25:
        reqs.append({"tick": tf + rnd.randint(1, 18), "kind": "cancel", "line": line, "rel": "reg"})
    ticks = quiet_to + 30
    return {"text": text, "traj": traj[:ticks + 5], "traj_kind": "force_" + variant, "reqs": reqs, "ticks": ticks,
            "focus": True, "cls": "force"}


def gen_case(rnd: random.Random, max_depth: int = 3):
    if rnd.random() < FORCE_SHARE:
        return gen_force_case(rnd)
    focus = rnd.random() < 0.6
    text = gen_focus_program(rnd, max_depth) if focus else gen_random_program(rnd, max_depth)
    lo = rnd.choice([0.0, 2.0])
    p0 = _pivots(text, [lo] * 4, [], 70, 12)
    cands = sorted(set(p0["reg"].values()) | set(p0["ends"].values()))
    pivot = rnd.choice(cands) if cands and rnd.random() < 0.9 else rnd.randint(3, 25)
    n = max(pivot + 40, min(p0["ticks"] + 25, 110))
    kind, traj = make_traj(rnd, pivot, n)
    reqs = []
    nreq = rnd.choice([0, 0, 1, 1, 1, 2])
    if nreq and p0["conds"]:
        p1 = _pivots(text, traj, [], n + 10, n)
        for _ in range(nreq):
            line = rnd.choice(p0["conds"])
            base = []
            if line in p1["act"]:
                base += [p1["act"][line]] * 3
            if line in p1["reg"]:
                base += [p1["reg"][line]] * 2
            base += list(p1["ends"].values())
            if not base:
                base = [pivot]
            t = max(2, rnd.choice(base) + rnd.randint(-2, 2))
            reqs.append({"tick": t, "kind": rnd.choice(["cancel", "force"]), "line": line,
                         "rel": "act" if line in p1["act"] else "reg"})
    reqs.sort(key=lambda q: q["tick"])
    return {"text": text, "traj": traj, "traj_kind": kind, "reqs": reqs, "ticks": n + 10, "focus": focus}


# ----------------------------------------------------------------------------------------------------------------
# oracle
_COND = re.compile(r"^\s*(FT01|X|Run Counter)\s*(<=|>=|==|!=|<|>|=)\s*([0-9.]+)\s*(L/h)?\s*$")


def cond_fn(node):
    """Harness-side evaluation of the simple conditions of the workload; None if not modelled."""
    m = _COND.match(node.tag_operator_value_part or "")
    if not m:
        return None
    tag, op, val, _unit = m.groups()
    thr = Decimal(val)

    def cmp(x):
        x = Decimal(str(x))
        return {"<": x < thr, "<=": x <= thr, ">": x > thr, ">=": x >= thr, "=": x == thr, "==": x == thr,
                "!=": x != thr}[op]
    if tag == "FT01":
        return lambda ftv: cmp(ftv)
    if tag == "X":
        return lambda ftv: cmp(0)
    return None     # Run Counter / Block Time: value not modelled by the harness


def check_case(case, res: Result):
    from opv.rigs import engine_rig as R
    import openpectus.lang.model.ast as p

    text = case["text"]
    rig = None
    viol: list[tuple] = []
    try:
        rig, ft, reqlog = drive(text, case["traj"], case["reqs"], case["ticks"], case["ticks"] - 10)
        trace = list(R.TRACE)
        prog = rig.program()
        allnodes = prog.get_all_nodes()
        nodes = {id(n): n for n in allnodes}
        errored = bool(rig.errors)
        err_tick = rig.errors[0][0] if errored else 10 ** 9
        last_tick = rig.k
        running_to = last_tick if (not errored and rig.state == "Running") else min(err_tick - 1, last_tick)
        if errored:
            res.count("runs_ending_in_error")

        conds = [n for n in allnodes if isinstance(n, p.NodeWithCondition)]
        # guard blocks of a node: Blocks above a Watch/Alarm that lies above (or is the parent of) the node
        guard: dict[int, list] = {}
        for n in allnodes:
            chain = list(n.parents)
            g = []
            seen_cond = False
            for a in chain:
                if isinstance(a, p.NodeWithCondition):
                    seen_cond = True
                elif isinstance(a, p.BlockNode) and seen_cond:
                    g.append(a)
            if g:
                guard[id(n)] = g
        fn = {id(w): cond_fn(w) for w in conds}
        plain = {id(w): all(isinstance(a, (p.ProgramNode, p.BlockNode)) for a in w.parents) for w in conds}
        repeatable = {id(w): any(isinstance(a, (p.AlarmNode, p.MacroNode)) for a in w.parents) for w in conds}

        # ---- per node state reconstructed from events
        st: dict[int, dict] = {}

        def S(pid):
            s = st.get(pid)
            if s is None:
                s = st[pid] = {"started": False, "completed": False, "activated": False, "interrupt_registered": False,
                               "block_ended": False, "_cancelled": False, "_forced": False,
                               "true_since_arm": False, "arm_tick": None, "gen": 0, "epoch": 0, "stale": False,
                               "cancel_tick": None, "force_tick": None, "cause": False, "stale_live": False,
                               "in_reset": False, "epoch_children": set(), "bodies_in_gen": 0, "bodies_total": 0,
                               "body_tick": None, "force_avail": False, "force_used_tick": None, "forces": [],
                               "forced_acts": []}
            return s

        # macro concurrency (mechanism 3 of C02)
        mac_active: dict[str, int] = {}
        mac_max: dict[str, int] = {}

        def classify(mech, w, n=None):
            """Narrow re-classification of violations that are instances of the three known interpreter defects."""
            chain = [x for x in ([n] if n is not None else []) + [w] + list(w.parents)]
            mac = next((a for a in chain if isinstance(a, p.MacroNode)), None)
            if mac is not None and mac_max.get(mac.macro_name, 0) >= 2:
                return "C04.concurrent_calls_share_macro_body"
            # w or a Watch/Alarm above it was reset by its enclosing Alarm/Macro scope while its handler was live
            xs = [w] + [a for a in w.parents if isinstance(a, p.NodeWithCondition)]
            if n is not None and isinstance(n, p.NodeWithCondition):
                xs.append(n)
            for x in xs:
                if S(id(x))["stale"] and any(isinstance(a, (p.AlarmNode, p.MacroNode)) for a in x.parents):
                    return "C04.interrupt_survives_reset_of_enclosing_scope"
            return mech

        def V(mech, msg, w, n=None):
            viol.append((classify(mech, w, n), msg))

        rearm_events = []      # (tick, pyid) of Alarm run_count increments
        act_events: dict[int, list[int]] = {}
        eval_ticks: dict[int, list[int]] = {}
        blockend_pending = []  # (tick, block pyid, [registered cond pyids])
        prev = None
        nontrivial = False
        sig = []
        ctx = None             # pyid of the node whose interrupt handler is executing, None on the main path
        after_block_end = []   # starts below a Watch/Alarm whose enclosing block had ended: judged after the loop
        seen_events = []
        for ev in trace:
            tick, field, nid, cls, old, new, pid = ev
            seen_events.append(ev)
            if tick > err_tick:
                break
            if field == "h_enter":
                ctx = pid
                continue
            if field == "h_exit":
                ctx = None
                continue
            n = nodes.get(pid)
            if n is None:
                prev = ev
                continue
            s = S(pid)
            if field in ("started", "completed", "activated", "interrupt_registered", "block_ended", "_cancelled",
                         "_forced"):
                s[field] = new
            if s["in_reset"] and not (new is False or new == 0):
                s["in_reset"] = False          # the burst of a reset_runtime_state is over
            if field == "eval":
                res.count("eval_events")
                eval_ticks.setdefault(pid, []).append(tick)
                if new is True:
                    res.count("true_evals")
                    s["true_since_arm"] = True
                f = fn.get(pid)
                if f is not None and isinstance(new, bool) and tick in ft:
                    res.count("cond_crosschecks")
                    exp = f(ft[tick])
                    if exp != new:
                        viol.append(("C04.condition_result_wrong",
                                     f"{nid} `{n.tag_operator_value_part.strip()}` evaluated {new} in tick {tick} "
                                     f"with FT01={ft[tick]} (harness: {exp})"))
                else:
                    res.count("cond_not_modelled")
            elif field == "interrupt_registered":
                if new is True:
                    # a new handler exists from here on (an older one, if any, is dropped by the interpreter)
                    s["true_since_arm"] = False
                    s["arm_tick"] = tick
                    s["epoch"] += 1
                    s["epoch_children"] = set()
                    s["stale_live"] = False
                else:
                    explicit = prev is not None and prev[1] == "unreg_call" and prev[6] == pid
                    if not explicit and (isinstance(n, p.AlarmNode) or not s["completed"]):
                        # flag cleared by reset_runtime_state of an enclosing Alarm / macro while the handler lives on
                        s["stale"] = True
                        s["stale_live"] = True
                        res.count("registration_flag_cleared_by_enclosing_reset")
            elif field in ("started", "activated") and new is False and isinstance(n, p.NodeWithCondition):
                # reset_runtime_state (own re-arm of an Alarm, or reset by an enclosing Alarm / macro invocation):
                # from here on it is a new instance which needs its own activation
                if not s["in_reset"]:
                    s["gen"] += 1
                    s["in_reset"] = True
                    s["cause"] = False
                    s["bodies_in_gen"] = 0
                    s["epoch_children"] = set()
            elif field == "_cancelled" and new is True:
                res.count("cancel_accepted")
                s["cancel_tick"] = tick
                nontrivial = True
            elif field == "_forced" and isinstance(n, p.NodeWithCondition):
                # an accepted force (flag goes True) accounts for ONE activation: it is available until the next
                # activation of the node uses it up, or until the flag is cleared again (reset of the node)
                if new is True:
                    res.count("force_accepted")
                    s["force_tick"] = tick
                    s["force_avail"] = True
                    s["forces"].append(tick)
                else:
                    s["force_avail"] = False
            elif field == "activated" and new is True:
                res.count("activations")
                act_events.setdefault(pid, []).append(tick)
                if s["force_avail"] and not s["true_since_arm"]:
                    res.count("forced_activations")
                    s["forced_acts"].append(tick)
                if s["true_since_arm"] or s["force_avail"]:
                    s["cause"] = True
                    if s["force_avail"]:
                        s["force_avail"] = False
                        s["force_used_tick"] = tick
                elif s["_forced"] and s["force_used_tick"] is not None:
                    # the force flag is still set although the force it stands for was used up by an earlier
                    # activation and the node has been re-armed / reset since (no new accepted force, no True result)
                    res.count("activations_by_used_up_force")
                    V("C04.force_reused_after_rearm", f"{nid} {cls} activated in tick {tick} by the force accepted in "
                      f"tick {s['force_tick']}, which was already used up by the activation in tick "
                      f"{s['force_used_tick']}; no True evaluation since its registration in tick {s['arm_tick']} and "
                      f"no new accepted force", n)
                else:
                    V("C04.activated_without_true_condition", f"{nid} {cls} activated in tick {tick} without a True "
                      f"evaluation since its registration in tick {s['arm_tick']} and without force", n)
                if s["_cancelled"]:
                    V("C04.activated_after_cancel", f"{nid} {cls} activated in tick {tick} after the cancel accepted "
                      f"in tick {s['cancel_tick']}", n)
            elif field == "run_count" and isinstance(n, p.AlarmNode):
                rearm_events.append((tick, pid))
            elif field == "block_ended" and new is True and isinstance(n, p.BlockNode):
                inside = [id(d) for d in n.get_child_nodes(recursive=True) if isinstance(d, p.NodeWithCondition)
                          and S(id(d))["interrupt_registered"]]
                if inside:
                    res.count("block_end_with_registered_interrupt")
                    nontrivial = True
                    blockend_pending.append((tick, pid, inside))
            elif field in ("started", "restarted") and new is True and ctx != pid and not (
                    field == "restarted" and isinstance(n, p.WhitespaceNode)):
                # (a start of a Watch/Alarm line by its own interrupt handler is not a start of the enclosing body;
                #  "restarted" = the line is visited again while its started flag is still set; blank/comment
                #  lines assign their started flag twice within one visit and are left out)
                par = n.parent
                # ---- never below a Watch/Alarm whose enclosing block has ended
                if field == "started":
                    for b in guard.get(pid, ()):
                        if S(id(b))["block_ended"]:
                            w = next(a for a in n.parents if isinstance(a, p.NodeWithCondition))
                            after_block_end.append((len(seen_events), n, w, b, tick))
                            break
                if isinstance(par, p.NodeWithCondition):
                    w = par
                    ws = S(id(w))
                    kind = type(w).__name__[:-4]
                    if ws["stale_live"]:
                        # the handler of the previous instance of w (enclosing scope already reset, w not registered
                        # again yet) carries on with its old body: not a new run of the body
                        res.count("stale_handler_body_continuation_not_judged")
                        prev = ev
                        continue
                    res.count("body_child_starts")
                    nontrivial = True
                    if ctx is None:
                        res.count("body_child_started_on_main_path")
                    if pid in ws["epoch_children"]:
                        res.count("watch_once_checks" if kind == "Watch" else "alarm_once_checks")
                        V("C04.watch_body_twice" if kind == "Watch" else "C04.alarm_body_twice_per_activation",
                          f"body line {nid} of {kind} {w.id} visited a second time in tick {tick} ({field}) within one "
                          f"run of the body (registration tick {ws['arm_tick']})", w, n)
                    elif not ws["epoch_children"]:
                        # ---- a run of the body begins: needs an unconsumed activation by a True evaluation / a force
                        ws["epoch_children"].add(pid)
                        res.count("body_runs")
                        if ws["cause"]:
                            ws["cause"] = False
                        else:
                            V("C04.body_without_true_condition", f"body of {kind} {w.id} began in tick {tick} (line "
                              f"{nid}) without a True evaluation or accepted force of its own (registered in tick "
                              f"{ws['arm_tick']}, previous body run began in tick {ws['body_tick']})", w, n)
                        ws["body_tick"] = tick
                        ws["bodies_in_gen"] += 1
                        ws["bodies_total"] += 1
                        if kind == "Watch":
                            res.count("watch_once_checks")
                            if ws["bodies_in_gen"] > 1 or (ws["bodies_total"] > 1 and not repeatable[id(w)]):
                                V("C04.watch_body_twice", f"body of Watch {w.id} began again in tick {tick} "
                                  f"({ws['bodies_total']} runs" + ("" if not repeatable[id(w)] else
                                                                    ", no reset by the enclosing scope in between")
                                  + ")", w, n)
                        else:
                            res.count("alarm_once_checks")
                    else:
                        ws["epoch_children"].add(pid)
                    if ws["_cancelled"]:
                        V("C04.body_after_cancel", f"body line {nid} of {kind} {w.id} started in tick "
                          f"{tick} after the cancel accepted in tick {ws['cancel_tick']}", w, n)
            if isinstance(n, p.CallMacroNode):
                if field == "started" and new is True:
                    mac_active[n.macro_name] = mac_active.get(n.macro_name, 0) + 1
                    mac_max[n.macro_name] = max(mac_max.get(n.macro_name, 0), mac_active[n.macro_name])
                elif field == "completed" and new is True:
                    mac_active[n.macro_name] = max(0, mac_active.get(n.macro_name, 0) - 1)
            prev = ev

        # ---- a line below a Watch/Alarm started after the enclosing block had ended. In the tick of an `End block`
        # executed by an interrupt, handlers that come later in the interpreter's (copied) interrupt list are still
        # advanced once after they were aborted; a line waiting for its threshold can get its `started` flag in
        # that step and is then never executed (generator dropped). Only a start that is followed by execution
        # (any later state change of that line) is "running".
        EXEC = ("completed", "failed", "child_index", "children_complete", "lock_acquired", "interrupt_registered",
                "activated", "block_ended")
        for idx, n, w, b, tick in after_block_end:
            executed = any(e[6] == id(n) and e[1] in EXEC and e[0] <= err_tick for e in trace[idx:])
            if executed:
                V("C04.body_runs_after_block_ended", f"{n.id} {type(n).__name__} (below {w.id} {type(w).__name__}) "
                  f"started in tick {tick} after block {b.id} had ended, and executed", w, n)
            else:
                res.count("start_flag_only_after_block_end")

        # ---- cancel / block-end effectiveness (non-vacuity counters): the condition became true afterwards
        for w in conds:
            s = S(id(w))
            f = fn.get(id(w))
            if s["cancel_tick"] is not None and f is not None and any(
                    f(ft[t]) for t in range(s["cancel_tick"] + 1, running_to + 1) if t in ft):
                res.count("cancel_effective_checks")
        for tick, bpid, inside in blockend_pending:
            for wp in inside:
                f = fn.get(wp)
                if f is not None and any(f(ft[t]) for t in range(tick + 1, running_to + 1) if t in ft):
                    res.count("blockend_effective_checks")

        # ---- force class (non-vacuity counters; the deciding rule is the activation rule above): an accepted force
        # on a Watch/Alarm outside any Watch/Alarm/macro whose condition is false in the force tick and stays false
        # for FORCE_QUIET more ticks of the running method - the force accounts for one activation in that window
        for w in conds:
            s = S(id(w))
            f = fn.get(id(w))
            if f is None or not plain[id(w)]:
                continue
            kind = type(w).__name__[:-4].lower()
            top = "root" if isinstance(w.parent, p.ProgramNode) else "block"
            acts = act_events.get(id(w), [])
            for F in s["forces"]:
                if F + FORCE_QUIET > running_to or any(t not in ft or f(ft[t]) for t in range(F, F + FORCE_QUIET + 1)):
                    continue
                blocks = [id(b) for b in w.parents if isinstance(b, p.BlockNode)]
                if any(e[1] == "block_ended" and e[5] is True and e[6] in blocks and e[0] <= F + FORCE_QUIET
                       for e in trace):
                    continue
                if not any(F <= t <= F + 3 for t in s["forced_acts"]):
                    res.count("force_then_false_no_forced_activation")      # e.g. cancelled / reset right after
                    continue
                others = [t for t in s["forces"] if F < t <= F + FORCE_QUIET]
                res.count(f"force_then_false_{kind}_{top}_checks")
                res.count(f"force_then_false_{kind}_checks")
                if others:
                    res.count("force_then_false_with_second_force")
                n_act = sum(1 for t in acts if F <= t <= F + FORCE_QUIET)
                if n_act == 1 + len(others):
                    res.count("force_then_false_one_activation_per_force")
                later_true = [t for t in range(F + FORCE_QUIET + 1, running_to - K_LIVE) if t in ft and f(ft[t])]
                if later_true:
                    res.count(f"force_then_false_then_true_{kind}_checks")
                    if any(t >= later_true[0] for t in acts):
                        res.count(f"force_then_false_then_true_{kind}_activated_again")

        # ---- Alarm is re-armed after each completed run (bounded liveness, K ticks)
        for tick, pid in rearm_events:
            a = nodes[pid]
            if not plain[pid]:
                res.count("alarm_rearm_not_judged_nested")
                continue
            if tick + K_LIVE > running_to:
                res.count("alarm_rearm_not_judged_run_too_short")
                continue
            s = S(pid)
            blocks = [id(b) for b in a.parents if isinstance(b, p.BlockNode)]
            if any(e[1] == "block_ended" and e[5] is True and e[6] in blocks and e[0] <= tick + K_LIVE for e in trace):
                res.count("alarm_rearm_not_judged_block_ended")
                continue
            if any(e[6] == pid and e[1] == "_cancelled" and e[5] is True and e[0] <= tick + K_LIVE for e in trace):
                res.count("alarm_rearm_not_judged_cancelled")
                continue
            res.count("alarm_rearm_checks")
            win = range(tick + 1, tick + K_LIVE + 1)
            evs = [t for t in eval_ticks.get(pid, []) if t in win]
            acts = [t for t in act_events.get(pid, []) if t in win]
            if not evs and not acts:
                viol.append(("C04.alarm_not_rearmed", f"Alarm {a.id} completed a run in tick {tick} and its condition "
                             f"was not evaluated again within {K_LIVE} ticks (run continued to tick {running_to})"))
                continue
            f = fn.get(pid)
            if f is not None and all(f(ft[t]) for t in win):
                res.count("alarm_rerun_checks")
                if not acts:
                    viol.append(("C04.alarm_not_rerun_while_condition_true",
                                 f"Alarm {a.id} completed a run in tick {tick}; condition true in ticks "
                                 f"{tick + 1}..{tick + K_LIVE} but no new activation"))
        for q in reqlog:
            res.count(f"req_{q['kind']}_{q['outcome']}")
            sig.append((q["kind"], q.get("rel"), q["outcome"]))
        key = None
        if nontrivial:
            key = [shape_hash(text), case.get("traj_kind"), sorted(map(str, sig))]
        res.case(key, sample={"method": text, "traj_kind": case.get("traj_kind"), "traj_head": case["traj"][:30],
                              "reqs": reqlog[:4], "ticks": rig.k, "marks": rig.marks()[:10]})
    finally:
        if rig is not None:
            rig.close()
    seen = set()
    for mech, msg in viol:
        if (mech, msg) in seen:
            continue
        seen.add((mech, msg))
        res.violation(mech, msg, case)


def plan(tier, seed):
    n = 2400 if tier == "quick" else 48000
    shards = 16 if tier == "quick" else 64
    per = n // shards
    return [{"seed": seed * 1000003 + i, "n": per, "max_depth": 3} for i in range(shards)]


def run_shard(spec):
    res = Result()
    rnd = random.Random(spec["seed"])
    for _ in range(spec["n"]):
        case = gen_case(rnd, spec.get("max_depth", 3))
        check_case(case, res)
    if not (HITS["eval"] and HITS["reg"]):
        res.notes.append("wrappers never hit")
    return res


def replay(case):
    res = Result()
    check_case(case, res)
    return res
