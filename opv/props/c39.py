"""C39 - The local run archive reads back exactly.

Real Engine with enable_archiver=True on a UOD whose tag names, units and values contain the archive's delimiter,
the Mark separator, quotes, the escape character, CR/LF and non-ASCII text. `archive()` of every tag class is wrapped
to record what each tag hands to the archiver per row; the file is read back with csv.reader using the archiver's
own dialect constants and compared cell by cell. See DESIGN.md C39."""
from __future__ import annotations

import csv
import os
import random
import re
import shutil
import tempfile

from opv.core import Result

ID = "C39"
LEVEL = "exploration"
TECHNIQUE = ("runtime monitoring: round-trip oracle - strings handed to the archiver (recorded by wrapping "
             "Tag.archive) vs. the archive file read back with the archiver's own csv dialect")
RULE = ("seeded tag sets (3-7 extra tags; names / custom units / initial values drawn from pools containing , ; \" \\ "
        "CR LF TAB and non-ASCII) x generated methods (Mark, Block with hostile names, a UOD command taking free text, a "
        "UOD command poking scripted hostile strings/floats/None into tags, Simulate, Wait) x archive interval (every "
        "tick / every 3rd tick) x 3-30 archive rows; real Engine + ArchiverTag writing below a scratch directory. "
        "distinct = (sorted tag-name set, set of special-character classes that reached the file, row-count bucket); "
        "non-trivial = at least 3 data rows and at least 3 compared cells containing a special character")
ASSUMPTIONS = [
    "'archived value' = the string returned by tag.archive() for that row (None = tag not archived), recorded by a "
    "wrapper around every archive() implementation; the first cell of a row (wall-clock datetime written by the "
    "archiver itself) is only checked for its shape",
    "the file is read with csv.reader(open(path, newline='', encoding=archiver.encoding), delimiter=archiver.delimiter, "
    "quoting=archiver.quoting, escapechar=archiver.escapechar) - the archiver's own constants, the documented way to "
    "read a csv file written with newline=''",
    "the archiver's data directory is redirected out of /repo by rebinding openpectus.engine.archiver.__file__ before "
    "the ArchiverTag is constructed",
    "one run per archive file (no Stop/Restart inside a case: the file name has one-second wall-clock resolution)",
    "custom units containing special characters are registered through the documented "
    "UodBuilder.with_measurement_unit(unit, quantity='absorbance')",
]
REQUIRED = {"files_read_back": 200, "data_rows_compared": 3000, "cells_compared": 30000, "header_cells_compared": 3000,
            "cells_with:delimiter": 1500, "cells_with:escapechar": 800, "cells_with:quote": 800,
            "cells_with:mark_separator": 500, "cells_with:newline": 200, "mark_cells_with_special": 500,
            "header_cells_with_special": 1000, "rows_with_archive_none_skipped": 3000}

NAMES = ['A, B', 'Semi; colon', 'Q"uote', 'Back\\slash', 'All,;"\\x', 'Tab\there', 'é中 ü', 'trail\\', 'x,', ',y',
         'a,b,c', '"', '\\\\', 'Plain2', '\\"', 'cr\rname', 'nl\nname']
UNITS = [None, None, "L/h", "%", "degC", 'u,1', 'v;2', 'w"3', 'x\\4', 'y,;"\\']
TEXTS = ["plain", "a, b", "a,b,c,,", 'q"uote', '"quoted"', "back\\slash", "trail\\", "\\,", "semi; colon", "; ",
         "x; y; z", "é中, ü", "\\\\", '\\"', ",", '"', "a\\nb", "tab\there", ",,", '","', "\\;", "1,5", "end,"]
DIRECT = TEXTS + ["cr\rlf", "nl\nx", "\r\n", " lead", "trail ", "#hash", "", "a\\\r\nb", "\\\n", "\t", "x\ry,z"]
DT_RE = re.compile(r"^\d{4}-\d\d-\d\d \d\d:\d\d:\d\d(\.\d+)?\+00:00$")


def plan(tier, seed):
    n = 640 if tier == "quick" else 9600
    shards = 16 if tier == "quick" else 40
    per = n // shards
    return [{"seed": seed * 1000003 + i, "n": per} for i in range(shards)]


# ------------------------------------------------------------------------------------------------
def gen_case(rnd: random.Random) -> dict:
    k = rnd.randint(3, 7)
    names = rnd.sample(NAMES, k)
    tags = []
    for nm in names:
        kind = rnd.choice(["str", "str", "float", "int", "none"])
        unit = rnd.choice(UNITS) if kind in ("float", "int") else rnd.choice([None, None] + UNITS[5:])
        init = {"str": rnd.choice(DIRECT), "float": rnd.choice([0.0, 1.5, -2.25, 1e6 / 3]), "int": rnd.randint(-3, 9),
                "none": None}[kind]
        tags.append({"name": nm, "kind": kind, "unit": unit, "init": init})
    str_tags = [t["name"] for t in tags if t["kind"] in ("str", "none")]
    lines = ["Base: s"]
    n_lines = rnd.randint(3, 14)
    pokes = []
    depth = 0
    for _ in range(n_lines):
        c = rnd.choice(["mark", "mark", "mark", "sets", "poke", "poke", "block", "wait", "marks2", "sim"])
        ind = "    " * depth
        if c == "mark":
            lines.append(f"{ind}Mark: {rnd.choice(TEXTS)}")
        elif c == "marks2":
            lines.append(f"{ind}Mark: {rnd.choice(TEXTS)}")
            lines.append(f"{ind}Mark: {rnd.choice(TEXTS)}")
        elif c == "sets":
            lines.append(f"{ind}SetS: {rnd.choice(TEXTS)}")
        elif c == "poke":
            lines.append(f"{ind}Poke")
            step = []
            for t in rnd.sample(tags, rnd.randint(1, len(tags))):
                if t["kind"] in ("str", "none"):
                    step.append([t["name"], rnd.choice(DIRECT + [None])])
                elif t["kind"] == "float":
                    step.append([t["name"], rnd.choice([0.0, 0.1234567, -7.5, 12345.678901, 1e-7, None])])
                else:
                    step.append([t["name"], rnd.randint(-100, 100)])
            if rnd.random() < 0.4:
                step.append(["__mark__", rnd.choice(DIRECT)])
            pokes.append(step)
        elif c == "block" and depth == 0:
            lines.append(f"Block: {rnd.choice(TEXTS)}")
            depth = 1
            lines.append(f"    Mark: {rnd.choice(TEXTS)}")
        elif c == "wait":
            lines.append(f"{ind}Wait: {rnd.choice(['0.1', '0.2', '0.3'])}s")
        elif c == "sim" and str_tags:
            lines.append(f"{ind}Simulate: Num = {rnd.randint(1, 9)}")
        if depth == 1 and rnd.random() < 0.35:
            lines.append("    End block")
            depth = 0
    if depth == 1:
        lines.append("    End block")
    interval = rnd.choice([0.05, 0.05, 0.25])
    rows = rnd.randint(3, 30)
    ticks = rows if interval < 0.1 else rows * 3
    return {"tags": tags, "text": "\n".join(lines) + "\n", "pokes": pokes, "interval": interval,
            "ticks": max(ticks, 4), "sets_target": rnd.choice(str_tags) if str_tags else None}


# ------------------------------------------------------------------------------------------------
class _Ctx:
    cur = None
    header = None
    rows: list = []
    archive_calls = 0


CTX = _Ctx()
_installed = False


def install_archive_hooks():
    """Wrap every archive() implementation in the Tag class tree and the two ArchiverTag writers (record + delegate)."""
    global _installed
    if _installed:
        return
    _installed = True
    import openpectus.engine.archiver as A
    import openpectus.lang.exec.tags_impl  # noqa: F401  (defines MarkTag.archive)
    from openpectus.lang.exec.tags import Tag

    def all_classes(c):
        yield c
        for s in c.__subclasses__():
            yield from all_classes(s)

    def wrap_archive(cls):
        orig = cls.__dict__["archive"]

        def archive(self, _orig=orig):
            r = _orig(self)
            CTX.archive_calls += 1
            if CTX.cur is not None:
                CTX.cur.append((self, r))
            return r
        archive._opv_wrapped = True        # type: ignore
        cls.archive = archive

    seen = set()
    for cls in all_classes(Tag):
        if cls in seen:
            continue
        seen.add(cls)
        if "archive" in cls.__dict__ and not getattr(cls.__dict__["archive"], "_opv_wrapped", False):
            wrap_archive(cls)

    orig_prep = A.ArchiverTag.prepare_tags_file
    orig_row = A.ArchiverTag.write_tags_row

    def prepare_tags_file(self):
        existed = os.path.isfile(self.file_path) if self.file_path else None
        CTX.cur = []
        try:
            return orig_prep(self)
        finally:
            rec, CTX.cur = CTX.cur, None
            CTX.header = {"existed": existed, "path": self.file_path,
                          "cols": [(str(t.name), t.unit, r) for t, r in rec]}

    def write_tags_row(self):
        path = self.file_path
        ready = self.file_ready
        size0 = os.path.getsize(path) if ready and path and os.path.isfile(path) else None
        CTX.cur = []
        try:
            return orig_row(self)
        finally:
            rec, CTX.cur = CTX.cur, None
            size1 = os.path.getsize(path) if ready and path and os.path.isfile(path) else None
            CTX.rows.append({"ready": ready, "vals": [(str(t.name), r) for t, r in rec],
                             "written": bool(ready and size0 is not None and size1 is not None and size1 > size0)})

    A.ArchiverTag.prepare_tags_file = prepare_tags_file
    A.ArchiverTag.write_tags_row = write_tags_row


def make_uod(log, case):
    import time as _time
    from opv.rigs import engine_rig as R
    from openpectus.engine.hardware import RegisterDirection
    from openpectus.lang.exec.tags import Tag
    from openpectus.lang.exec.tags_impl import ReadingTag
    from openpectus.lang.exec.uod import UodBuilder

    pokes = [list(p) for p in case["pokes"]]
    state = {"i": 0}

    def sets(cmd, value):
        if case["sets_target"] is not None:
            cmd.context.tags[case["sets_target"]].set_value(value, _time.time())
        cmd.set_complete()

    def poke(cmd, **kw):
        if state["i"] < len(pokes):
            for name, v in pokes[state["i"]]:
                if name == "__mark__":
                    cmd.context.system_tags["Mark"].set_value(v, _time.time())
                else:
                    cmd.context.tags[name].set_value(v, _time.time())
            state["i"] += 1
        cmd.set_complete()

    b = (UodBuilder().with_instrument("Rig39").with_author("opv", "opv@example.invalid").with_filename("rig39_uod")
         .with_hardware(R.RecordingHardware()).with_location("lab")
         .with_hardware_register("FT01", RegisterDirection.Both)
         .with_tag(ReadingTag("FT01", "L/h"))
         .with_tag(Tag("Num", value=0, unit=None))
         .with_data_log_interval_seconds(case["interval"])
         .with_command(name="SetS", exec_fn=sets)
         .with_command(name="Poke", exec_fn=poke))
    for u in UNITS:
        if u is not None and u not in ("L/h", "%", "degC"):
            b = b.with_measurement_unit(u, quantity="absorbance")
    for t in case["tags"]:
        b = b.with_tag(Tag(t["name"], value=t["init"], unit=t["unit"]))
    uod = b.build()
    uod.hwl.connect()
    return uod


def _classes(s: str, A) -> list[str]:
    out = []
    if A.delimiter in s:
        out.append("delimiter")
    if A.escapechar and A.escapechar in s:
        out.append("escapechar")
    if '"' in s:
        out.append("quote")
    if "; " in s:
        out.append("mark_separator")
    if "\r" in s or "\n" in s:
        out.append("newline")
    if any(ord(c) > 127 for c in s):
        out.append("non_ascii")
    return out


def _diff_class(e: str, g: str, A) -> str:
    """Class of the first character of the handed-over string that did not survive the round trip."""
    i = 0
    while i < len(e) and i < len(g) and e[i] == g[i]:
        i += 1
    if i >= len(e):
        return "text_appended"
    ch = e[i]
    if ch == A.delimiter:
        return "delimiter"
    if A.escapechar and ch == A.escapechar:
        return "escapechar"
    if ch == '"':
        return "quote"
    if ch in "\r\n":
        return "newline"
    if ord(ch) > 127:
        return "non_ascii"
    return "other_character"


def check_case(case, res: Result, scratch: str, case_no: int = 0):
    import openpectus.engine.archiver as A
    from opv.rigs import engine_rig as R

    install_archive_hooks()
    d = os.path.join(scratch, f"c{case_no}")
    os.makedirs(d, exist_ok=True)
    A.__file__ = os.path.join(d, "archiver.py")
    CTX.header = None
    CTX.rows = []
    CTX.cur = None
    CTX.archive_calls = 0
    viol: list[tuple] = []
    rig = None
    try:
        rig = R.EngineRig(case["text"], hooks=False, uod_factory=lambda log: make_uod(log, case),
                          enable_archiver=True)
        ar = rig.e._system_tags["Archive filename"]
        assert ar.data_path.startswith(scratch), ar.data_path
        rig.user("Start")
        for k in range(case["ticks"]):
            rig.hw.inputs["FT01"] = float(k % 5)
            rig.tick(catch=True)
            if rig.tick_exc:
                break
        if rig.tick_exc:
            res.count("runs_with_tick_exception")
        if rig.errors:
            res.count("runs_with_method_error")
        hdr = CTX.header
        if hdr is None or hdr["path"] is None or not os.path.isfile(hdr["path"]):
            res.count("no_archive_file")
            res.case(None, sample={"method": case["text"], "note": "no archive file"})
            return
        if hdr["existed"]:
            res.count("archive_file_preexisting_not_judged")
            res.case(None)
            return
        path = hdr["path"]
        assert path.startswith(scratch)
        exp_header = ["Datetime (UTC)"] + [f"{n} [{u}]" if u is not None else n for n, u, r in hdr["cols"] if r is not None]
        rows_rec = [r for r in CTX.rows if r["ready"]]
        for r in rows_rec:
            if not r["written"]:
                bad = [v for _, v in r["vals"] if v is not None and _classes(v, A)]
                cls = "+".join(sorted({c for v in bad for c in _classes(v, A)})) or "plain"
                viol.append(("C39.row_lost_on_write", f"archiver dropped a data row (file did not grow); row handed over: "
                             f"{[v for _, v in r['vals'] if v is not None]!r}; special classes in row: {cls}"))
        written = [r for r in rows_rec if r["written"]]
        try:
            with open(path, newline="", encoding=A.encoding) as f:
                got = list(csv.reader(f, delimiter=A.delimiter, quoting=A.quoting, escapechar=A.escapechar))
        except Exception as ex:      # csv.Error, UnicodeDecodeError
            viol.append(("C39.archive_not_readable", f"reading the archive back raised {type(ex).__name__}: {ex}"))
            got = None
        seen_classes: set[str] = set()
        special_cells = 0
        if got is not None:
            res.count("files_read_back")
            if not got:
                viol.append(("C39.header_missing", "archive file is empty"))
            else:
                res.count("header_cells_compared", len(exp_header))
                for c in exp_header:
                    if _classes(c, A):
                        res.count("header_cells_with_special")
                if got[0] != exp_header:
                    viol.append(("C39.header_changed_on_read_back", f"header read back as {got[0]!r}, written from "
                                 f"{exp_header!r}"))
                data = got[1:]
                if len(data) != len(written):
                    viol.append(("C39.row_count_differs", f"{len(written)} rows written (file grew), {len(data)} data rows "
                                 f"read back"))
                for i, (r, cells) in enumerate(zip(written, data)):
                    res.count("data_rows_compared")
                    exp = [v for _, v in r["vals"] if v is not None]
                    names = [n for n, v in r["vals"] if v is not None]
                    if any(v is None for _, v in r["vals"]):
                        res.count("rows_with_archive_none_skipped")
                    if len(cells) != len(got[0]):
                        offending = sorted({c for v in exp for c in _classes(v, A)})
                        viol.append(("C39.row_width_differs_from_header", f"data row {i} has {len(cells)} cells, header has "
                                     f"{len(got[0])}; handed over {exp!r}; read {cells!r}; special classes {offending}"))
                        continue
                    if not DT_RE.match(cells[0]):
                        viol.append(("C39.datetime_cell_malformed", f"data row {i} first cell {cells[0]!r}"))
                    for nm, e, g in zip(names, exp, cells[1:]):
                        res.count("cells_compared")
                        cl = _classes(e, A)
                        for c in cl:
                            res.count("cells_with:" + c)
                            seen_classes.add(c)
                        if cl:
                            special_cells += 1
                            if nm == "Mark":
                                res.count("mark_cells_with_special")
                        if nm == "Mark" and e:
                            res.count("mark_cells_nonempty")
                        if e != g:
                            viol.append(("C39.value_changed_on_read_back:" + _diff_class(e, g, A),
                                         f"data row {i} tag {nm!r}: handed over {e!r}, read back {g!r}"))
        n_rows = len(written)
        nontrivial = n_rows >= 3 and special_cells >= 3
        key = (sorted(t["name"] for t in case["tags"]), sorted(seen_classes), min(n_rows // 5, 6)) if nontrivial else None
        res.case(key, sample={"method": case["text"], "tags": case["tags"], "rows": n_rows,
                              "special_cells": special_cells, "interval": case["interval"]})
    finally:
        if rig is not None:
            rig.close()
        else:
            R.install_virtual_time(None)
        shutil.rmtree(d, ignore_errors=True)
    seen = set()
    for mech, msg in viol:
        if mech in seen:
            res.count("violation_repeats_in_run")
            continue
        seen.add(mech)
        res.violation(mech, msg, case)


def run_shard(spec):
    res = Result()
    rnd = random.Random(spec["seed"])
    scratch = tempfile.mkdtemp(prefix="opv-")
    try:
        for i in range(spec["n"]):
            check_case(gen_case(rnd), res, scratch, i)
    finally:
        shutil.rmtree(scratch, ignore_errors=True)
    return res


def replay(case):
    res = Result()
    scratch = tempfile.mkdtemp(prefix="opv-")
    try:
        check_case(case, res, scratch, 0)
    finally:
        shutil.rmtree(scratch, ignore_errors=True)
    return res
