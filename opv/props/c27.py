"""C27 - Engine messages survive disconnects without loss or duplication.

Real EngineRunner + real Engine/EngineMessageBuilder + ScriptedDispatcher (ordered channel, see opv/rigs/runner_rig.py)
on a virtual-time asyncio loop.  An offline checker joins the dispatcher's delivery log with the production log
(wrappers at _post_async/_buffer_message entry) and the runner state log (state_changing_callback).
"""
from __future__ import annotations

import hashlib
import itertools
import random

from opv.core import Result

ID = "C27"
LEVEL = "fault_enumeration"
TECHNIQUE = ("runtime monitoring: offline trace checker over delivery log x production log x runner state log of the "
             "real EngineRunner driven on a virtual-time asyncio loop against a scripted ordered-channel dispatcher")
RULE = ("fault script = (send-outcome bits, connect-outcome bits), consumed from the arming point by successive "
        "send_async calls on a live connection / successive connect_async calls; a failed send kills its connection "
        "(later sends on it fail too); exhausted script = ok. ALL scripts of total length <= 8 (quick) / <= 10 (thorough) for "
        "the 3 core activities (<= 6 / <= 9 for 4 more, thorough: <= 7 for the whole activity cross product) "
        "after normalisation (no trailing ok, connect bits that can never be consumed dropped) x engine activity scripts "
        "(arming at boot or 1 s into the run; Stop never / at the arming instant / when the runner enters Failed, "
        "Disconnected, Reconnecting, CatchingUp, Reconnected (+0/0.15 s); optional second run) x seeded reply latencies "
        "from {0,1,20,50 ms}, connect latencies and runner back-off (release orders); plus LATE-REPLY variants: ALL scripts "
        "with >= 1 send failure of total length <= 6 (quick; 5 for the 4 further activities) / <= 8, 7, 5 (thorough) in "
        "which a seeded 25 % of the failing and 4 % of the succeeding sends issued after the arming point - in any "
        "runner state, CatchingUp included - get their reply (exception / success) only after 0.6*W, W+1.5, 2W+2.5 or "
        "3W+3.5 virtual seconds (W = max back-off: around and beyond a whole reconnect + catch-up cycle). evaluations = scenario runs; "
        "distinct non-trivial = distinct interleavings (hash of the order of send/fate, reply, buffer, state and connect "
        "events with message types) containing at least one scripted failure")
ASSUMPTIONS = [
    "trusted base: ScriptedDispatcher (ordered channel: fate decided and logged when send_async is called, only the "
    "reply is delayed; never re-orders; failures are connection-level and sticky), the virtual-time loop, EngineRig",
    "'delivered' = send_async was called for the message on a live connection with fate ok",
    "'produced' = first time the message object enters EngineRunner._post_async or _buffer_message; production order "
    "is the order of these entries",
    "bounded progress: a message that was in the buffer must have been delivered by the time the runner next enters "
    "Reconnected; if a scenario ends without reaching a steady state: produced = delivered + buffered + in flight",
    "ordering clause judged only for messages of run R that were buffered and produced before RunStoppedMsg(R)",
    "engine and runner share one thread here (the engine ticks as a task of the loop); thread-level races between the "
    "engine thread and the loop are not explored",
    "the engine is started by first_steady_state_callback as in production, so nothing is produced in state Started",
    "engine_runner.random is bound to a seeded Random (reconnect back-off 0.5..MAX s); the quick tier sets "
    "engine_runner.MAX_RECONNECT_WAIT_SECONDS = 4 to shorten outages, the thorough tier keeps the shipped 10",
    "mechanism classifiers read harness-side facts only (production route, runner state at send, alive task names)",
    "late replies: the fate of a message is still fixed and logged at send_async call time; a reply that is held back for "
    "seconds models a request hanging on a dead (or slow) connection until a transport time-out. A scenario ends only "
    "after every late reply was released and the runner was steady for 2 further seconds (>= 6 steady-state rounds)",
]
REQUIRED = {"runs": 500, "runs_with_failure": 300, "reconnected_transitions": 300, "buffered_at_reconnected_checked": 2000,
            "resent_messages": 1000, "stop_order_checks": 100, "seq_checks": 20000, "end_conservation_checks": 300,
            "late_runs": 300, "late_failure_replies": 300, "late_failure_replies_after_full_reconnect_cycle": 40,
            "late_failure_replies_for_sends_in_catchingup": 30, "late_failure_replies_arriving_in_reconnected": 30,
            "late_success_replies": 100, "late_failed_messages_delivered_later": 300}
EXHAUSTIVE_ALL = False

KNOWN_DIRECT = "C27.direct_send_during_catchup_overtakes_buffer"
KNOWN_REBUF = "C27.failed_inflight_message_rebuffered_behind_later_message"
KNOWN_ORPHAN = "C27.orphaned_buffer_task_buffers_in_steady_state"
KNOWN_SNAPSHOT = "C27.snapshot_post_cancelled_inflight"
KNOWN_BLOCKED = "C27.set_state_raises_when_state_task_awaits_itself"


# ----------------------------------------------------------------------------------------------------------------
def _norm_strings(n):
    if n == 0:
        return [()]
    return [t + (False,) for t in itertools.product((True, False), repeat=n - 1)]


def patterns(L, boot):
    """All normalised (send bits, connect bits) with total length <= L."""
    out = []
    for a in range(L + 1):
        for b in range(L + 1 - a):
            for s in _norm_strings(a):
                cycles = sum(1 for x in s if not x) + (1 if boot else 0)    # connect cycles that can happen
                for c in _norm_strings(b):
                    if c and sum(1 for x in c if x) + 1 > cycles:
                        continue            # trailing connect bits could never be consumed
                    out.append((list(s), list(c)))
    return out


def activities(tier):
    acts = [
        {"arm": "run", "stop": ["never"], "second": False},
        {"arm": "run", "stop": ["state", "CatchingUp", 0.0], "second": False},
        {"arm": "run", "stop": ["state", "Failed", 0.0], "second": True},
        {"arm": "run", "stop": ["time", 0.0], "second": False},
        {"arm": "run", "stop": ["state", "Disconnected", 0.15], "second": False},
        {"arm": "run", "stop": ["state", "CatchingUp", 0.15], "second": True},
        {"arm": "boot", "stop": ["state", "Reconnected", 0.15], "second": False},
    ]
    if tier != "quick":
        for arm in ("run", "boot"):
            for second in (False, True):
                stops = [["never"], ["time", 0.0], ["time", 0.1], ["time", 0.3]]
                for st in ("Failed", "Disconnected", "Reconnecting", "CatchingUp", "Reconnected"):
                    for d in (0.0, 0.15):
                        stops.append(["state", st, d])
                for s in stops:
                    a = {"arm": arm, "stop": s, "second": second}
                    if a not in acts and not (s == ["never"] and second):
                        acts.append(a)
    return acts


CORE3 = (0, 1, 3)


def _bound(tier, ai):
    """script length bound for activity #ai"""
    if tier == "quick":
        return 8 if ai in CORE3 else 6
    return 10 if ai in CORE3 else 9 if ai < 7 else 7


def _late_bound(tier, ai):
    """script length bound of the late-reply variants for activity #ai"""
    if tier == "quick":
        return 6 if ai in CORE3 else 5
    return 8 if ai in CORE3 else 7 if ai < 7 else 5


def late_spec(max_wait):
    w = float(max_wait)
    return {"p_fail": 0.25, "p_ok": 0.04, "delays": [round(0.6 * w, 3), w + 1.5, w + 1.5, 2 * w + 2.5, 3 * w + 3.5]}


def plan(tier, seed):
    acts = activities(tier)
    cases = []
    mw = 4 if tier == "quick" else 10
    for ai, act in enumerate(acts):
        for pi, (s, c) in enumerate(patterns(_bound(tier, ai), act["arm"] == "boot")):
            cases.append({"send": s, "conn": c, "act": act, "max_wait": mw,
                          "seed": (seed * 1000003 + ai * 7919 + pi) & 0x7FFFFFFF})
    # late-reply variants (appended: the cases above are what they were before)
    for ai, act in enumerate(acts):
        for pi, (s, c) in enumerate(patterns(_late_bound(tier, ai), act["arm"] == "boot")):
            if False in s:
                cases.append({"send": s, "conn": c, "act": act, "max_wait": mw, "late": late_spec(mw),
                              "seed": (seed * 1000003 + ai * 7919 + pi + 500009) & 0x7FFFFFFF})
    nshards = 16 if tier == "quick" else 64
    shards = [{"seed": seed, "tier": tier, "cases": cases[i::nshards], "n_acts": len(acts)} for i in range(nshards)]
    return [s for s in shards if s["cases"]]


# ----------------------------------------------------------------------------------------------------------------
DATA_TYPES = ("TagsUpdatedMsg", "RunLogMsg", "RunStartedMsg")


def check_trace(case, out, res: Result):
    """Offline checker. Returns (violations, interleaving hash, nontrivial)."""
    log, info = out["log"], out["info"]
    viol = []
    prod_idx: dict = {}
    prod_state: dict = {}
    prod_via: dict = {}
    replied: set = set()
    reply_idx: dict = {}
    bufs: dict = {}
    sends: dict = {}
    posts: dict = {}
    order_sig = []
    cutoff = len(log)
    reconnected = []
    lates: dict = {}            # message id -> (log index of the send, fate ok, runner state at send)   [last late send]
    late_replies: list = []     # (log index, message id, fate ok, runner state at send, runner state at arrival)
    for i, e in enumerate(log):
        k = e[0]
        if k == "prod":
            prod_idx[e[1]] = i
            prod_state[e[1]] = e[4]
            prod_via[e[1]] = (e[5], e[6] >= 1)
            if e[5] == "buffer" and e[4] in ("Connected", "Reconnected"):
                res.count("buffered_by_leftover_task_in_steady_state")
        elif k == "post":
            posts.setdefault(e[1], []).append((i, e[2]))
        elif k == "buf":
            bufs.setdefault(e[1], []).append(i)
            order_sig.append(("b", info[e[1]][0]))
        elif k == "send":
            sends.setdefault(e[1], []).append((i, e[2], e[3], e[4], e[5]))
            order_sig.append(("s", info[e[1]][0], e[3]))
        elif k == "reply":
            replied.add(e[1])
            reply_idx.setdefault(e[1], i)
            order_sig.append(("r", info[e[1]][0], e[2]))
        elif k == "state":
            order_sig.append(("st", e[2]))
            if e[2] == "Reconnected":
                reconnected.append(i)
        elif k == "connect":
            order_sig.append(("c", e[1]))
        elif k == "late":
            lates[e[1]] = (i, e[2], e[4])
            order_sig.append(("L", info[e[1]][0], e[2]))
        elif k == "late_reply":
            late_replies.append((i, e[1], e[2], e[3], e[4]))
        elif k == "cutoff":
            cutoff = i
    ihash = hashlib.sha1(repr(order_sig).encode()).hexdigest()[:16]
    desc = f"script send={_bits(case['send'])} conn={_bits(case['conn'])} act={case['act']} seed={case['seed']}"

    def name(mid):
        t, r = info[mid]
        ss = sends.get(mid)
        return f"{t}(seq {ss[0][1] if ss else '?'}{', run ' + r[:8] if r else ''})"

    # ---- C2: at most one successful delivery, no attempt after a successful one;  C3: sequence numbers
    seq_owner: dict = {}
    for mid, ss in sends.items():
        res.count("seq_checks")
        oks = [x for x in ss if x[2]]
        if len(ss) > 1:
            res.count("resent_messages")
        if len(oks) > 1:
            viol.append(("C27.delivered_twice", f"{name(mid)} delivered successfully {len(oks)} times; {desc}"))
        elif oks and ss[-1][0] > oks[0][0]:
            viol.append(("C27.attempt_after_successful_delivery", f"{name(mid)} sent again after a successful delivery; {desc}"))
        seqs = {x[1] for x in ss}
        if len(seqs) > 1 or -1 in seqs:
            viol.append(("C27.sequence_number_changed_between_attempts", f"{name(mid)} carried sequence numbers {sorted(seqs)}; {desc}"))
        for q in seqs:
            if q in seq_owner and seq_owner[q] != mid:
                viol.append(("C27.sequence_number_shared", f"sequence number {q} used by {name(mid)} and {name(seq_owner[q])}; {desc}"))
            seq_owner[q] = mid
    # ---- C1: at every transition to Reconnected: buffer empty, everything that was buffered has been delivered
    for e_i in reconnected:
        res.count("reconnected_transitions")
        e = log[e_i]
        if e[3]:
            viol.append(("C27.buffer_not_empty_at_reconnected",
                         f"{len(e[3])} message(s) still buffered when the runner reports Reconnected: "
                         f"{[name(m) for m in e[3][:4]]}; {desc}"))
        for mid, bl in bufs.items():
            if bl[0] < e_i:
                res.count("buffered_at_reconnected_checked")
                if not any(x[2] and x[0] < e_i for x in sends.get(mid, [])) and mid not in e[3]:
                    viol.append(("C27.buffered_message_undelivered_at_reconnected",
                                 f"{name(mid)} was buffered but neither delivered nor in the buffer when the runner "
                                 f"entered Reconnected; {desc}"))
    # ---- C4: buffered data of run R before RunStoppedMsg(R)
    for sid, (t, rid) in info.items():
        if t != "RunStoppedMsg":
            continue
        oks = [x for x in sends.get(sid, []) if x[2]]
        if not oks:
            continue
        e_s, _, _, _, st_at_send = oks[0]
        stop_bufs = [b for b in bufs.get(sid, []) if b < e_s]
        checked = False
        for mid, (mt, mr) in info.items():
            if mr != rid or mid == sid or mt not in DATA_TYPES:
                continue
            if prod_idx[mid] > prod_idx[sid]:
                continue
            mb = [b for b in bufs.get(mid, []) if b < e_s]
            if not mb:
                continue
            checked = True
            if any(x[2] and x[0] < e_s for x in sends.get(mid, [])):
                continue
            # overtaken
            failed_m = [x[0] for x in sends.get(mid, []) if not x[2] and x[0] < e_s]
            if prod_via.get(mid) == ("buffer", True) and prod_state[mid] in ("Connected", "Reconnected") and not sends.get(mid):
                mech = KNOWN_ORPHAN
                how = ("the data message was put into the buffer in a steady state by a leftover buffer_messages task and "
                       "stays stranded there while RunStoppedMsg is sent directly")
            elif st_at_send == "CatchingUp" and not stop_bufs:
                mech = KNOWN_DIRECT
                how = "RunStoppedMsg was posted while the runner was CatchingUp and sent directly"
            elif stop_bufs and any(i_m < b_s < min([b for b in mb if b > i_m], default=-1)
                                   for i_m in failed_m for b_s in stop_bufs):
                # the data message was handed to the channel (fate: failed) BEFORE RunStoppedMsg entered the buffer, but
                # re-entered the buffer only when its failure reply was processed, i.e. BEHIND RunStoppedMsg
                mech = KNOWN_REBUF
                how = ("the data message was already on the wire (attempt failed) when RunStoppedMsg entered the buffer, "
                       "but it was re-buffered only when its failure reply arrived, behind RunStoppedMsg")
            else:
                mech = None
                how = f"state at send {st_at_send}, stop buffered={bool(stop_bufs)}"
            viol.append((mech, f"RunStoppedMsg of run {rid[:8]} delivered before buffered {name(mid)} of the same run "
                               f"(produced earlier): {how}; {desc}"))
            break
        if checked:
            res.count("stop_order_checks")
    def _self_cancel_evidence(mid):
        """a tag snapshot (posted from inside the steady-state task) failed on the same connection and its failure
        reply was processed before this message's failure reply"""
        conn = sends[mid][0][3]
        for sid2, (t2, r2) in info.items():
            if t2 == "TagsUpdatedMsg" and r2 is None and prod_via.get(sid2, ("", 0))[0] == "post" \
                    and prod_state.get(sid2) in ("Connected", "Reconnected") and sid2 in reply_idx:
                a = sends.get(sid2, [])
                if a and not a[0][2] and a[0][3] == conn and reply_idx[sid2] < reply_idx[mid]:
                    return True
        return False

    # ---- C5: conservation at the end
    res.count("end_conservation_checks")
    steady_end = out.get("final_state") in ("Connected", "Reconnected") and out.get("end_state") == out.get("final_state")
    if not steady_end:
        res.count("ended_not_steady")
    endbuf = set(out.get("end_buffer", []))
    endfl = out.get("end_inflight", {})
    for mid, pi in prod_idx.items():
        if pi > cutoff:
            continue
        ss = sends.get(mid, [])
        if any(x[2] for x in ss):
            continue
        if not steady_end and (mid in endbuf or mid in endfl):
            continue
        if steady_end and (mid in endfl and endfl[mid] == "ok"):
            continue
        pst = [s for _, s in posts.get(mid, [])]
        if pst and pst[0] not in ("Connected", "Reconnected", "CatchingUp", "Failed", "Disconnected", "Reconnecting"):
            mech = "C27.post_dropped_in_state_" + str(pst[0])
        elif len(ss) == 1 and not ss[0][2] and mid not in replied and mid not in bufs and info[mid] == ("TagsUpdatedMsg", None) \
                and prod_via.get(mid, ("", False))[0] == "post" and prod_state[mid] in ("Connected", "Reconnected"):
            # the tag snapshot is posted un-shielded from the steady-state task: the task was cancelled (another send
            # failed first) while it awaited this message's reply, so the failure was never seen and nothing re-buffered it
            mech = KNOWN_SNAPSHOT
        elif len(ss) == 1 and not ss[0][2] and mid in replied and mid not in bufs and _self_cancel_evidence(mid):
            # the failure reply was seen, but _post_async never got to _buffer_message: its `await _set_state("Failed")`
            # raised RuntimeError("await wasn't used with future") because it awaited the steady-state task while that
            # task was cancelling and awaiting ITSELF (its own un-shielded snapshot post had failed just before)
            mech = KNOWN_BLOCKED
        elif mid in endbuf and prod_via.get(mid) == ("buffer", True) and prod_state[mid] in ("Connected", "Reconnected"):
            # put into the buffer, in a steady state, by a buffer_messages task that should no longer exist
            mech = KNOWN_ORPHAN
        elif mid in endbuf:
            mech = "C27.message_stranded_in_buffer_at_steady_state"
        else:
            mech = "C27.message_lost"
        viol.append((mech, f"{name(mid)} produced in runner state {prod_state[mid]} was never delivered "
                           f"(attempts {[(x[2], x[4]) for x in ss]}, in buffer at end={mid in endbuf}); {desc}"))
        break
    # ---- the runner's own tick task must survive (otherwise nothing is ever delivered "after reconnection")
    if out.get("timer_dead"):
        res.count("runner_tick_task_died")
        mech = KNOWN_BLOCKED if "await wasn't used with future" in out["timer_dead"] else None
        viol.append((mech, f"EngineRunner's AsyncTimer task died with {out['timer_dead']} (raised inside _tick -> _set_state): "
                           f"the runner stays in state {out.get('final_state')} forever; {desc}"))
    if out.get("shutdown_exc"):
        res.count("shutdown_raised")
    # counters proving that the late-reply workload ran (facts of the harness log only)
    if case.get("late"):
        res.count("late_runs")
        for (i_r, mid, ok, st_send, st_arr) in late_replies:
            if ok:
                res.count("late_success_replies")
                continue
            res.count("late_failure_replies")
            res.count("late_failure_replies_arriving_in_" + str(st_arr).lower())
            if st_send == "CatchingUp":
                res.count("late_failure_replies_for_sends_in_catchingup")
            # the send that this reply belongs to: the last send of the message before the reply
            i_s = max((x[0] for x in sends.get(mid, []) if x[0] < i_r), default=None)
            if i_s is not None and any(i_s < r < i_r for r in reconnected):
                # the runner went through (at least) one complete Failed -> ... -> Reconnected cycle while the request hung
                res.count("late_failure_replies_after_full_reconnect_cycle")
            if any(x[2] and x[0] > i_r for x in sends.get(mid, [])):
                res.count("late_failed_messages_delivered_later")
    # counters describing the scenario
    cons = out.get("consumed", [])
    nontrivial = any(x.endswith("-") for x in cons)
    if nontrivial:
        res.count("runs_with_failure")
    if out.get("script_left"):
        res.count("script_not_fully_consumed")
    n_direct = sum(1 for ss in sends.values() for x in ss if x[4] == "CatchingUp")
    res.count("sends_while_catching_up", n_direct)
    res.count("buffered_messages", len(bufs))
    return viol, ihash, nontrivial


def _bits(b):
    return "".join("+" if x else "-" for x in b) or "e"


def run_one(case, res: Result):
    from opv.rigs import runner_rig as RR
    out = RR.run_case(case)
    res.count("runs")
    res.count("virtual_seconds", int(out.get("vtime", 0)))
    viol, ihash, nontrivial = check_trace(case, out, res)
    sample = None
    if nontrivial and len(res.samples) < 6:
        sample = {"case": case, "consumed": out.get("consumed"), "final_state": out.get("final_state"),
                  "virtual_seconds": round(out.get("vtime", 0), 2), "interleaving": ihash}
    res.case(ihash if nontrivial else None, sample=sample)
    seen = set()
    for mech, msg in viol:
        if (mech, msg) in seen:
            continue
        seen.add((mech, msg))
        res.violation(mech, msg, case)


def run_shard(spec):
    import logging
    logging.disable(logging.CRITICAL)
    res = Result()
    for case in spec["cases"]:
        run_one(case, res)
    t = spec["tier"]
    res.exhaustive_parts.append(
        f"all normalised fault scripts (send bits, connect bits) of total length <= {_bound(t, 0)} x 3 core activity scripts "
        f"(no stop / stop on entering CatchingUp / stop at the arming instant); length <= {_bound(t, 2)} x 4 further activity scripts"
        + (f"; length <= {_bound(t, 7)} x all {spec['n_acts']} activity scripts" if spec["n_acts"] > 7 else "")
        + "; one seeded release order per (script, activity) pair - the release orders themselves are sampled, not enumerated")
    return res


def replay(case):
    import logging
    logging.disable(logging.CRITICAL)
    res = Result()
    run_one(case, res)
    return res
