"""C03 - Thresholds and Wait durations are honoured.

Runtime monitor over generated methods (see DESIGN.md C03):
* every evaluation of PInterpreter._is_awaiting_threshold and every `started` transition of a line with a threshold is
  re-judged at the same instant against the *observed* clock tag value the statement designates (Block Time inside a
  block, Scope Time otherwise, the registered volume accumulators for Base L/mL), with exact rational arithmetic;
* a pending line must be re-evaluated in every interpreter tick and must start in the tick in which it is released;
* the same two bounds on thresholds of 1000 s and more (10 000 s and more in the thorough tier) in a small stratum of
  runs of 10-11 thousand (100-110 thousand) ticks: clock strings with four/five integer digits, float sums of 10^4-10^5
  increments;
* macro stratum: a thresholded line in the body of a macro is judged where the one call of the macro that is in progress
  is written (Block Time when that call - followed through further calls and Watch/Alarm lines - is nested in the active
  block, also when Scope Time has just restarted with a Watch inside that block); a line that merely runs beside an active
  block (handler written outside it, injected code) is judged against what the lexical and the dynamic reading of
  "inside a block" both demand;
* the successor of `Wait: d` must start no earlier than d after the Wait's start (engine ticks x 0.1 s) and no later
  than ceil(d/0.1)+1 *interpreter* ticks after it (pauses/holds do not count).
"""
from __future__ import annotations

import math
import random
import re
from decimal import Decimal
from fractions import Fraction

from opv.core import Result
from opv.gen_pcode import shape_hash

ID = "C03"
LEVEL = "exploration"
TECHNIQUE = ("runtime monitoring: differential re-evaluation of every threshold decision against observed clock tags "
             "plus tick-grid bounds on Wait successors")
RULE = ("seeded generator of methods with thresholds on Mark/Wait/Block/UOD lines in Base s/min/h (and L/mL with a "
        "scripted totalizer), Base changes, nested blocks, Watch/Alarm bodies, Wait 0-3 s (s and min) x user schedules "
        "with Pause/Unpause and Hold/Unhold windows between ticks (a minority with Restart or Stop/Start) x scripted "
        "FT01/totalizer trajectories; tick interval 0.1 s on a drift-free virtual clock, run to quiescence; plus a long-run "
        "stratum (2 runs per shard quick, 3 thorough, Base s/min/h x root/block rotated over the shards): a threshold of "
        "1000-1060 s (not a whole number of seconds, mostly off the tick grid) at root level or inside a block, further "
        "thresholds in other Base units falling due a few seconds later on the scope clock, in the thorough tier a last "
        "threshold of 10 000 s and more, Pause/Hold windows anywhere and around the instant the threshold falls due, "
        "10-11 thousand (thorough: 100-110 thousand) ticks each; plus a macro stratum (24 runs per shard quick, 200 "
        "thorough): 1-6 macros defined at root level with thresholded Mark/Short/Wait body lines (Base s/min/h, macro "
        "calling macro), each macro called from one thread of control only - the body of a block (after Waits of 0.5-2.5 s), "
        "Watch (Block Time/Run Time/FT01/Run Counter conditions) and Alarm bodies written inside the block or a nested "
        "block, root level before/after the block, a Watch/Alarm written before the block that fires while it is active, "
        "in 15 % of the runs code injected at tick 5-60; Base lines before calls, same Pause/Hold schedules. distinct = "
        "shape hash of method text + schedule kinds; non-trivial = at least one threshold decision or Wait successor "
        "was judged")
ASSUMPTIONS = [
    "the clock of a line is the observed float value of the tag the statement designates, read at the instant the "
    "interpreter decides (exactly what it compares via Decimal(str(value))); thresholds are converted with exact "
    "rationals (s/min/h -> s, L/mL -> L)",
    "'inside a block': a line is judged against Block Time/Block Volume only if its innermost enclosing Block is active "
    "and named by the Block tag, against Scope Time/Accumulated Volume only if it has no enclosing Block and either the "
    "Block tag is empty or names no active block (stale tag). 'Enclosing' is lexical, except that the body of a macro "
    "defined at root level is enclosed by whatever encloses the one `Call macro` line of that macro that is in progress "
    "(started, not completed, handler not dropped), followed through further calls and through Watch/Alarm lines: a macro "
    "has no scope or clock of its own, its lines run in the scope of the call, and the call site is inside the block "
    "lexically and dynamically (no call or several calls in progress, macro defined below root level: counted, not judged)",
    "a line with no enclosing block that runs while a block is active (Watch/Alarm written outside the block, macro called "
    "from there, injected code) is 'inside a block' under the dynamic reading only: judged is what both readings demand "
    "(no release/start while neither Scope Time nor Block Time has reached T, no holding back once both have), the "
    "evaluations on which the two clocks disagree are counted as left open. A line whose own block is active while a "
    "block nested in it is the innermost one: only the late bound (Block Time tag of the younger inner block has reached "
    "T, hence the outer block's time too); other nested-block mismatches are counted, not judged",
    "'Wait started' / 'instruction starts' are the started transitions of the nodes (= run-log start times); elapsed "
    "time is counted in engine ticks x 0.1 s, the upper bound ceil(d/0.1)+1 in interpreter ticks (Pause/Hold extend it)",
    "when d is an exact multiple of the 0.1 s interval the Wait loop's comparison `tick_time < start + d - 0.1` is an "
    "exact tie whose outcome is decided by float rounding of the tick times (no tick source can make multiples of 0.1 "
    "exact); one extra interpreter tick is tolerated for such d and counted (weaker than DESIGN.md, see report)",
    "late start is asserted from the first evaluation of the line on (the interpreter reaches a line in the tick in "
    "which its predecessor is passed)",
    "observation: wrappers on PInterpreter.tick/_is_awaiting_threshold and a chained descriptor on Node.started; the "
    "Tot/FT01 hardware inputs are scripted",
]
REQUIRED = {"interp_ticks": 40000, "threshold_evals_judged": 8000, "threshold_starts_judged": 1500,
            "evals_clock_equals_threshold": 30, "evals_released": 1000, "pending_reevaluations": 5000,
            "judged_block_clock": 500, "judged_scope_clock": 1500, "judged_base_min_or_h": 300, "judged_volume": 100,
            "wait_lower_judged": 800, "wait_upper_judged": 600, "wait_judged_with_pause_or_hold_inside": 20,
            "cases_with_pause_or_hold": 300,
            # macro stratum: macro body lines judged where the call is written, and lines that run beside an active block
            "macro_stratum_runs": 300, "judged_block_clock_in_macro_body": 1500,
            "judged_block_clock_in_macro_body_called_from_watch_or_alarm_in_block": 500,
            "judged_block_clock_in_macro_body_base_min_or_h": 800,
            "judged_block_clock_in_macro_body_scope_clock_would_decide_otherwise": 200,
            "judged_scope_clock_in_macro_body": 600,
            "evals_judged_under_both_readings_line_runs_beside_active_block": 1500,
            "evals_both_readings_agree_reached": 200, "evals_both_readings_agree_not_reached": 500}
EXHAUSTIVE_ALL = False

TENTH = Fraction(1, 10)
TIME_F = {"s": Fraction(1), "min": Fraction(60), "h": Fraction(3600)}
VOL_F = {"L": Fraction(1), "mL": Fraction(1, 1000)}
MECH_STALE = "C03.stale_block_tag_selects_block_clock"
MECH_ENDED = "C03.block_tag_names_ended_block"

MON: list = [None]
_installed = [False]
HITS = {"eval": 0, "tick": 0, "started": 0}


# ------------------------------------------------------------------------------------------------
def install():
    """Class-level observers (once per process); they delegate and never change results."""
    if _installed[0]:
        return
    _installed[0] = True
    from opv.rigs import engine_rig as R
    import openpectus.lang.model.ast as p
    from openpectus.lang.exec.pinterpreter import PInterpreter
    R.install_node_hooks()

    orig_eval = PInterpreter._is_awaiting_threshold

    def _eval(self, node):
        result = orig_eval(self, node)
        HITS["eval"] += 1
        m = MON[0]
        if m is not None:
            m.on_eval(self, node, result)
        return result
    PInterpreter._is_awaiting_threshold = _eval

    orig_tick = PInterpreter.tick

    def _tick(self, tick_time, tick_number):
        HITS["tick"] += 1
        m = MON[0]
        if m is not None:
            m.on_itick_begin(self)
        try:
            return orig_tick(self, tick_time, tick_number)
        finally:
            if m is not None:
                m.on_itick_end(self)
    PInterpreter.tick = _tick

    prop = p.Node.__dict__["started"]

    def _set_started(self, v):
        old = prop.fget(self)
        prop.fset(self, v)
        if v is True and old is not True:
            HITS["started"] += 1
            m = MON[0]
            if m is not None:
                m.on_started(self)
    p.Node.started = property(prop.fget, _set_started)


def make_rig(text, with_totalizer):
    from opv.rigs import engine_rig as R

    class GridRig(R.EngineRig):
        """EngineRig whose tick times are the nearest floats to EPOCH + k*0.1 (no accumulated drift: adding 0.1 to a
        clock near 1.7e9 loses ~1e-7 s per tick, i.e. the engine would see an interval shorter than 0.1 s)."""

        def tick(self, n=1, dt=None, catch=False):
            for _ in range(n):
                inc = 0.0 if self.first else self.interval
                self.first = False
                self.k += 1
                self.clock.t = float(Fraction(R.EPOCH) + self.k * TENTH)
                R.TICK[0] = self.k
                self.clock.in_tick = True
                try:
                    self.e.tick(self.clock.t, inc)
                except Exception as ex:  # noqa
                    self.tick_exc.append((self.k, f"{type(ex).__name__}: {ex}"[:400]))
                    if not catch:
                        raise
                finally:
                    self.clock.in_tick = False
    return GridRig(text, with_totalizer=with_totalizer)


def fr(x) -> Fraction:
    return Fraction(Decimal(str(x)))


# ------------------------------------------------------------------------------------------------
class Monitor:
    def __init__(self, rig, res: Result):
        import openpectus.lang.model.ast as p
        self.p = p
        self.rig = rig
        self.res = res
        self.viol: list[tuple[str | None, str]] = []
        self.itick = 0
        self.in_itick = False
        self.pending: dict[int, dict] = {}     # awaiting nodes: id -> {node, last_eval}
        self.due: dict[int, object] = {}       # released in this interpreter tick, must start before it ends
        self.waits: dict[int, dict] = {}       # open Wait records
        self.succ_of: dict[int, list] = {}     # successor id -> [wait records]
        self.judged = 0
        self.pause_hold_ticks = 0              # engine ticks that began Paused/Holding
        self.error = False
        self.run_id = None
        self.run_starts = 0
        self.block_tag_at_run_start = None     # Block tag value carried into the current run (None/"" normally)

    def V(self, mech, msg):
        self.viol.append((mech, msg))

    def after_engine_tick(self):
        rid = self.rig.tag("Run Id") or None
        if rid and rid != self.run_id:
            self.run_starts += 1
            self.block_tag_at_run_start = self.rig.tag("Block")
        self.run_id = rid

    def stale_mech(self, c):
        """Narrow classifier: the line has no enclosing block, no block is active, but the Block tag still carries the
        name it had when the previous run was stopped/restarted, so the interpreter reads the block clock."""
        if c["kind"] == "stale" and self.run_starts >= 2 and c["block_tag"] == self.block_tag_at_run_start:
            return MECH_STALE
        if c["kind"] == "stale" and c["tag_names_ended_block"]:
            # second shape: within one run the Block tag was set (by an `End block` that ran after its block had already
            # been ended) to the name of a block of this run that has ended; no block is active
            return MECH_ENDED
        return None

    # ---- where does the line execute? (macro body lines execute where the macro was called)
    def _all_call_nodes(self, interp):
        p = self.p
        out = [n for n in interp._program.get_all_nodes() if isinstance(n, p.CallMacroNode)]
        for it in getattr(interp, "interrupts", ()):
            if isinstance(it.node, p.InjectedNode):
                out += [n for n in it.node.get_child_nodes(recursive=True) if isinstance(n, p.CallMacroNode)]
        return out

    def live_calls(self, interp, macro_name, depth=0):
        """`Call macro` lines of this macro that are in progress (started, not completed) on a handler that still
        exists: a call whose handler was dropped with its block / Watch stays started for ever and is not in progress."""
        return [c for c in self._all_call_nodes(interp)
                if c.macro_name == macro_name and c.started and not c.completed and not c.failed and not c.cancelled
                and self.abandoned(interp, c, depth + 1) is None]

    def enclosing_block(self, interp, node):
        """-> (innermost Block the line is nested in or None, how, why_not_decidable). Lexical nesting, except that the
        body of a macro defined at root level is nested where the one call of that macro that is in progress is written
        (followed through further calls and through Watch/Alarm lines)."""
        p = self.p
        how = {"calls": 0, "handler_above_call": False, "origin": "program"}
        cur = node
        for _ in range(40):
            par = cur.parent
            if par is None:
                if isinstance(cur, p.InjectedNode):
                    how["origin"] = "injected"
                elif not isinstance(cur, p.ProgramNode):
                    return None, how, "detached_node"
                return None, how, None
            if isinstance(par, p.BlockNode):
                how["origin"] = "block"
                return par, how, None
            if isinstance(par, p.MacroNode):
                if not isinstance(par.parent, p.ProgramNode):
                    return None, how, "ambiguous_macro_defined_below_root_level"
                if interp._program.macros.get(par.macro_name) is not par:
                    return None, how, "ambiguous_macro_definition_superseded"
                calls = self.live_calls(interp, par.macro_name)
                if len(calls) != 1:
                    return None, how, ("ambiguous_macro_body_without_call_in_progress" if not calls
                                       else "ambiguous_macro_body_with_several_calls_in_progress")
                how["calls"] += 1
                cur = calls[0]
                continue
            if isinstance(par, p.NodeWithCondition) and how["calls"]:
                how["handler_above_call"] = True
            cur = par
        return None, how, "nesting_too_deep"

    # ---- which clock does the statement designate for this line, now?
    def context(self, interp, node):
        p = self.p
        tags = interp.context.tags
        base = tags["Base"].get_value()
        provider = interp.context.base_unit_provider
        if not isinstance(base, str) or not provider.has(base):
            return None, "base_unit_unregistered"
        vt_name, bt_name = provider.get_tags(base)
        if not tags.has(vt_name) or not tags.has(bt_name):
            return None, "clock_tag_missing"
        block_tag = tags["Block"].get_value()
        lex, via, why = self.enclosing_block(interp, node)
        if why is not None:
            return None, why
        active = [n for n in interp._program.get_all_nodes()
                  if isinstance(n, p.BlockNode) and n.lock_acquired and not n.block_ended]
        names = {b.name for b in active}
        ended_names = {n.name for n in interp._program.get_all_nodes()
                       if isinstance(n, p.BlockNode) and (n.block_ended or n.completed)}
        other = None
        if lex is None:
            if block_tag in (None, ""):
                kind, tag = "scope", tags[vt_name]
            elif block_tag not in names:
                kind, tag = "stale", tags[vt_name]       # Block tag names no active block: no block designates a clock
            else:
                # the line is not nested in the active block, it merely runs while that block is active (handler written
                # outside the block, macro called from such a handler, injected code): the text leaves the clock open
                # between Scope Time and Block Time - only what holds under both readings is judged
                kind, tag, other = "either", tags[vt_name], tags[bt_name]
        else:
            if block_tag == lex.name and lex in active:
                inner = [b for b in active if lex in b.parents]
                if inner:
                    return None, "ambiguous_nested_block_active_below_lexical_block"
                kind, tag = "block", tags[bt_name]
            elif lex in active and base in TIME_F and any(b.name == block_tag and lex in b.parents for b in active):
                # the line's own block is active but a block nested in it is the innermost one (a handler of the outer
                # block running while the main path is in the inner block): 'block time' is the outer block's under the
                # lexical reading, the Block Time tag (inner block's) under the dynamic one. The outer block is the older
                # one, so once the tag has reached T both have: the late-start bound is judged, the early one stays open
                kind, tag = "nested", tags[bt_name]
            else:
                return None, "ambiguous_lexical_block_not_named_by_block_tag"
        unit = tag.unit
        if base in TIME_F and unit == "s":
            f = TIME_F[base]
        elif base in VOL_F and unit == "L":
            f = VOL_F[base]
        else:
            return None, "unit_pair_not_modelled"
        try:
            clock = fr(tag.get_value())
            thr = fr(node.threshold) * f
            clock2 = None
            if other is not None:
                if other.unit != unit:
                    return None, "unit_pair_not_modelled"
                clock2 = fr(other.get_value())
            elif kind == "block":
                clock2 = fr(tags[vt_name].get_value())     # the other clock, for the coverage counters only
        except Exception:
            return None, "non_numeric_clock"
        return {"kind": kind, "clock": clock, "T": thr, "base": base, "tag": tag.name, "raw": tag.get_value(),
                "block_tag": block_tag, "tag_names_ended_block": block_tag in ended_names, "via": via,
                "clock2": clock2, "tag2": other.name if other is not None else None,
                "raw2": other.get_value() if other is not None else None}, None

    def _count_ctx(self, c):
        res = self.res
        res.count({"block": "judged_block_clock", "scope": "judged_scope_clock", "stale": "judged_stale_block_tag"}[c["kind"]])
        how = c["via"]
        if how["calls"]:
            # macro body line judged where its call is written
            res.count(f"judged_{c['kind']}_clock_in_macro_body")
            if how["calls"] > 1:
                res.count("judged_in_macro_body_called_from_macro_body")
            if c["kind"] == "block":
                if how["handler_above_call"]:
                    res.count("judged_block_clock_in_macro_body_called_from_watch_or_alarm_in_block")
                if c["base"] in ("min", "h"):
                    res.count("judged_block_clock_in_macro_body_base_min_or_h")
                if c["clock2"] is not None and (c["clock"] < c["T"]) != (c["clock2"] < c["T"]):
                    res.count("judged_block_clock_in_macro_body_scope_clock_would_decide_otherwise")
                    if c["clock"] >= c["T"]:
                        res.count("judged_block_clock_in_macro_body_block_reached_scope_not")
                    else:
                        res.count("judged_block_clock_in_macro_body_scope_reached_block_not")
        if c["base"] in ("min", "h"):
            res.count("judged_base_min_or_h")
        if c["base"] in VOL_F:
            res.count("judged_volume")

    def _count_long(self, c, what, released=False):
        """Counters of the long-run stratum: decisions on time thresholds of at least 1000 s."""
        if c["base"] not in TIME_F or c["T"] < 1000:
            return
        res = self.res
        if what == "eval":
            res.count("long_evals_judged")
            if c["clock"] >= 1000:
                res.count("long_evals_judged_clock_ge_1000s")
            if c["clock"] >= 10000:
                res.count("long_evals_judged_clock_ge_10000s")
            if released:
                res.count("long_releases_judged")
            return
        res.count("long_starts_judged")
        res.count("long_starts_judged_" + c["kind"])
        res.count("long_starts_judged_base_" + c["base"])
        if c["T"].denominator != 1:
            res.count("long_starts_judged_fractional_seconds")
        if c["T"] >= 10000:
            res.count("long_starts_judged_ge_10000s")
        if c["clock"] - c["T"] < TENTH + Fraction(1, 1000):
            res.count("long_starts_within_one_tick_of_threshold")

    # ---- hooks
    def on_itick_begin(self, interp):
        self.itick += 1
        self.in_itick = True
        self.res.count("interp_ticks")
        self.evaluated: set[int] = set()
        self.due = {}

    def on_eval(self, interp, node, result):
        if node.threshold is None or node.forced or node.completed or node.started:
            return
        res = self.res
        nid = id(node)
        self.evaluated.add(nid)
        if nid in self.pending and self.pending[nid]["last_eval"] < self.itick:
            res.count("pending_reevaluations")
        c, why = self.context(interp, node)
        if c is None:
            res.count("evals_not_judged_" + why)
        elif c["kind"] == "either":
            self.judge_either(node, c, "eval", result)
        elif c["kind"] == "nested":
            if c["clock"] >= c["T"]:
                self.judged += 1
                res.count("evals_judged_late_bound_only_block_nested_in_the_lines_block_is_innermost")
                if result:
                    self.V(None, f"tick {self.rig.k}: line {node.id} ({node.threshold_part.strip()} {node.name}) is held back "
                                 f"although {c['tag']}={c['raw']!r} (block {c['block_tag']!r}, nested in the line's own, older "
                                 f"block) has reached the threshold {float(c['T'])} s (Base {c['base']})")
            else:
                res.count("evals_left_open_block_nested_in_the_lines_block_is_innermost")
        else:
            res.count("threshold_evals_judged")
            self.judged += 1
            self._count_ctx(c)
            self._count_long(c, "eval", released=not result)
            if c["clock"] == c["T"]:
                res.count("evals_clock_equals_threshold")
            expected = c["clock"] < c["T"]
            if bool(result) != expected:
                mech = self.stale_mech(c)
                if result:
                    self.V(mech, f"tick {self.rig.k}: line {node.id} ({node.threshold_part.strip()} {node.name}) is held back "
                                 f"although its clock has reached the threshold: {c['tag']}={c['raw']!r} >= {float(c['T'])} s/L "
                                 f"(Base {c['base']}, Block tag {c['block_tag']!r}, context {c['kind']})")
                else:
                    self.V(mech, f"tick {self.rig.k}: line {node.id} ({node.threshold_part.strip()} {node.name}) is released "
                                 f"although its clock has not reached the threshold: {c['tag']}={c['raw']!r} < {float(c['T'])} "
                                 f"s/L (Base {c['base']}, Block tag {c['block_tag']!r}, context {c['kind']})")
        if result:
            self.pending[nid] = {"node": node, "last_eval": self.itick}
        else:
            res.count("evals_released")
            self.pending.pop(nid, None)
            self.due[nid] = node

    def judge_either(self, node, c, what, result):
        """A line that is not nested in the active block but runs while it is active: 'inside a block' can be read
        lexically (Scope Time) or dynamically (Block Time). Judged is what both readings demand: no release/start while
        neither clock has reached T, no holding back once both have. Everything in between stays open (counted)."""
        res = self.res
        lo, hi = min(c["clock"], c["clock2"]), max(c["clock"], c["clock2"])
        T = c["T"]
        desc = (f"line {node.id} ({node.threshold_part.strip()} {node.name}), not nested in the active block "
                f"{c['block_tag']!r} ({c['via']['origin']}" + (", via macro call" if c["via"]["calls"] else "") + f"): "
                f"{c['tag']}={c['raw']!r}, {c['tag2']}={c['raw2']!r}, threshold {float(T)} s/L (Base {c['base']})")
        self.judged += 1
        if what == "start":
            res.count("starts_judged_under_both_readings_line_runs_beside_active_block")
            if hi < T:
                self.V(None, f"tick {self.rig.k}: started while neither candidate clock has reached the threshold: {desc}")
            return
        res.count("evals_judged_under_both_readings_line_runs_beside_active_block")
        if c["via"]["origin"] == "injected":
            res.count("evals_judged_under_both_readings_injected_line")
        if c["via"]["calls"]:
            res.count("evals_judged_under_both_readings_macro_body_line")
        if lo >= T:
            res.count("evals_both_readings_agree_reached")
            if result:
                self.V(None, f"tick {self.rig.k}: held back although both candidate clocks have reached the threshold: {desc}")
        elif hi < T:
            res.count("evals_both_readings_agree_not_reached")
            if not result:
                self.V(None, f"tick {self.rig.k}: released although neither candidate clock has reached the threshold: {desc}")
        else:
            res.count("evals_left_open_readings_disagree_line_runs_beside_active_block")

    def on_started(self, node):
        p = self.p
        res = self.res
        nid = id(node)
        self.due.pop(nid, None)
        self.pending.pop(nid, None)
        interp = self.rig.e.interpreter
        if node.threshold is not None and not node.forced and not isinstance(node, p.ProgramNode):
            c, why = self.context(interp, node)
            if c is None:
                res.count("starts_not_judged_" + why)
            elif c["kind"] == "either":
                self.judge_either(node, c, "start", None)
            elif c["kind"] == "nested":
                res.count("starts_left_open_block_nested_in_the_lines_block_is_innermost")
            else:
                res.count("threshold_starts_judged")
                self.judged += 1
                self._count_long(c, "start")
                if c["clock"] < c["T"]:
                    mech = self.stale_mech(c)
                    self.V(mech, f"tick {self.rig.k}: line {node.id} ({node.threshold_part.strip()} {node.name}) started while "
                                 f"{c['tag']}={c['raw']!r} < threshold {float(c['T'])} s/L (Base {c['base']}, Block tag "
                                 f"{c['block_tag']!r}, context {c['kind']})")
        # Wait successors
        for w in self.succ_of.pop(nid, []):
            if w.get("closed"):
                continue
            w["closed"] = True
            self.waits.pop(id(w["node"]), None)
            self.judge_wait(w, node)
        if isinstance(node, p.InterpreterCommandNode) and node.instruction_name == "Wait":
            self.open_wait(node)

    def open_wait(self, node):
        p = self.p
        m = re.match(r"^\s*([0-9]+(?:\.[0-9]+)?)\s*(s|min|h)\s*$", node.arguments or "")
        if not m or node.parent is None:
            self.res.count("wait_not_parsed")
            return
        d = Fraction(Decimal(m.group(1))) * TIME_F[m.group(2)]
        if not self.one_invocation(node):
            self.res.count("wait_not_judged_macro_body_with_several_calls_in_progress")
            return
        sibs = list(node.parent.children)
        i = sibs.index(node)
        succ = next((s for s in sibs[i + 1:] if not isinstance(s, p.WhitespaceNode)), None)
        if succ is None:
            self.res.count("wait_without_successor")
            return
        prev = self.waits.get(id(node))
        if prev is not None:
            # the Wait starts again (Alarm re-arm) before its successor ever started: the old record is not judged
            prev["closed"] = True
            self.res.count("wait_record_superseded")
        w = {"node": node, "succ": succ, "d": d, "k": self.rig.k, "itick": self.itick, "ph": self.pause_hold_ticks}
        self.waits[id(node)] = w
        self.succ_of.setdefault(id(succ), []).append(w)

    @staticmethod
    def wait_bound(d: Fraction) -> tuple[int, int]:
        q = d / TENTH
        bound = math.ceil(q) + 1
        slack = 1 if (q.denominator == 1 and q > 0) else 0
        return bound, slack

    def one_invocation(self, node) -> bool:
        """False for a macro body line while several calls of the macro are in progress: the invocations share the node
        state of the body, a Wait started by one of them and a successor started by another are not a pair."""
        p = self.p
        interp = self.rig.e.interpreter
        return all(len(self.live_calls(interp, a.macro_name)) <= 1 for a in node.parents if isinstance(a, p.MacroNode))

    def judge_wait(self, w, succ):
        res = self.res
        if not self.one_invocation(succ):
            res.count("wait_not_judged_macro_body_with_several_calls_in_progress")
            return
        dk = self.rig.k - w["k"]
        di = self.itick - w["itick"]
        d = w["d"]
        self.judged += 1
        res.count("wait_lower_judged")
        inside = self.pause_hold_ticks - w["ph"]
        if inside:
            res.count("wait_judged_with_pause_or_hold_inside")
        if dk * TENTH < d:
            self.V(None, f"instruction {succ.id} after `Wait: {w['node'].arguments}` ({w['node'].id}) started {dk} engine "
                         f"ticks = {float(dk * TENTH)} s after the Wait started (tick {w['k']}), i.e. before {float(d)} s elapsed")
        if succ.threshold is not None:
            res.count("wait_upper_not_judged_successor_has_threshold")
            return
        bound, slack = self.wait_bound(d)
        res.count("wait_upper_judged")
        if di > bound + slack:
            self.V(None, f"instruction {succ.id} after `Wait: {w['node'].arguments}` ({w['node'].id}) started {di} interpreter "
                         f"ticks after the Wait started (tick {w['k']}); bound ceil(d/0.1)+1 = {bound}"
                         + (" (+1 tolerated for the tie)" if slack else "") + f"; {inside} engine ticks began paused/holding")
        elif di > bound:
            res.count("wait_upper_tie_extra_tick_tolerated")
        elif di == bound:
            res.count("wait_upper_at_bound")

    def abandoned(self, interp, node, depth=0) -> str | None:
        p = self.p
        parents = node.parents
        root = parents[-1] if parents else node
        if root is not interp._program:
            if not (isinstance(root, p.InjectedNode) and any(it.node is root for it in interp.interrupts)):
                return "other_run"
        for a in parents:
            if isinstance(a, p.BlockNode) and a.block_ended:
                return "block_ended"
            if isinstance(a, p.NodeWithCondition) and not a.interrupt_registered:
                return "interrupt_unregistered"
            if isinstance(a, p.MacroNode) and depth < 8:
                # a macro body line lives as long as a call of the macro is in progress on a live handler
                if not self.live_calls(interp, a.macro_name, depth):
                    return "macro_call_dropped"
        return None

    def on_itick_end(self, interp):
        self.in_itick = False
        res = self.res
        if interp._last_error is not None or self.rig.errors:
            if not self.error:
                res.count("runs_with_method_error")
            self.error = True
            self.pending.clear()
            self.due.clear()
            self.waits.clear()
            self.succ_of.clear()
            return
        for nid, node in list(self.due.items()):
            if not node.started:
                self.V(None, f"tick {self.rig.k}: line {node.id} was released by the threshold check but did not start in "
                             f"that interpreter tick")
        self.due = {}
        for nid, rec in list(self.pending.items()):
            node = rec["node"]
            if node.started or node.completed:
                del self.pending[nid]
                continue
            if rec["last_eval"] == self.itick:
                continue
            why = self.abandoned(interp, node)
            if why is not None:
                res.count("pending_dropped_" + why)
                del self.pending[nid]
                continue
            del self.pending[nid]
            self.V(None, f"tick {self.rig.k}: pending line {node.id} ({node.threshold_part.strip()} {node.name}) was not "
                         f"re-evaluated in an interpreter tick although its scope is still live")

    def finish(self, interp):
        """Waits whose successor never started."""
        res = self.res
        if self.error:
            return
        for w in list(self.waits.values()):
            node, succ = w["node"], w["succ"]
            if self.abandoned(interp, node) is not None or succ.threshold is not None:
                res.count("open_wait_not_judged")
                continue
            bound, slack = self.wait_bound(w["d"])
            di = self.itick - w["itick"]
            if di > bound + slack and not succ.started and self.abandoned(interp, succ) is None:
                res.count("wait_upper_judged")
                self.V(None, f"successor {succ.id} of `Wait: {node.arguments}` ({node.id}, started tick {w['k']}) has not "
                             f"started after {di} interpreter ticks (bound {bound}+{slack})")
            else:
                res.count("open_wait_within_bound_at_end")


# ------------------------------------------------------------------------------------------------
class G3:
    """Method generator for C03: thresholds everywhere, Base changes, nested blocks, Watch/Alarm bodies, Waits."""
    THR = {"s": ("0", "0.2", "0.3", "0.5", "0.7", "1", "1.0", "1.2", "1.5", "2", "2.5", "0.05", "0.35"),
           "min": ("0", "0.005", "0.01", "0.02", "0.025", "0.03", "0.05"),
           "h": ("0", "0.0001", "0.00025", "0.0005", "0.0002"),
           "L": ("0", "0.1", "0.25", "0.5", "0.3", "1", "1.5"),
           "mL": ("0", "100", "250", "500", "50", "1000")}
    WAITS = ("0s", "0.05s", "0.1s", "0.2s", "0.25s", "0.3s", "0.5s", "0.75s", "1s", "1.5s", "2s", "3s", "0.35 s",
             "0.01min", "0.005 min", "0.02min", "1.25s")

    def __init__(self, rnd: random.Random, vol: bool, max_depth: int):
        self.r = rnd
        self.vol = vol
        self.max_depth = max_depth
        self.lines: list[str] = []
        self.n = 0
        self.base = "min"

    def lab(self):
        self.n += 1
        return f"m{self.n}"

    def emit(self, ind, s):
        self.lines.append(" " * ind + s)

    def thr(self):
        return self.r.choice(self.THR[self.base])

    def body(self, ind, depth, maxlen, interrupt, in_alarm=False):
        for _ in range(self.r.randint(1, maxlen)):
            self.stmt(ind, depth, interrupt, in_alarm)

    def stmt(self, ind, depth, interrupt, in_alarm=False):
        r = self.r
        ch = ["mark", "thr", "thr", "thr", "wait", "wait", "thrwait", "short", "base"]
        if depth < self.max_depth:
            ch += ["block", "block", "watch", "thrblock"]
            if not interrupt:
                ch += ["alarm"]
        if in_alarm:
            ch = [c for c in ch if c not in ("watch", "alarm", "block", "thrblock")]
        c = r.choice(ch)
        if c == "mark":
            self.emit(ind, f"Mark: {self.lab()}")
        elif c == "thr":
            self.emit(ind, f"{self.thr()} " + r.choice([f"Mark: {self.lab()}", f"Mark: {self.lab()}", "Short"]))
        elif c == "wait":
            self.emit(ind, f"Wait: {r.choice(self.WAITS)}")
            if r.random() < 0.7:
                self.emit(ind, f"Mark: {self.lab()}")
        elif c == "thrwait":
            self.emit(ind, f"{self.thr()} Wait: {r.choice(self.WAITS)}")
        elif c == "short":
            self.emit(ind, "Short")
        elif c == "base":
            if interrupt and r.random() < 0.7:
                self.emit(ind, f"Mark: {self.lab()}")
                return
            opts = ["s", "s", "s", "min", "min", "h"] + (["L", "L", "mL", "L"] if self.vol else [])
            self.base = r.choice(opts)
            self.emit(ind, f"Base: {self.base}")
        elif c in ("block", "thrblock"):
            pre = f"{self.thr()} " if c == "thrblock" else ""
            self.emit(ind, f"{pre}Block: b{self.lab()}")
            self.body(ind + 4, depth + 1, 4, interrupt)
            self.emit(ind + 4, r.choice(["End block", "End block", "End block", "End blocks"])
                      if r.random() < 0.8 else f"{self.thr()} End block")
        elif c == "watch":
            self.emit(ind, "Watch: " + r.choice(["Run Counter >= 0", "FT01 > 3 L/h", "FT01 > 3 L/h", "Block Time > 0.3 s"]))
            saved = self.base
            self.body(ind + 4, depth + 1, 3, True)
            self.base = saved
        elif c == "alarm":
            self.emit(ind, "Alarm: " + r.choice(["FT01 > 3 L/h", "FT01 > 5 L/h"]))
            saved = self.base
            self.body(ind + 4, depth + 1, 2, True, in_alarm=True)
            self.base = saved

    def program(self):
        r = self.r
        if r.random() < 0.8:
            self.base = r.choice(["s", "s", "s", "s", "min", "h"] + (["L", "mL"] if self.vol else []))
            self.emit(0, f"Base: {self.base}")
        self.body(0, 0, r.randint(3, 8), False)
        return "\n".join(self.lines) + "\n"


def gen_case(rnd: random.Random, max_depth: int, ticks: int):
    vol = rnd.random() < 0.2
    text = G3(rnd, vol, max_depth).program()
    # FT01 trajectory (Watch/Alarm conditions)
    kind = rnd.choice(["low", "high", "step", "step", "pulse"])
    at = rnd.randint(3, 40)
    w = rnd.randint(2, 12)
    ft = [{"low": 0.0, "high": 6.0, "step": 6.0 if i >= at else 0.0, "pulse": 6.0 if at <= i < at + w else 0.0}[kind]
          for i in range(ticks)]
    # totalizer: cumulative volume in L; piecewise constant flow per tick
    tot, v = [], Fraction(0)
    flow = Fraction(rnd.choice(["0.05", "0.1", "0.02", "0.25"]))
    for i in range(ticks):
        if rnd.random() < 0.05:
            flow = Fraction(rnd.choice(["0.05", "0.1", "0", "0.02", "0.25"]))
        v += flow
        tot.append(float(v))
    # user schedule: (tick after which the command is issued, command)
    sched = []
    kinds = []
    if rnd.random() < 0.55:
        t = rnd.randint(3, 25)
        for _ in range(rnd.randint(1, 3)):
            a = rnd.choice(["Pause", "Hold", "Hold", "PauseHold"])
            ln = rnd.randint(1, 14)
            if a == "Pause":
                sched += [[t, "Pause"], [t + ln, "Unpause"]]
            elif a == "Hold":
                sched += [[t, "Hold"], [t + ln, "Unhold"]]
            else:
                sched += [[t, "Pause"], [t + 1, "Hold"], [t + ln + 1, "Unpause"], [t + ln + 3, "Unhold"]]
            kinds.append(a)
            t += ln + rnd.randint(4, 20)
    if rnd.random() < 0.08:
        sched.append([rnd.randint(6, 45), "Restart"])
        kinds.append("Restart")
    elif rnd.random() < 0.04:
        t = rnd.randint(6, 45)
        sched += [[t, "Stop"], [t + 3, "Start"]]
        kinds.append("StopStart")
    sched.sort(key=lambda x: x[0])
    return {"text": text, "vol": vol, "ft": ft, "tot": tot, "sched": sched, "kinds": kinds, "ticks": ticks}


# ------------------------------------------------------------------------------------------------
# long-run stratum: thresholds of 1000 s and more (clock strings of five and more integer+fraction characters, float
# sums of ten thousand 0.1 s increments), same monitor, same oracle
def long_thr(rnd: random.Random, base: str, lo_s: int, hi_s: int) -> str:
    """Threshold text in `base` whose exact value lies in [lo_s, hi_s] seconds, on a grid finer than the tick (0.05 s,
    0.001 min = 0.06 s, 0.00001 h = 0.036 s): most values are neither whole seconds nor on the 0.1 s tick grid."""
    if base == "s":
        n = rnd.randint(lo_s * 20, hi_s * 20)
        txt = f"{n // 20}.{(n % 20) * 5:02d}"
    elif base == "min":
        n = rnd.randint(-(-lo_s * 1000 // 60), hi_s * 1000 // 60)
        txt = f"{n // 1000}.{n % 1000:03d}"
    else:
        n = rnd.randint(-(-lo_s * 100000 // 3600), hi_s * 100000 // 3600)
        txt = f"{n // 100000}.{n % 100000:05d}"
    if rnd.random() < 0.7:
        txt = txt.rstrip("0")
        txt = txt + "0" if txt.endswith(".") and rnd.random() < 0.5 else txt.rstrip(".")
    return txt


def gen_long_case(rnd: random.Random, base: str, place: str, very_long: bool):
    """One long threshold T1 in [1000 s, 1060 s] at root level or inside a block (Base s/min/h), followed by further
    thresholds that fall due a little later on the other clock (other Base units), optionally (thorough tier) a last
    threshold of 10 000 s and more; Pause/Hold windows anywhere in the run and around the instant T1 falls due."""
    r = rnd
    lines: list[str] = []
    n = [0]

    def lab():
        n[0] += 1
        return f"m{n[0]}"

    def short(b):
        return r.choice(G3.THR[b])

    if base != "min" or r.random() < 0.7:
        lines.append(f"Base: {base}")                      # Base min is the default
    for _ in range(r.randint(0, 2)):
        lines.append(r.choice([f"Mark: {lab()}", f"Wait: {r.choice(G3.WAITS)}", f"{short(base)} Mark: {lab()}", "Short"]))
    t1_lo = r.choice([1000, 1000, 1010, 1030])
    t1 = long_thr(r, base, t1_lo, t1_lo + 30)
    t1_s = Fraction(t1) * TIME_F[base]
    due = t1_s                                             # rough scope time at which the method is expected to be here
    if place == "root":
        lines.append(f"{t1} " + r.choice([f"Mark: {lab()}", f"Mark: {lab()}", "Short", f"Wait: {r.choice(G3.WAITS)}"]))
        if r.random() < 0.5:
            lines.append(f"Wait: {r.choice(G3.WAITS)}")
        b2 = r.choice(["s", "min", "h"])
        if b2 != base:
            lines.append(f"Base: {b2}")
        pre = f"{short(b2)} " if r.random() < 0.3 else ""
        lines.append(f"{pre}Block: b{lab()}")
        lines.append(f"    {short(b2)} Mark: {lab()}")
        lines.append("    " + r.choice(["End block", "End blocks"]))
    else:
        pre = f"{short(base)} " if r.random() < 0.3 else ""
        lines.append(f"{pre}Block: b{lab()}")
        if r.random() < 0.4:
            lines.append(f"    Mark: {lab()}")
        lines.append(f"    {t1} " + r.choice([f"Mark: {lab()}", f"Mark: {lab()}", "Short"]))
        b2 = base
        if r.random() < 0.6:
            b2 = r.choice(["s", "min", "h"])
            if b2 != base:
                lines.append(f"    Base: {b2}")
            lo = int(t1_s) + 1
            lines.append(f"    {long_thr(r, b2, lo, lo + 3)} Mark: {lab()}")
            due = lo + 3
        lines.append("    " + (r.choice(["End block", "End blocks"]) if r.random() < 0.8
                               else f"{long_thr(r, b2, int(due) + 1, int(due) + 2)} End block"))
        due += 3
    # back at root level: thresholds on the scope clock that fall due shortly after (or just before) this point
    for _ in range(r.randint(1, 2)):
        b3 = r.choice(["s", "min", "h"])
        if b3 != b2:
            lines.append(f"Base: {b3}")
            b2 = b3
        lo = int(due) + r.randint(0, 4)
        lines.append(f"{long_thr(r, b3, lo, lo + 3)} " + r.choice([f"Mark: {lab()}", "Short"]))
        due = lo + 3
    if very_long:
        b4 = r.choice(["s", "min", "h"])
        if b4 != b2:
            lines.append(f"Base: {b4}")
        t_lo = r.choice([10000, 10000, 10020])
        t4 = long_thr(r, b4, t_lo, t_lo + 20)
        if r.random() < 0.5:
            lines.append(f"{t4} Mark: {lab()}")
            due = Fraction(t4) * TIME_F[b4]
        else:
            lines.append(f"Block: b{lab()}")
            lines.append(f"    {t4} Mark: {lab()}")
            lines.append("    End block")
            due = due + Fraction(t4) * TIME_F[b4]
        lo = int(due) + 1
        lines.append(f"{long_thr(r, b4, lo, lo + 2)} Mark: {lab()}")
        due = lo + 2
    text = "\n".join(lines) + "\n"
    # user schedule: windows anywhere, and one or two close to the tick in which T1 falls due
    sched, kinds = [], []
    cross = int(t1_s * 10)
    spots = []
    if r.random() < 0.6:
        spots += [r.randint(5, cross - 200) for _ in range(r.randint(1, 2))]
    if r.random() < 0.6:
        spots += [cross + r.randint(-25, 12)]
    extra = 0
    for t in sorted(spots):
        t += extra
        a = r.choice(["Pause", "Hold", "Hold", "PauseHold"])
        ln = r.randint(1, 14)
        if a == "Pause":
            sched += [[t, "Pause"], [t + ln, "Unpause"]]
        elif a == "Hold":
            sched += [[t, "Hold"], [t + ln, "Unhold"]]
        else:
            sched += [[t, "Pause"], [t + 1, "Hold"], [t + ln + 1, "Unpause"], [t + ln + 3, "Unhold"]]
        kinds.append(a)
        extra += ln + 3
    sched.sort(key=lambda x: x[0])
    ticks = int(due * 10) + extra + 400
    return {"text": text, "vol": False, "ft": [0.0], "tot": [], "sched": sched, "kinds": kinds, "ticks": ticks,
            "long": [base, place, bool(very_long)]}


# ------------------------------------------------------------------------------------------------
# macro stratum: thresholded lines in macro bodies, called from block bodies, from Watch/Alarm bodies written inside the
# block (Scope Time restarts with the handler, Block Time has long passed T - or the other way round for a call early in
# the block), from root level, from handlers written outside the block that fire while it is active; a few injections
class GM:
    """Every macro is called from one thread of control only (the main path, or one Watch/Alarm line, or the injected
    code): concurrent invocations of one macro share the node state of its body, which is not what this check is about."""
    WAIT_IN_BLOCK = ("0.5s", "0.8s", "1s", "1.2s", "1.5s", "2s", "2.5s", "0.02min", "0.03 min")
    TAIL_WAIT = ("1.5s", "2s", "3s", "4s", "0.05min")
    THR_BIG = {"s": ("1.5", "2", "2.5", "3", "3.5", "1.25"), "min": ("0.03", "0.05", "0.04", "0.025"),
               "h": ("0.0005", "0.0008", "0.001", "0.00075")}
    MAX_MACROS = 6

    def __init__(self, rnd: random.Random):
        self.r = rnd
        self.lines: list[str] = []
        self.defs: list[list[str]] = []
        self.n = 0
        self.owners = 0
        self.base = "min"
        self.macros: list[dict] = []      # name, base its thresholds were written for, owner

    def lab(self):
        self.n += 1
        return f"m{self.n}"

    def emit(self, ind, s):
        self.lines.append(" " * ind + s)

    def thr(self, base=None):
        base = base or self.base
        pool = G3.THR[base] + (self.THR_BIG[base] if self.r.random() < 0.5 else ())
        return self.r.choice(pool)

    def thr_text(self, base=None):
        r = self.r
        return f"{self.thr(base)} " + r.choice([f"Mark: {self.lab()}", f"Mark: {self.lab()}", f"Mark: {self.lab()}",
                                                 "Short", f"Wait: {r.choice(G3.WAITS)}"])

    def thr_line(self, ind, base=None):
        self.emit(ind, self.thr_text(base))

    def set_base(self, ind, base):
        if base != self.base:
            self.base = base
            self.emit(ind, f"Base: {base}")

    def new_macro(self, owner, base, depth=0):
        r = self.r
        m = {"name": f"M{len(self.macros)}", "base": base, "owner": owner}
        self.macros.append(m)
        out = [f"Macro: {m['name']}"]
        for _ in range(r.randint(1, 3)):
            c = r.choice(["thr", "thr", "thr", "thr", "mark", "waitthr", "call"])
            if c == "mark":
                out.append(f"    Mark: {self.lab()}")
            elif c == "waitthr":
                out.append(f"    Wait: {r.choice(G3.WAITS)}")
                out.append("    " + self.thr_text(base))
            elif c == "call" and depth < 2 and len(self.macros) < self.MAX_MACROS:
                inner = self.new_macro(owner, base, depth + 1)
                out.append(f"    Call macro: {inner['name']}")
                if r.random() < 0.6:
                    out.append("    " + self.thr_text(base))
            else:
                out.append("    " + self.thr_text(base))
        self.defs.append(out)
        return m

    def call(self, ind, owner, thresholded=0.15):
        """`Call macro` of a macro of this thread of control, preceded by the Base line its thresholds were written for."""
        r = self.r
        mine = [m for m in self.macros if m["owner"] == owner]
        if len(self.macros) < self.MAX_MACROS and (not mine or r.random() < 0.35):
            m = self.new_macro(owner, self.base if r.random() < 0.75 else r.choice(["s", "min", "h"]))
        elif mine:
            m = r.choice(mine)
        else:
            self.thr_line(ind)
            return
        self.set_base(ind, m["base"])
        pre = f"{self.thr()} " if r.random() < thresholded else ""
        self.emit(ind, f"{pre}Call macro: {m['name']}")

    def handler_body(self, ind):
        """Body of a Watch/Alarm: mostly a macro call, sometimes thresholded lines of its own."""
        r = self.r
        self.owners += 1
        owner = self.owners
        saved = self.base
        for _ in range(r.randint(1, 2)):
            c = r.choice(["call", "call", "call", "thr", "waitcall"])
            if c == "call":
                self.call(ind, owner)
            elif c == "thr":
                self.thr_line(ind)
            else:
                self.emit(ind, f"Wait: {r.choice(('0.2s', '0.5s', '1s'))}")
                self.call(ind, owner)
        if self.base != saved and r.random() < 0.8:
            self.set_base(ind, saved)
        self.base = saved

    def watch(self, ind, in_block):
        r = self.r
        conds = ["FT01 > 3 L/h", "FT01 > 3 L/h", "Run Counter >= 0", f"Run Time > {r.choice(('1', '2', '3', '4', '1.5'))} s"]
        if in_block:
            conds += [f"Block Time > {r.choice(('0.5', '1', '1.5', '2', '3'))} s"] * 3
        self.emit(ind, "Watch: " + r.choice(conds))
        self.handler_body(ind + 4)

    def alarm(self, ind):
        self.emit(ind, "Alarm: " + self.r.choice(["FT01 > 3 L/h", "FT01 > 5 L/h"]))
        self.handler_body(ind + 4)

    def block(self, ind, depth):
        r = self.r
        pre = f"{self.thr()} " if r.random() < 0.15 else ""
        self.emit(ind, f"{pre}Block: b{self.lab()}")
        i2 = ind + 4
        if r.random() < 0.7:
            self.emit(i2, f"Wait: {r.choice(self.WAIT_IN_BLOCK)}")
        for _ in range(r.randint(1, 4)):
            ch = ["call", "call", "call", "watch", "watch", "watch", "alarm", "thr", "wait", "mark"]
            if depth == 0:
                ch += ["block"]
            c = r.choice(ch)
            if c == "call":
                self.call(i2, 0)
            elif c == "watch":
                self.watch(i2, True)
            elif c == "alarm":
                self.alarm(i2)
            elif c == "thr":
                self.thr_line(i2)
            elif c == "wait":
                self.emit(i2, f"Wait: {r.choice(self.WAIT_IN_BLOCK)}")
            elif c == "mark":
                self.emit(i2, f"Mark: {self.lab()}")
            else:
                self.block(i2, depth + 1)
        if r.random() < 0.8:
            self.emit(i2, f"Wait: {r.choice(self.TAIL_WAIT)}")       # keeps the block open while its handlers run
        self.emit(i2, r.choice(["End block", "End block", "End block", "End blocks"])
                  if r.random() < 0.85 else f"{self.thr()} End block")

    def program(self, with_injection):
        r = self.r
        head = []
        first = r.choice(["s", "s", "s", "min", "min", "h"])
        if first != "min" or r.random() < 0.7:
            head.append(f"Base: {first}")
        self.base = first
        for _ in range(r.randint(0, 2)):
            c = r.choice(["mark", "wait", "thr", "call"])
            if c == "mark":
                self.emit(0, f"Mark: {self.lab()}")
            elif c == "wait":
                self.emit(0, f"Wait: {r.choice(G3.WAITS)}")
            elif c == "thr":
                self.thr_line(0)
            else:
                self.call(0, 0)
        if r.random() < 0.4:
            if r.random() < 0.8:
                self.watch(0, False)         # written outside the block: fires beside it
            else:
                self.alarm(0)
        self.block(0, 0)
        for _ in range(r.randint(0, 2)):
            c = r.choice(["call", "call", "thr", "block"])
            if c == "call":
                self.call(0, 0)
            elif c == "thr":
                self.thr_line(0)
            else:
                self.block(0, 0)
        inject = None
        if with_injection:
            b = self.base
            k = r.choice(["thr", "call", "markthr"])
            if k == "call" and len(self.macros) < self.MAX_MACROS:
                inject = f"Call macro: {self.new_macro('injected', b)['name']}"
            elif k == "markthr":
                inject = f"Mark: j0\n{r.choice(G3.THR[b])} Mark: j1"
            else:
                inject = f"{r.choice(G3.THR[b])} Mark: j1"
        defs = [ln for d in self.defs for ln in d]
        return "\n".join(head + defs + self.lines) + "\n", inject


def gen_macro_case(rnd: random.Random, ticks: int):
    g = GM(rnd)
    text, code = g.program(rnd.random() < 0.15)
    base = gen_case(rnd, 0, ticks)                      # FT01 trajectory and Pause/Hold schedule as in the main stratum
    inject = [[rnd.randint(5, 60), code]] if code else []
    kinds = [k for k in base["kinds"] if k not in ("Restart", "StopStart")]
    sched = [e for e in base["sched"] if e[1] not in ("Restart", "Stop", "Start")]
    return {"text": text, "vol": False, "ft": base["ft"], "tot": [], "sched": sched, "kinds": kinds, "ticks": ticks,
            "inject": inject, "macro": True}


def check_case(case, res: Result):
    from opv.rigs import engine_rig as R
    install()
    rig = make_rig(case["text"], case["vol"])
    mon = Monitor(rig, res)
    MON[0] = mon
    ticks = case["ticks"]
    sched = {}
    for t, c in case["sched"]:
        sched.setdefault(t, []).append(c)
    last_sched = max(sched) if sched else 0
    rejected = 0
    try:
        rig.hw.inputs["FT01"] = case["ft"][0]
        if case["vol"]:
            rig.hw.inputs["Tot"] = 0.0
        rig.start()
        mon.after_engine_tick()
        last_ev = 0
        n_trace = len(R.TRACE)
        while rig.k < ticks:
            k = rig.k
            for c in sched.get(k, ()):
                if not rig.user(c):
                    rejected += 1
            for t, code in case.get("inject", ()):
                if t == k:
                    try:
                        rig.e.inject_code(code)
                        res.count("injections")
                    except Exception:
                        res.count("injections_refused")
            if rig.state in ("Paused", "Holding"):
                mon.pause_hold_ticks += 1
            rig.hw.inputs["FT01"] = case["ft"][min(k, len(case["ft"]) - 1)]     # the last scripted value persists
            if case["vol"]:
                rig.hw.inputs["Tot"] = case["tot"][min(k, len(case["tot"]) - 1)]
            rig.tick(catch=True)
            mon.after_engine_tick()
            if rig.tick_exc:
                res.count("engine_tick_raised")
                break
            if len(R.TRACE) != n_trace:
                n_trace = len(R.TRACE)
                last_ev = rig.k
            if rig.k > last_sched + 2 and rig.k - last_ev >= 45 and not mon.pending and not mon.waits:
                break
            if rig.errors:
                break
        try:
            mon.finish(rig.e.interpreter)
        except Exception:
            res.count("finish_skipped")
    finally:
        MON[0] = None
        rig.close()
    if case["kinds"] and any(k in ("Pause", "Hold", "PauseHold") for k in case["kinds"]):
        res.count("cases_with_pause_or_hold")
    if "Restart" in case["kinds"] or "StopStart" in case["kinds"]:
        res.count("cases_with_restart_or_stopstart")
    if case.get("macro"):
        res.count("macro_stratum_runs")
        if rig.errors or rig.tick_exc:
            res.count("macro_stratum_runs_ending_in_error")
    if case.get("long"):
        res.count("long_runs")
        res.count("long_run_engine_ticks", rig.k)
        if case["kinds"]:
            res.count("long_runs_with_pause_or_hold")
        if rig.errors or rig.tick_exc:
            res.count("long_runs_ending_in_error")
    if rig.errors:
        res.count("cases_ending_in_method_error")
    res.count("schedule_commands_rejected", rejected)
    res.case((shape_hash(case["text"]), tuple(case["kinds"])) if mon.judged else None,
             sample={"method": case["text"], "schedule": case["sched"], "ticks": rig.k, "judged": mon.judged})
    seen = set()
    for mech, msg in mon.viol:
        key = (mech, msg.split(":")[1][:40] if mech is None else "")
        if key in seen:
            continue
        seen.add(key)
        res.violation(mech, msg, case)


LONG_COMBOS = [(b, pl) for pl in ("root", "block") for b in ("s", "min", "h")]


def plan(tier, seed):
    n = 2000 if tier == "quick" else 40000
    shards = 16 if tier == "quick" else 48
    per = n // shards
    n_long = 2 if tier == "quick" else 3
    out = []
    for i in range(shards):
        # long-run stratum: a fixed handful of runs per shard, Base x place rotated so that every combination is run on
        # every seed; in the thorough tier the last long run of a shard also has a threshold of 10 000 s and more
        long = []
        for j in range(n_long):
            b, pl = LONG_COMBOS[(i * n_long + j + seed) % len(LONG_COMBOS)]
            long.append([b, pl, tier != "quick" and j == n_long - 1])
        out.append({"seed": seed * 1000003 + i, "n": per, "max_depth": 3 if tier == "quick" else 4,
                    "ticks": 150 if tier == "quick" else 220, "long": long,
                    "macro": [24 if tier == "quick" else 200, 160 if tier == "quick" else 220]})
    return out


def run_shard(spec):
    res = Result()
    rnd = random.Random(spec["seed"])
    for _ in range(spec["n"]):
        case = gen_case(rnd, spec.get("max_depth", 3), spec.get("ticks", 150))
        check_case(case, res)
    for j, (base, place, very_long) in enumerate(spec.get("long", ())):
        lrnd = random.Random(spec["seed"] * 7919 + 101 + j)       # own stream: the short-run workload is unchanged
        check_case(gen_long_case(lrnd, base, place, very_long), res)
    n_macro, macro_ticks = spec.get("macro", (0, 0))
    mrnd = random.Random(spec["seed"] * 104729 + 977)              # own stream as well
    for _ in range(n_macro):
        check_case(gen_macro_case(mrnd, macro_ticks), res)
    res.count("hook_hits_eval", HITS["eval"])
    res.count("hook_hits_started", HITS["started"])
    return res


def replay(case):
    res = Result()
    check_case(case, res)
    return res
