"""C33 - Push notifications reach exactly the entitled subscribers.

Specification function over a generated world vs. the calls received by a fake sender installed on a real
WebPushPublisher; preferences and subscriptions are real rows in a scratch SQLite file, written through the real
FromFrontend entry points, so the repository queries (JSON `contains`, `in_`) are exercised. See DESIGN.md C33."""
from __future__ import annotations

import random
from collections import Counter

from opv.core import Result

ID = "C33"
LEVEL = "exploration"
TECHNIQUE = ("runtime monitoring: specification function over the generated world compared with the multiset of "
             "subscriptions handed to a fake web-push sender")
RULE = ("seeded worlds: 1-4 users out of {'None' (the no-auth user id), u1, U1, u2, 'u 3'}; per user recorded roles "
        "subset of {A,B}, one of the 3 scopes, topics subset of the 9 topics, listed units subset of the 3 units (+ an "
        "unknown id), 0-3 subscriptions; a user may have subscriptions but no preference row (p=0.08); 3 units with "
        "required roles subset of {A,B}, contributors subset of users, a run in progress. In every world every "
        "topic is published for every unit (engine-originated topics through handle_WebPushNotificationMsg, "
        "NETWORK_ERRORS through FromEngine.publish_engine_disconnected_notification, NEW_CONTRIBUTOR through "
        "FromFrontend.publish_new_contributor_notification once per user as the subject). distinct = the world "
        "(users, prefs, subscriptions, unit roles, contributors); non-trivial = at least one publish whose expected "
        "recipient set is neither empty nor all subscriptions. Unit ids: 35 % of the worlds keep pc33_unit0..2; 45 % "
        "register three (computer name, uod name) pairs through the real register handler, so the id is what "
        "Aggregator.create_engine_id builds (quote(computer + '_' + uod)); 20 % register EngineData under a raw id. "
        "Names / raw ids are drawn as families over an alphabet with '_', '%', '[', '\"', '\\', ',', space, "
        "non-ASCII, '%25'-like pieces and the empty string: a base, extensions by a head and/or a tail (prefix / suffix "
        "/ infix relatives), case variants, one-character variants, LIKE-generalisations ('_' or '%' in place of part "
        "of a sibling), JSON-looking fragments 'A\", \"B' of two siblings. Listed units of a user: subset of the 3 "
        "units (+ an unknown id) + 0-3 decoy strings related to a unit id the same way (longer, shorter, other case, "
        "wildcards filled in, unquoted name, JSON fragment, '', ' ', '%', '_')")
ASSUMPTIONS = [
    "entitled(user, unit, topic) = topic in the user's recorded topics AND (unit has no required roles OR recorded "
    "roles intersect them) AND (scope 'access' OR (scope 'contributed' AND user among the unit's contributors) OR "
    "(scope 'specific' AND unit id among the listed units)); NEW_CONTRIBUTOR additionally excludes the subject",
    "over-delivery (a subscription outside the entitled set, or the same subscription twice) is the statement proper; "
    "under-delivery (an entitled subscription not notified) is asserted too ('reach exactly'), under its own key",
    "the anonymous user (preferences stored under user id 'None', contributions recorded as Contributor(id=None)) "
    "with scope 'contributed' is judged leniently: both 'is a contributor' and 'cannot be identified as one' are "
    "accepted (counted as anonymous_contributor_cells); NEW_CONTRIBUTOR about an anonymous contributor is only "
    "judged for over-delivery",
    "a user without a preference row has selected nothing",
    "WebPushPublisher.wp is a truthy stub and _post_webpush is replaced on the instance: encryption and HTTP are "
    "outside the property",
    "required roles / contributors / run data are set directly on the registered EngineData objects",
    "'unit id among the listed units' is exact string equality with an element of the posted list",
    "raw-id worlds register EngineData through FromEngine.register_engine_data under an id that is not url-quoted: "
    "the publisher's contract is over EngineData.engine_id whatever its alphabet",
    "the LIKE-pattern / substring / case classification of a publish only feeds counters (which class of world was "
    "reached), never the verdict",
]
REQUIRED = {"publishes": 20000, "sent_calls": 10000, "publishes_with_partial_recipient_set": 2000,
            "new_contributor_publishes_with_subject_subscribed": 300, "subscription_rows": 3000,
            # id-alphabet strata: a subscriber that would be notified but for the listed units (has the topic, the
            # roles, a subscription, scope 'specific', unit id not in the list) and whose list ...
            "publishes_unit_id_proper_substring_of_id_listed_by_nonentitled_subscriber": 250,
            "publishes_unit_id_proper_substring_of_listed_other_unit_id_of_nonentitled_subscriber": 90,
            "publishes_unit_id_matches_nonentitled_list_only_as_like_pattern": 150,
            "publishes_unit_id_equal_but_for_case_to_id_listed_by_nonentitled_subscriber": 50,
            "publishes_about_unit_with_percent_in_id": 8000, "publishes_about_unit_with_raw_id": 4000,
            "worlds_with_unit_id_substring_of_another_unit_id": 200}
EXHAUSTIVE_ALL = False

USER_POOL = ["None", "u1", "U1", "u2", "u 3"]
ROLES = ["A", "B"]


def plan(tier, seed):
    n = 2400 if tier == "quick" else 48000
    shards = 16 if tier == "quick" else 48
    return [{"seed": seed * 1000003 + i, "n": n // shards} for i in range(shards)]


def gen_world(rnd: random.Random):
    from openpectus.aggregator.models import NotificationScope, NotificationTopic
    topics = [t.value for t in NotificationTopic]
    scopes = [s.value for s in NotificationScope]
    users = rnd.sample(USER_POOL, rnd.randint(1, 4))
    if "None" not in users and rnd.random() < 0.3:
        users[0] = "None"
    w = {"users": [], "units": []}
    for u in users:
        k = rnd.choice([0, 1, 2, 3, 9, rnd.randint(0, 9)])
        w["users"].append({
            "id": u,
            "has_prefs": rnd.random() >= 0.08,
            "roles": [r for r in ROLES if rnd.random() < 0.5],
            "scope": rnd.choice(scopes),
            "topics": sorted(rnd.sample(topics, min(k, len(topics)))),
            "listed": [i for i in range(3) if rnd.random() < 0.45] + ([99] if rnd.random() < 0.2 else []),
            "nsubs": rnd.randint(0, 3),
        })
    for i in range(3):
        w["units"].append({"required": [r for r in ROLES if rnd.random() < 0.45],
                           "contributors": [u for u in users if rnd.random() < 0.4]})
    # ---- unit ids (drawn after everything else: the draws above stay what they were)
    mode = rnd.choices(["plain", "quoted", "raw"], [35, 45, 20])[0]
    if mode == "quoted":
        cs, us = _family(rnd, rnd.choice(["LAB-PC", "pc33", _token(rnd)])), _family(rnd, rnd.choice(["Purifier", _token(rnd)]))
        names: list = []
        for _ in range(60):
            c, u = rnd.choice(cs[:2] if rnd.random() < 0.6 else cs), rnd.choice(us)
            if all(c + "_" + u != a + "_" + b for a, b in names):
                names.append([c, u])
            if len(names) == 3:
                break
        while len(names) < 3:
            names.append([cs[0], f"{us[0]}#{len(names)}"])
        for unit, n in zip(w["units"], names):
            unit["reg"] = n
    elif mode == "raw":
        fam = _family(rnd, _token(rnd))
        if rnd.random() < 0.4 and len(fam) >= 2:
            a, b = rnd.sample(fam, 2)
            fam.insert(0, a + rnd.choice(['", "', '","', '\\", \\"', ", "]) + b)
        ids: list = []
        for x in fam:
            if x not in ids:
                ids.append(x)
        while len(ids) < 3:
            ids.append(f"{ids[0]}#{len(ids)}")
        first = ids[:1] + rnd.sample(ids[1:], 2)
        rnd.shuffle(first)
        for unit, x in zip(w["units"], first):
            unit["raw"] = x
    rough = [_rough_id(w, i) for i in range(3)]
    for u in w["users"]:
        u["listed_ids"] = [_decoy(rnd, rough) for _ in range(rnd.choice([0, 0, 1, 1, 2, 3]))]
    return w


PIECES = ["LAB-PC", "Purifier", "unit", "pc33", "A", "B", "a", "b", "x", "0", "2", "é", "ß", "柱", " ", "_", "%", "[", "]",
          '"', "\\", ",", ".", "-", "~", "'", "/", "%25", "%5F", "%2", "", "E1"]
TAILS = ["2", "0", "_2", " ", "%", "_", "x", "é", '"', "X", "-b", "%20", "]", ",", "\\", "1"]


def _token(rnd):
    return "".join(rnd.choice(PIECES) for _ in range(rnd.choice([1, 1, 2, 2, 3])))


def _relative(rnd, s):
    """a string related to `s`: longer (prefix / suffix / infix of it), shorter, other case, one character changed, or a
    LIKE-generalisation of it ('_' for one character, '%' for a slice)"""
    kind = rnd.choice(["tail", "tail", "head", "both", "case", "char", "like_", "like%", "shorter", "fill", "other"])
    i = rnd.randrange(len(s)) if s else 0
    if kind == "tail":
        return s + rnd.choice(TAILS)
    if kind == "head":
        return rnd.choice(TAILS) + s
    if kind == "both":
        return rnd.choice(TAILS) + s + rnd.choice(TAILS)
    if kind == "case":
        return rnd.choice([s.swapcase(), s.upper(), s.lower()])
    if kind == "char" and s:
        return s[:i] + rnd.choice("abX2 é_%") + s[i + 1:]
    if kind == "like_" and s:
        return s[:i] + "_" + s[i + 1:]
    if kind == "like%" and s:
        return s[:i] + "%" + s[rnd.randint(i, len(s)):]
    if kind == "shorter" and s:
        return rnd.choice([s[:-1], s[1:], s[:i]])
    if kind == "fill":
        return _fill(rnd, s)
    return _token(rnd)


def _fill(rnd, s):
    """a string that `s`, read as a LIKE pattern, matches: every '_' replaced by one character, every '%' by a few"""
    return "".join(rnd.choice("abX2_ é") if c == "_" else rnd.choice(["", "25", "zz", "%", "2"]) if c == "%" else c
                   for c in s)


def _family(rnd, base):
    fam = [base]
    for _ in range(rnd.choice([2, 3, 4])):
        x = _relative(rnd, rnd.choice(fam[:2]))
        if x not in fam:
            fam.append(x)
    return fam


def _rough_id(w, i):
    """what the unit's id will look like, only used to derive related decoy strings (the oracle uses the id the
    aggregator really assigned)"""
    from urllib.parse import quote
    unit = w["units"][i]
    if "raw" in unit:
        return unit["raw"]
    c, u = unit.get("reg", ["pc33", f"unit{i}"])
    return quote(c + "_" + u, "")


def _decoy(rnd, ids):
    from urllib.parse import unquote
    e = rnd.choice(ids)
    kind = rnd.choice(["rel", "rel", "rel", "fill", "fill", "case", "unquote", "frag", "tiny", "token"])
    if kind == "rel":
        return _relative(rnd, e)
    if kind == "fill":
        return _fill(rnd, e)
    if kind == "case":
        return rnd.choice([e.swapcase(), e.upper(), e.lower()])
    if kind == "unquote":
        return unquote(e)
    if kind == "frag":
        return e + rnd.choice(['", "', '","', ", "]) + rnd.choice(ids)
    if kind == "tiny":
        return rnd.choice(["", " ", "%", "_", "[]", '"', "\\", "__", "%%"])
    return _token(rnd)


class Env:
    def __init__(self):
        from opv.rigs.frontend_rig import FrontendRig
        self.rig = FrontendRig(real_webpush=True)
        self.eids: list[str] = []          # ids / EngineData of the three units of the current world
        self.eds: list = []
        self.known: dict = {}              # ("reg", computer, uod) | ("raw", id) -> engine id
        self.sub_seq = 0

    async def setup(self):
        await self.use_units([{}, {}, {}])
        await self.rig.drain_tasks()

    async def _unit(self, i, unit):
        """id of the unit, registering it on first use: through the real register handler (id built by
        Aggregator.create_engine_id) or, for a raw id, through FromEngine.register_engine_data"""
        from datetime import datetime, timezone
        import openpectus.aggregator.models as Mdl
        key = ("raw", unit["raw"]) if "raw" in unit else ("reg", *unit.get("reg", ["pc33", f"unit{i}"]))
        if key not in self.known:
            if key[0] == "raw":
                eid = key[1]
                if eid not in self.rig.agg._engine_data_map:
                    self.rig.agg.from_engine.register_engine_data(Mdl.EngineData(
                        engine_id=eid, computer_name="raw", uod_name="raw " + eid, uod_author_name="author",
                        uod_author_email="author@example.org", uod_filename="uod.py", location="lab",
                        engine_version="0"))
            else:
                eid = self.rig.agg.create_engine_id(self.rig.register_msg(key[1], key[2]))
                if eid not in self.rig.agg._engine_data_map:
                    r = await self.rig.register(key[1], key[2])
                    assert r.success and r.engine_id == eid, (r, eid)
                    await self.rig.connect(eid)
            ed = self.rig.agg._engine_data_map[eid]
            if not ed.has_run():
                ed.run_data = Mdl.RunData.empty(run_id=f"run-{len(self.known)}",
                                                run_started=datetime(2026, 1, 1, tzinfo=timezone.utc))
            self.known[key] = eid
        return self.known[key]

    async def use_units(self, units):
        self.eids = [await self._unit(i, unit) for i, unit in enumerate(units)]
        self.eds = [self.rig.agg._engine_data_map[e] for e in self.eids]

    def unit_id(self, i):
        return self.eids[i] if i < 3 else "no-such-unit"


def _like_regex(pattern: str):
    """SQL LIKE semantics of `pattern` inside a longer text ('%' any run, '_' any one character); counters only"""
    import re
    return re.compile("".join(".*" if c == "%" else "." if c == "_" else re.escape(c) for c in pattern), re.S)


async def check_world(env: Env, w, res: Result):
    import openpectus.aggregator.data.models as DMdl
    import openpectus.aggregator.models as Mdl
    import openpectus.protocol.engine_messages as EM
    from openpectus.aggregator.models import NotificationScope, NotificationTopic
    from sqlalchemy import delete, select
    from webpush.types import WebPushKeys, WebPushSubscription

    import json
    rig = env.rig
    db = rig.database
    # ---- build the world through the real entry points
    await env.use_units(w["units"])
    await rig.drain_tasks()
    if len(set(env.eids)) != 3:
        res.count("worlds_skipped_two_units_share_an_id")
        res.case(None)
        return
    if any(a != b and a in b for a in env.eids for b in env.eids):
        res.count("worlds_with_unit_id_substring_of_another_unit_id")
    listed_of = {u["id"]: {env.unit_id(i) for i in u["listed"]} | set(u.get("listed_ids", ())) for u in w["users"]}
    like_of = [_like_regex(e) for e in env.eids]
    with db.create_scope():
        s = db.scoped_session()
        s.execute(delete(DMdl.WebPushSubscription))
        s.execute(delete(DMdl.WebPushNotificationPreferences))
        s.commit()
    endpoints: dict[str, str] = {}          # endpoint -> user id
    for u in w["users"]:
        if u["has_prefs"]:
            rig.ff.webpush_notification_preferences_posted(Mdl.WebPushNotificationPreferences(
                user_id=u["id"], user_roles=set(u["roles"]), scope=NotificationScope(u["scope"]),
                topics={NotificationTopic(t) for t in u["topics"]},
                process_units=set(listed_of[u["id"]])))
        for _ in range(u["nsubs"]):
            env.sub_seq += 1
            ep = f"https://push.example.org/send/{env.sub_seq}"
            rig.ff.webpush_user_subscribed(
                WebPushSubscription(endpoint=ep, keys=WebPushKeys(auth=f"auth{env.sub_seq}", p256dh=f"key{env.sub_seq}")),
                None if u["id"] == "None" else u["id"])
            endpoints[ep] = u["id"]
    with db.create_scope():
        rows = db.scoped_session().scalars(select(DMdl.WebPushSubscription)).all()
        stored = {r.endpoint.rstrip("/"): r.user_id for r in rows}
    res.count("subscription_rows", len(stored))
    if {k.rstrip("/"): v for k, v in endpoints.items()} != stored:
        res.violation(None, f"stored subscriptions {stored} differ from the posted ones {endpoints}", w)
        res.case(None)
        return
    for i, unit in enumerate(w["units"]):
        env.eds[i].required_roles = set(unit["required"])
        env.eds[i].contributors = {Mdl.Contributor(id=None if u == "None" else u, name="name of " + u)
                                   for u in unit["contributors"]}
    users = {u["id"]: u for u in w["users"]}
    subs_of = {uid: sorted(ep.rstrip("/") for ep, x in endpoints.items() if x == uid) for uid in users}
    all_subs = sorted(ep for eps in subs_of.values() for ep in eps)

    def entitled(uid, ui, topic):
        """returns True / False / None (None = anonymous-contributor ambiguity)"""
        u = users[uid]
        if not u["has_prefs"] or topic not in u["topics"]:
            return False
        req = set(w["units"][ui]["required"])
        if req and not (req & set(u["roles"])):
            return False
        if u["scope"] == NotificationScope.PROCESS_UNITS_I_HAVE_ACCESS_TO.value:
            return True
        if u["scope"] == NotificationScope.SPECIFIC_PROCESS_UNITS.value:
            return env.eids[ui] in listed_of[uid]
        if uid in w["units"][ui]["contributors"]:
            return None if uid == "None" else True
        return False

    def why_not(uid, ui, topic, subject):
        u = users[uid]
        if not u["has_prefs"]:
            return "C33.sent_to_user_without_preferences"
        if subject is not None and subject == uid and topic == NotificationTopic.NEW_CONTRIBUTOR.value:
            return "C33.new_contributor_notified_about_self"
        if topic not in u["topics"]:
            return "C33.sent_for_unselected_topic"
        req = set(w["units"][ui]["required"])
        if req and not (req & set(u["roles"])):
            return "C33.sent_to_user_without_access"
        return "C33.sent_outside_selected_units"

    viol: dict = {}
    partial = False

    async def publish(ui, topic, subject):
        nonlocal partial
        rig.sent.clear()
        if topic == NotificationTopic.NEW_CONTRIBUTOR.value:
            rig.ff.publish_new_contributor_notification(
                env.eids[ui], Mdl.Contributor(id=None if subject == "None" else subject, name="name of " + str(subject)))
        elif topic == NotificationTopic.NETWORK_ERRORS.value:
            rig.agg.from_engine.publish_engine_disconnected_notification(env.eids[ui])
        else:
            reply = await rig.handlers.handle_WebPushNotificationMsg(EM.WebPushNotificationMsg(
                engine_id=env.eids[ui], topic=NotificationTopic(topic),
                notification=Mdl.WebPushNotification(title="t", body="opv " + topic)))
            if type(reply).__name__ != "SuccessMessage":
                viol.setdefault(None, f"handle_WebPushNotificationMsg answered {reply}")
        ok = await rig.drain_tasks()
        if not ok:
            viol.setdefault(None, "publish tasks did not finish")
        res.count("publishes")
        # ---- which id-alphabet classes this publish reaches (counters only)
        eid = env.eids[ui]
        if "%" in eid:
            res.count("publishes_about_unit_with_percent_in_id")
        if "raw" in w["units"][ui]:
            res.count("publishes_about_unit_with_raw_id")
        classes = set()
        for uid, u in users.items():
            if not (u["has_prefs"] and u["scope"] == NotificationScope.SPECIFIC_PROCESS_UNITS.value and subs_of[uid]
                    and topic in u["topics"] and eid not in listed_of[uid]) or (subject is not None and subject == uid):
                continue
            req = set(w["units"][ui]["required"])
            if req and not (req & set(u["roles"])):
                continue
            # this subscriber would be notified but for the listed units
            text = json.dumps(sorted(listed_of[uid]))
            if any(eid in x for x in listed_of[uid]):
                classes.add("publishes_unit_id_proper_substring_of_id_listed_by_nonentitled_subscriber")
                if any(eid in x for x in listed_of[uid] if x in env.eids):
                    classes.add("publishes_unit_id_proper_substring_of_listed_other_unit_id_of_nonentitled_subscriber")
            elif eid in text:
                classes.add("publishes_unit_id_substring_of_serialised_list_of_nonentitled_subscriber")
            elif eid.lower() in {x.lower() for x in listed_of[uid]}:
                classes.add("publishes_unit_id_equal_but_for_case_to_id_listed_by_nonentitled_subscriber")
            elif like_of[ui].search(text):
                classes.add("publishes_unit_id_matches_nonentitled_list_only_as_like_pattern")
        for c in classes:
            res.count(c)
        sent = Counter(x[1].rstrip("/") for x in rig.sent)
        res.count("sent_calls", sum(sent.values()))
        exp_min, exp_max = set(), set()
        anonymous_subject = topic == NotificationTopic.NEW_CONTRIBUTOR.value and subject == "None"
        for uid in users:
            e = entitled(uid, ui, topic)
            if topic == NotificationTopic.NEW_CONTRIBUTOR.value and subject == uid and not anonymous_subject:
                e = False
            if e is None:
                res.count("anonymous_contributor_cells")
                exp_max.update(subs_of[uid])
            elif e:
                exp_max.update(subs_of[uid])
                if not anonymous_subject:
                    exp_min.update(subs_of[uid])
        if topic == NotificationTopic.NEW_CONTRIBUTOR.value and subject is not None and subs_of.get(subject) \
                and not anonymous_subject:
            res.count("new_contributor_publishes_with_subject_subscribed")
        if exp_min and len(exp_min) < len(all_subs):
            partial = True
            res.count("publishes_with_partial_recipient_set")
        where = (f"unit {ui} id {env.eids[ui]!r} (required roles {w['units'][ui]['required']}, contributors {w['units'][ui]['contributors']}) "
                 f"topic {topic}" + (f" subject {subject!r}" if subject is not None else ""))
        for ep, n in sorted(sent.items()):
            uid = endpoints.get(ep) or endpoints.get(ep + "/")
            if uid is None:
                viol.setdefault(None, f"{where}: sender called for unknown endpoint {ep}")
                continue
            if ep not in exp_max:
                viol.setdefault(why_not(uid, ui, topic, subject),
                                f"{where}: subscription {ep} of user {uid!r} {users[uid]} was notified but is not entitled")
            elif n > 1:
                viol.setdefault("C33.subscription_notified_twice", f"{where}: subscription {ep} of {uid!r} notified {n} times")
        for ep in sorted(exp_min - set(sent)):
            uid = endpoints.get(ep) or endpoints.get(ep + "/")
            viol.setdefault("C33.entitled_subscription_not_notified",
                            f"{where}: subscription {ep} of user {uid!r} {users[uid]} is entitled but was not notified; "
                            f"sent to {sorted(sent)}")

    for ui in range(3):
        for topic in [t.value for t in NotificationTopic]:
            if topic == NotificationTopic.NEW_CONTRIBUTOR.value:
                for subject in users:
                    await publish(ui, topic, subject)
            else:
                await publish(ui, topic, None)
    res.count("worlds")
    res.case(w if partial else None, sample=w)
    for mech, msg in viol.items():
        res.violation(mech, msg[:1500], w)


def run_shard(spec):
    from opv.rigs.frontend_rig import run
    res = Result()
    env = Env()
    rnd = random.Random(spec["seed"])

    async def main():
        await env.setup()
        for _ in range(spec["n"]):
            await check_world(env, gen_world(rnd), res)
    try:
        run(main)
    finally:
        env.rig.close()
    return res


def replay(case):
    from opv.rigs.frontend_rig import run
    res = Result()
    env = Env()

    async def main():
        await env.setup()
        await check_world(env, case, res)
    try:
        run(main)
    finally:
        env.rig.close()
    return res
