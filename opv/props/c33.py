"""C33 - Push notifications reach exactly the entitled subscribers.

Specification function over a generated world vs. the calls received by a fake sender installed on a real
WebPushPublisher; preferences and subscriptions are real rows in a scratch SQLite file, written through the real
FromFrontend entry points, so the repository queries (JSON `contains`, `in_`) are exercised. See DESIGN.md C33."""
from __future__ import annotations

import random
from collections import Counter

from opv.core import Result

ID = "C33"
LEVEL = "exploration"
TECHNIQUE = ("runtime monitoring: specification function over the generated world compared with the multiset of "
             "subscriptions handed to a fake web-push sender")
RULE = ("seeded worlds: 1-4 users out of {'None' (the no-auth user id), u1, U1, u2, 'u 3'}; per user recorded roles "
        "subset of {A,B}, one of the 3 scopes, topics subset of the 9 topics, listed units subset of the 3 units (+ an "
        "unknown id), 0-3 subscriptions; a user may have subscriptions but no preference row (p=0.08); 3 units with "
        "required roles subset of {A,B}, contributors subset of users, a run in progress. In every world every "
        "topic is published for every unit (engine-originated topics through handle_WebPushNotificationMsg, "
        "NETWORK_ERRORS through FromEngine.publish_engine_disconnected_notification, NEW_CONTRIBUTOR through "
        "FromFrontend.publish_new_contributor_notification once per user as the subject). distinct = the world "
        "(users, prefs, subscriptions, unit roles, contributors); non-trivial = at least one publish whose expected "
        "recipient set is neither empty nor all subscriptions")
ASSUMPTIONS = [
    "entitled(user, unit, topic) = topic in the user's recorded topics AND (unit has no required roles OR recorded "
    "roles intersect them) AND (scope 'access' OR (scope 'contributed' AND user among the unit's contributors) OR "
    "(scope 'specific' AND unit id among the listed units)); NEW_CONTRIBUTOR additionally excludes the subject",
    "over-delivery (a subscription outside the entitled set, or the same subscription twice) is the statement proper; "
    "under-delivery (an entitled subscription not notified) is asserted too ('reach exactly'), under its own key",
    "the anonymous user (preferences stored under user id 'None', contributions recorded as Contributor(id=None)) "
    "with scope 'contributed' is judged leniently: both 'is a contributor' and 'cannot be identified as one' are "
    "accepted (counted as anonymous_contributor_cells); NEW_CONTRIBUTOR about an anonymous contributor is only "
    "judged for over-delivery",
    "a user without a preference row has selected nothing",
    "WebPushPublisher.wp is a truthy stub and _post_webpush is replaced on the instance: encryption and HTTP are "
    "outside the property",
    "required roles / contributors / run data are set directly on the registered EngineData objects",
]
REQUIRED = {"publishes": 20000, "sent_calls": 10000, "publishes_with_partial_recipient_set": 2000,
            "new_contributor_publishes_with_subject_subscribed": 300, "subscription_rows": 3000}
EXHAUSTIVE_ALL = False

USER_POOL = ["None", "u1", "U1", "u2", "u 3"]
ROLES = ["A", "B"]


def plan(tier, seed):
    n = 2400 if tier == "quick" else 48000
    shards = 16 if tier == "quick" else 48
    return [{"seed": seed * 1000003 + i, "n": n // shards} for i in range(shards)]


def gen_world(rnd: random.Random):
    from openpectus.aggregator.models import NotificationScope, NotificationTopic
    topics = [t.value for t in NotificationTopic]
    scopes = [s.value for s in NotificationScope]
    users = rnd.sample(USER_POOL, rnd.randint(1, 4))
    if "None" not in users and rnd.random() < 0.3:
        users[0] = "None"
    w = {"users": [], "units": []}
    for u in users:
        k = rnd.choice([0, 1, 2, 3, 9, rnd.randint(0, 9)])
        w["users"].append({
            "id": u,
            "has_prefs": rnd.random() >= 0.08,
            "roles": [r for r in ROLES if rnd.random() < 0.5],
            "scope": rnd.choice(scopes),
            "topics": sorted(rnd.sample(topics, min(k, len(topics)))),
            "listed": [i for i in range(3) if rnd.random() < 0.45] + ([99] if rnd.random() < 0.2 else []),
            "nsubs": rnd.randint(0, 3),
        })
    for i in range(3):
        w["units"].append({"required": [r for r in ROLES if rnd.random() < 0.45],
                           "contributors": [u for u in users if rnd.random() < 0.4]})
    return w


class Env:
    def __init__(self):
        from opv.rigs.frontend_rig import FrontendRig
        self.rig = FrontendRig(real_webpush=True)
        self.eids: list[str] = []
        self.eds: list = []
        self.sub_seq = 0

    async def setup(self):
        from datetime import datetime, timezone
        import openpectus.aggregator.models as Mdl
        for k in range(3):
            r = await self.rig.register("pc33", f"unit{k}")
            assert r.success
            await self.rig.connect(r.engine_id)
            ed = self.rig.agg._engine_data_map[r.engine_id]
            ed.run_data = Mdl.RunData.empty(run_id=f"run-{k}", run_started=datetime(2026, 1, 1, tzinfo=timezone.utc))
            self.eids.append(r.engine_id)
            self.eds.append(ed)
        await self.rig.drain_tasks()

    def unit_id(self, i):
        return self.eids[i] if i < 3 else "no-such-unit"


async def check_world(env: Env, w, res: Result):
    import openpectus.aggregator.data.models as DMdl
    import openpectus.aggregator.models as Mdl
    import openpectus.protocol.engine_messages as EM
    from openpectus.aggregator.models import NotificationScope, NotificationTopic
    from sqlalchemy import delete, select
    from webpush.types import WebPushKeys, WebPushSubscription

    rig = env.rig
    db = rig.database
    # ---- build the world through the real entry points
    with db.create_scope():
        s = db.scoped_session()
        s.execute(delete(DMdl.WebPushSubscription))
        s.execute(delete(DMdl.WebPushNotificationPreferences))
        s.commit()
    endpoints: dict[str, str] = {}          # endpoint -> user id
    for u in w["users"]:
        if u["has_prefs"]:
            rig.ff.webpush_notification_preferences_posted(Mdl.WebPushNotificationPreferences(
                user_id=u["id"], user_roles=set(u["roles"]), scope=NotificationScope(u["scope"]),
                topics={NotificationTopic(t) for t in u["topics"]},
                process_units={env.unit_id(i) for i in u["listed"]}))
        for _ in range(u["nsubs"]):
            env.sub_seq += 1
            ep = f"https://push.example.org/send/{env.sub_seq}"
            rig.ff.webpush_user_subscribed(
                WebPushSubscription(endpoint=ep, keys=WebPushKeys(auth=f"auth{env.sub_seq}", p256dh=f"key{env.sub_seq}")),
                None if u["id"] == "None" else u["id"])
            endpoints[ep] = u["id"]
    with db.create_scope():
        rows = db.scoped_session().scalars(select(DMdl.WebPushSubscription)).all()
        stored = {r.endpoint.rstrip("/"): r.user_id for r in rows}
    res.count("subscription_rows", len(stored))
    if {k.rstrip("/"): v for k, v in endpoints.items()} != stored:
        res.violation(None, f"stored subscriptions {stored} differ from the posted ones {endpoints}", w)
        res.case(None)
        return
    for i, unit in enumerate(w["units"]):
        env.eds[i].required_roles = set(unit["required"])
        env.eds[i].contributors = {Mdl.Contributor(id=None if u == "None" else u, name="name of " + u)
                                   for u in unit["contributors"]}
    users = {u["id"]: u for u in w["users"]}
    subs_of = {uid: sorted(ep.rstrip("/") for ep, x in endpoints.items() if x == uid) for uid in users}
    all_subs = sorted(ep for eps in subs_of.values() for ep in eps)

    def entitled(uid, ui, topic):
        """returns True / False / None (None = anonymous-contributor ambiguity)"""
        u = users[uid]
        if not u["has_prefs"] or topic not in u["topics"]:
            return False
        req = set(w["units"][ui]["required"])
        if req and not (req & set(u["roles"])):
            return False
        if u["scope"] == NotificationScope.PROCESS_UNITS_I_HAVE_ACCESS_TO.value:
            return True
        if u["scope"] == NotificationScope.SPECIFIC_PROCESS_UNITS.value:
            return ui in u["listed"]
        if uid in w["units"][ui]["contributors"]:
            return None if uid == "None" else True
        return False

    def why_not(uid, ui, topic, subject):
        u = users[uid]
        if not u["has_prefs"]:
            return "C33.sent_to_user_without_preferences"
        if subject is not None and subject == uid and topic == NotificationTopic.NEW_CONTRIBUTOR.value:
            return "C33.new_contributor_notified_about_self"
        if topic not in u["topics"]:
            return "C33.sent_for_unselected_topic"
        req = set(w["units"][ui]["required"])
        if req and not (req & set(u["roles"])):
            return "C33.sent_to_user_without_access"
        return "C33.sent_outside_selected_units"

    viol: dict = {}
    partial = False

    async def publish(ui, topic, subject):
        nonlocal partial
        rig.sent.clear()
        if topic == NotificationTopic.NEW_CONTRIBUTOR.value:
            rig.ff.publish_new_contributor_notification(
                env.eids[ui], Mdl.Contributor(id=None if subject == "None" else subject, name="name of " + str(subject)))
        elif topic == NotificationTopic.NETWORK_ERRORS.value:
            rig.agg.from_engine.publish_engine_disconnected_notification(env.eids[ui])
        else:
            reply = await rig.handlers.handle_WebPushNotificationMsg(EM.WebPushNotificationMsg(
                engine_id=env.eids[ui], topic=NotificationTopic(topic),
                notification=Mdl.WebPushNotification(title="t", body="opv " + topic)))
            if type(reply).__name__ != "SuccessMessage":
                viol.setdefault(None, f"handle_WebPushNotificationMsg answered {reply}")
        ok = await rig.drain_tasks()
        if not ok:
            viol.setdefault(None, "publish tasks did not finish")
        res.count("publishes")
        sent = Counter(x[1].rstrip("/") for x in rig.sent)
        res.count("sent_calls", sum(sent.values()))
        exp_min, exp_max = set(), set()
        anonymous_subject = topic == NotificationTopic.NEW_CONTRIBUTOR.value and subject == "None"
        for uid in users:
            e = entitled(uid, ui, topic)
            if topic == NotificationTopic.NEW_CONTRIBUTOR.value and subject == uid and not anonymous_subject:
                e = False
            if e is None:
                res.count("anonymous_contributor_cells")
                exp_max.update(subs_of[uid])
            elif e:
                exp_max.update(subs_of[uid])
                if not anonymous_subject:
                    exp_min.update(subs_of[uid])
        if topic == NotificationTopic.NEW_CONTRIBUTOR.value and subject is not None and subs_of.get(subject) \
                and not anonymous_subject:
            res.count("new_contributor_publishes_with_subject_subscribed")
        if exp_min and len(exp_min) < len(all_subs):
            partial = True
            res.count("publishes_with_partial_recipient_set")
        where = (f"unit {ui} (required roles {w['units'][ui]['required']}, contributors {w['units'][ui]['contributors']}) "
                 f"topic {topic}" + (f" subject {subject!r}" if subject is not None else ""))
        for ep, n in sorted(sent.items()):
            uid = endpoints.get(ep) or endpoints.get(ep + "/")
            if uid is None:
                viol.setdefault(None, f"{where}: sender called for unknown endpoint {ep}")
                continue
            if ep not in exp_max:
                viol.setdefault(why_not(uid, ui, topic, subject),
                                f"{where}: subscription {ep} of user {uid!r} {users[uid]} was notified but is not entitled")
            elif n > 1:
                viol.setdefault("C33.subscription_notified_twice", f"{where}: subscription {ep} of {uid!r} notified {n} times")
        for ep in sorted(exp_min - set(sent)):
            uid = endpoints.get(ep) or endpoints.get(ep + "/")
            viol.setdefault("C33.entitled_subscription_not_notified",
                            f"{where}: subscription {ep} of user {uid!r} {users[uid]} is entitled but was not notified; "
                            f"sent to {sorted(sent)}")

    for ui in range(3):
        for topic in [t.value for t in NotificationTopic]:
            if topic == NotificationTopic.NEW_CONTRIBUTOR.value:
                for subject in users:
                    await publish(ui, topic, subject)
            else:
                await publish(ui, topic, None)
    res.count("worlds")
    res.case(w if partial else None, sample=w)
    for mech, msg in viol.items():
        res.violation(mech, msg[:1500], w)


def run_shard(spec):
    from opv.rigs.frontend_rig import run
    res = Result()
    env = Env()
    rnd = random.Random(spec["seed"])

    async def main():
        await env.setup()
        for _ in range(spec["n"]):
            await check_world(env, gen_world(rnd), res)
    try:
        run(main)
    finally:
        env.rig.close()
    return res


def replay(case):
    from opv.rigs.frontend_rig import run
    res = Result()
    env = Env()

    async def main():
        await env.setup()
        await check_world(env, case, res)
    try:
        run(main)
    finally:
        env.rig.close()
    return res
