"""C36 - Every changed tag is reported with its latest value.

Same generated runs as C16 (opv/rigs/tagreport_rig.py). At every report the harness holds a shadow snapshot of the
reported value (Tag.as_readonly().value) of every engine tag; the report delivered by the real EngineMessageBuilder
is compared with the difference between this shadow and the shadow at the previous report. See DESIGN.md C36.

Second stratum (opv/rigs/tagreport_mt_rig.py): the same generated runs with the production thread layout - every tick on
an engine thread, the report builder on another - and a harness-controlled interleaving: at every position of the
builder's drain (before the first queue get, between two conversions, between a get and its conversion, after the
last entry) the schedule lets 0..n complete ticks run. Judged at quiescent points (check_run_mt)."""
from __future__ import annotations

import random
import shutil
import tempfile

from opv.core import Result
from opv.gen_pcode import shape_hash

ID = "C36"
LEVEL = "exploration"
TECHNIQUE = ("runtime monitoring: shadow snapshot of all tags at every report compared with the real tag-update "
             "messages (changed => present with latest value, no duplicates, snapshot = all tags)")
RULE = ("the C16 workload: seeded P-code generator (blocks, marks, Simulate/Simulate off, Watch, Alarm, Macro, Wait, "
        "thresholds, Base, run counter, Pause/Hold, UOD commands writing tags) x scripted FT01/totalizer trajectories x "
        "archiver on/off x optional user Pause/Hold/Stop/Start/Restart x report schedule (incremental or snapshot "
        "report after random 1-7 ticks, first report is the snapshot the runner sends on connect). distinct = shape "
        "hash of the method text + archiver flag; non-trivial = at least one incremental report with >= 2 changed "
        "tags was judged in that run. Two-thread stratum (a quarter as many additional runs, own generator stream): all "
        "ticks on an engine thread, reports built on the shard's thread; per report a seeded schedule (quiet | first | "
        "last | rand | every, budget 1-6 ticks) lets complete ticks run at the builder's yield points (queue get incl. "
        "the one that finds the queue empty, Tag.as_readonly); every non-quiet report is followed after 0-2 ticks by a "
        "quiet incremental report; non-trivial there = a tick re-queued an already converted tag with a new value")
ASSUMPTIONS = [
    "'value' of a tag = what a report would carry: Tag.as_readonly().value (simulated value while simulated)",
    "'changed between two reports' = the shadow value at this report differs (python !=) from the shadow value at "
    "the previous report; a tag that changed and changed back (A-B-A) between two reports is counted "
    "(aba_changes_not_judged) but not required to be reported",
    "first stratum: reports are taken between ticks; changes made after Engine.notify_tag_updates() of a tick do not "
    "occur in this workload",
    "two-thread stratum: thread switches are explored at the report builder's yield points only (queue get, "
    "Tag.as_readonly) and only complete ticks are interleaved there (no switch inside Engine.tick); 'between two "
    "reports' is judged only where it is unambiguous: after a report built while nothing else ran, the mirror of the "
    "report stream (last reported value per tag) must equal every tag's current value - a change made by a tick that "
    "completed during a report build may be carried by that report or by the next one; the hang guard (wall clock) "
    "only makes the shard INCONCLUSIVE",
    "observation through Tag.__setattr__ / Tag.notify_listeners replaced from the harness (classifier aid only; the "
    "verdict uses the shadow snapshots and the delivered message)",
]
REQUIRED = {"reports": 1500, "snapshot_reports": 300, "incremental_reports": 1000, "changed_tag_checks": 10000,
            "latest_value_checks": 20000, "duplicate_checks": 1500, "snapshot_completeness_checks": 300,
            "reports_with_2plus_changed": 800, "changed_tag_checks_tag:Block": 50, "changed_tag_checks_tag:Mark": 50,
            "changed_tag_checks_simulation": 20,
            # two-thread stratum (ticks complete on the engine thread while the report builder is mid-drain)
            "mt_reports_with_mid_ticks": 1000, "mt_quiescent_followups_judged": 1000, "mt_mirror_checks": 40000,
            "mt_tags_requeued_mid_drain_new_value": 3000, "mt_snapshot_reports_with_mid_ticks": 100,
            "mt_pos:before_first_get": 300, "mt_pos:between_conversions": 300, "mt_pos:after_last": 300,
            "mt_pos:get_to_conversion": 300}

TIME_TAG_CLASSES = ("BlockTimeTag", "ScopeTimeTag")


def plan(tier, seed):
    n = 2000 if tier == "quick" else 30000
    shards = 16 if tier == "quick" else 48
    per = n // shards
    return [{"seed": seed * 1000003 + i, "n": per, "n_mt": per // 4, "max_depth": 3 if tier == "quick" else 4,
             "max_ticks": 110 if tier == "quick" else 140} for i in range(shards)]


def _neq(a, b):
    try:
        return bool(a != b)
    except Exception:
        return True


def classify_missing(info):
    """A changed tag is absent from the report: why?"""
    if info["n_notified_since_report"] == 0:
        if info["cls"] in TIME_TAG_CLASSES and info["chg_site"] in ("on_tick", "on_start", "on_scope_start"):
            # value attribute assigned directly by the tag's own event handler, listeners never told
            return "C36.block_scope_time_assigned_without_notification"
        if info["chg_site"] == "stop_simulation" and info["chg_unmask"] and info["value"] is None:
            # Tag.stop_simulation compares the real value with the already cleared simulated value (None)
            return "C36.simulation_end_not_notified_when_real_value_is_none"
        return "C36.value_changed_without_notification"
    return "C36.notified_change_missing_from_report"


def check_run(run, res: Result, case):
    viol: dict[tuple, str] = {}
    prev = None
    nontrivial = False
    res.count("hook_miss", run.hook_miss)
    res.count("ticks", run.ticks)
    for rp in run.reports:
        res.count("reports")
        names = [e[0] for e in rp.entries]
        nameset = set(names)
        # ---- no tag twice
        res.count("duplicate_checks")
        if len(names) != len(nameset):
            dup = sorted({n for n in names if names.count(n) > 1})
            viol.setdefault(("C36.tag_twice_in_one_report", dup[0]),
                            f"report #{rp.index} ({rp.kind}) after tick {rp.after_tick} contains {dup} more than once")
        # ---- snapshot contains every tag
        if rp.kind == "snap":
            res.count("snapshot_reports")
            res.count("snapshot_completeness_checks")
            missing = sorted(set(rp.tags) - nameset)
            extra = sorted(nameset - set(rp.tags))
            if missing or extra:
                viol.setdefault(("C36.snapshot_incomplete", (missing or extra)[0]),
                                f"snapshot report #{rp.index} after tick {rp.after_tick}: missing {missing} unknown {extra}")
        else:
            res.count("incremental_reports")
        # ---- every reported value is the latest value
        for name, tt, v, sim in rp.entries:
            info = rp.tags.get(name)
            if info is None:
                continue
            res.count("latest_value_checks")
            if _neq(v, info["value"]):
                viol.setdefault(("C36.reported_value_not_latest", name),
                                f"report #{rp.index} after tick {rp.after_tick}: '{name}' reported as {v!r} but the tag "
                                f"holds {info['value']!r}")
        # ---- every tag changed since the previous report is present
        if prev is not None:
            changed = [n for n in rp.tags if n in prev.tags and _neq(rp.tags[n]["value"], prev.tags[n]["value"])]
            if len(changed) >= 2:
                res.count("reports_with_2plus_changed")
                if rp.kind == "inc":
                    nontrivial = True
            for n in changed:
                info = rp.tags[n]
                res.count("changed_tag_checks")
                res.count("changed_tag_checks_tag:" + n)
                if info["simulated"] or info["chg_unmask"]:
                    res.count("changed_tag_checks_simulation")
                if n not in nameset:
                    mech = classify_missing(info)
                    key = (mech, n)
                    if key not in viol:
                        viol[key] = (f"report #{rp.index} ({rp.kind}) after tick {rp.after_tick}: tag '{n}' changed from "
                                     f"{prev.tags[n]['value']!r} (report #{prev.index} after tick {prev.after_tick}) to "
                                     f"{info['value']!r} (last change in tick {info['chg_tick']} by {info['chg_site']}, "
                                     f"{info['n_notified_since_report']} notifications since the previous report) but is "
                                     f"not in the report {sorted(nameset)}")
                    else:
                        res.count("violation_repeats_in_run")
                else:
                    res.count("changed_tag_present")
            chg = set(changed)
            for n, info in rp.tags.items():
                if info["n_chg_since_report"] > 0 and n not in chg:
                    res.count("aba_changes_not_judged")
                    if n not in nameset:
                        res.count("aba_changes_not_reported")
        prev = rp
    if case.get("archiver"):
        res.count("runs_with_archiver")
    if case.get("user"):
        res.count("runs_with_user_commands")
    res.case((shape_hash(case["text"]) + ("A" if case.get("archiver") else "-")) if nontrivial else None,
             sample={"method": case["text"], "ticks": run.ticks, "reports": len(run.reports),
                     "archiver": bool(case.get("archiver")), "user": case.get("user")})
    for (mech, name), msg in viol.items():
        res.violation(mech, msg, case)


def classify_stale_mirror(info, lost_in_mid_tick):
    """At a quiescent point the report stream disagrees with a tag: why?"""
    if lost_in_mid_tick:
        # the tag's last change was made by a tick that completed while a report was being built and neither that
        # report nor the quiescent follow-up report carries the new value
        return "C36.change_during_report_build_not_reported_with_latest_value"
    return classify_missing(info)


def check_run_mt(run, res: Result, case):
    """Two-thread stratum (opv/rigs/tagreport_mt_rig.py): ticks complete on the engine thread while the report builder is
    mid-drain. Oracle = the property's, judged where 'between two reports' is unambiguous: after a report that was
    built while nothing else ran (quiescent), the mirror of the report stream equals every tag's current value; no
    report contains a tag twice; a snapshot report contains every tag."""
    viol: dict[tuple, str] = {}
    mirror: dict[str, object] = {}
    mirror_src: dict[str, int] = {}
    pending_mid: set[int] = set()       # ticks that completed during a report since the last quiescent point
    notified: dict[str, int] = {}       # notifications per tag since the last quiescent point
    nontrivial = False
    res.count("mt_runs")
    res.count("mt_ticks", run.ticks)
    for rp in run.reports:
        res.count("mt_reports")
        names = [e[0] for e in rp.entries]
        nameset = set(names)
        res.count("mt_duplicate_checks")
        if len(names) != len(nameset):
            dup = sorted({n for n in names if names.count(n) > 1})
            viol.setdefault(("C36.tag_twice_in_one_report", dup[0]),
                            f"[two threads] report #{rp.index} ({rp.kind}, {rp.mode}) after tick {rp.after_tick} contains "
                            f"{dup} more than once")
        if rp.kind == "snap":
            res.count("mt_snapshot_completeness_checks")
            if rp.mid_ticks:
                res.count("mt_snapshot_reports_with_mid_ticks")
            missing = sorted(set(run.all_names) - nameset)
            extra = sorted(nameset - set(run.all_names))
            if missing or extra:
                viol.setdefault(("C36.snapshot_incomplete", (missing or extra)[0]),
                                f"[two threads] snapshot report #{rp.index} ({rp.mode}, {rp.mid_ticks} ticks completed "
                                f"during the drain): missing {missing} unknown {extra}")
        for n, v in rp.entries:
            mirror[n] = v
            mirror_src[n] = rp.index
        for n, info in rp.tags.items():
            notified[n] = notified.get(n, 0) + info["n_notified_since_report"]
        res.count("mt_yield_points", rp.n_yields)
        if rp.mid_ticks:
            res.count("mt_reports_with_mid_ticks")
            res.count("mt_mid_ticks", rp.mid_ticks)
            res.count("mt_mode:" + rp.mode)
            pending_mid.update(rp.mid_tick_numbers)
            for pos, n in rp.fired:
                res.count("mt_pos:" + pos)
            if rp.requeued:
                res.count("mt_reports_with_requeued_tag")
            res.count("mt_tags_requeued_mid_drain", rp.requeued)
            res.count("mt_tags_requeued_mid_drain_new_value", rp.requeued_new_value)
            if rp.requeued_new_value:
                nontrivial = True
            continue
        # ---- quiescent point: nothing ran while this report was built
        res.count("mt_quiescent_reports")
        if pending_mid:
            res.count("mt_quiescent_followups_judged")
        for n, info in rp.tags.items():
            res.count("mt_mirror_checks")
            if n not in mirror:
                viol.setdefault(("C36.tag_never_reported", n),
                                f"[two threads] tag '{n}' was in no report up to report #{rp.index}")
                continue
            if _neq(mirror[n], info["value"]):
                lost = info["chg_tick"] in pending_mid
                full = dict(info, n_notified_since_report=notified.get(n, 0))
                key = (classify_stale_mirror(full, lost), n)
                if key not in viol:
                    viol[key] = (f"[two threads] after the quiescent report #{rp.index} ({rp.kind}, after tick "
                                 f"{rp.after_tick}) tag '{n}' holds {info['value']!r} but the report stream says "
                                 f"{mirror[n]!r} (last reported in #{mirror_src[n]}); last change in tick "
                                 f"{info['chg_tick']} by {info['chg_site']}; ticks completed during report builds since "
                                 f"the previous quiescent point: {sorted(pending_mid)}; {notified.get(n, 0)} "
                                 f"notifications since then; report #{rp.index} contains {sorted(nameset)}")
                else:
                    res.count("violation_repeats_in_run")
        pending_mid = set()
        notified = {}
    res.case((shape_hash(case["text"]) + ("M" if case.get("archiver") else "m")) if nontrivial else None,
             sample=None)
    for (mech, name), msg in viol.items():
        res.violation(mech, msg, case)


def run_shard(spec):
    from opv.rigs import tagreport_rig as TR
    from opv.rigs import tagreport_mt_rig as MT
    res = Result()
    rnd = random.Random(spec["seed"])
    scratch = tempfile.mkdtemp(prefix="opv-")
    try:
        for i in range(spec["n"]):
            case = TR.gen_case(rnd, spec.get("max_depth", 3), spec.get("max_ticks", 110))
            run = TR.run_case(case, scratch, i)
            check_run(run, res, case)
            if case.get("archiver"):
                shutil.rmtree(scratch + f"/arch{i}", ignore_errors=True)
        # two-thread stratum: own generator stream, so the runs above are the same as before it existed
        rnd_mt = random.Random(spec["seed"] * 7919 + 36)
        for i in range(spec.get("n_mt", 0)):
            case = MT.gen_case(rnd_mt, spec.get("max_depth", 3), spec.get("max_ticks", 110))
            run = MT.run_case(case, scratch, i)
            check_run_mt(run, res, case)
            if case.get("archiver"):
                shutil.rmtree(scratch + f"/arch{i}", ignore_errors=True)
    finally:
        shutil.rmtree(scratch, ignore_errors=True)
    return res


def replay(case):
    from opv.rigs import tagreport_rig as TR
    res = Result()
    scratch = tempfile.mkdtemp(prefix="opv-")
    try:
        if "mt_seed" in case:
            from opv.rigs import tagreport_mt_rig as MT
            check_run_mt(MT.run_case(case, scratch, 0), res, case)
        else:
            run = TR.run_case(case, scratch, 0)
            check_run(run, res, case)
    finally:
        shutil.rmtree(scratch, ignore_errors=True)
    return res
