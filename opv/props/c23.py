"""C23 - Hardware connection recovery follows the documented protocol.

The real ErrorRecoveryDecorator (openpectus/engine/hardware_recovery.py) wraps a scripted fake hardware;
`hardware_recovery.time` is bound to a virtual clock.  Every sequence over the event alphabet up to a bound is
executed against a fresh decorator.  After EVERY event the observed state is compared with the set of states the
reference model (written from docs/src/Error Recovery.rst) allows as successor of the previously observed state;
the Connection Status tag, raise/no-raise and the values of masked reads are checked as well.

Besides the single-register and the fixed-batch API variants there are mixed-access variants (three registers): single
reads and batch reads over different subsets / orders in one sequence, then failures and masked reads of registers whose
last successful read went through another call; the expected masked value is the last value the fake hardware returned
for that register, whichever call obtained it.
"""
from __future__ import annotations

import itertools

from opv.core import Result

ID = "C23"
LEVEL = "fault_enumeration"
TECHNIQUE = ("runtime monitoring: set-valued reference model of the documented five-state protocol stepped in "
             "lock-step with the real ErrorRecoveryDecorator over exhaustively enumerated fault sequences")
RULE = ("all sequences of exactly length L (every prefix is checked too, so this is 'length <= L') over the alphabet "
        "{read ok, read fail, write ok, write fail, tick+reconnect ok, tick+reconnect fail, advance 1 s, advance past "
        "reconnect_timeout, advance past error_timeout} (+ explicit connect ok/fail when starting Disconnected), "
        "single-register and batch API, starting connected / disconnected / after a real-driven prefix that ends in "
        "Issue, Reconnect or Error, default and small timeout configuration, every-tick and default reconnect back-off; "
        "mixed-access variants over three registers: read shapes {read A, read B, read C, batch [A,B,C], [C,B], [B], "
        "[A,C]} with a sticky hardware-health switch: all sequences of length 4 (thorough 5) over shapes + {fail, heal, "
        "tick, advance 1 s, advance past reconnect_timeout}, and all (3 (4) successful reads of any shape) x (script into "
        "Issue / into Reconnect / through Reconnect, recovery, further reads and a second outage) x (2 masked reads of any "
        "shape). "
        "evaluations = sequences; distinct non-trivial = distinct trajectories (state after each event + raise/mask "
        "observations) that leave OK at least once")
ASSUMPTIONS = [
    "trusted base: the scripted fake hardware, the virtual clock bound to hardware_recovery.time, the reference model",
    "the model is a successor relation on the *observed* state (the decorator state is observable), so ambiguity in "
    "the document is handled per step: timeout measured from the last successful hardware access or from entering "
    "the state, evaluated on the clock, on the next (failing) access or in tick(); exact equality with a timeout is "
    "allowed either way",
    "a timeout transition is *required* only once it is certainly expired under every reference point AND both a "
    "failing access and a tick have happened since (whichever evaluation point an implementation uses)",
    "raise in state Disconnected, tick() raising, the reconnect back-off schedule and explicit connect() calls "
    "outside Disconnected are not part of the statement: counted, not judged",
    "the first failing access in OK (the one that causes OK->Issue) must be masked as well",
    "an access during which the state becomes Error may raise or not (counted as ambiguous)",
    "the every-tick variants set the public attribute reconnect_backoff_ticks so that every tick is a back-off tick",
    "'the last value successfully read for that register' is per register and independent of the call that read it "
    "(read or read_batch, any register list): the fake records the last value it returned per register name",
]
REQUIRED = {"steps": 100000, "status_checks": 100000, "masked_read_checks": 5000, "no_raise_checks": 20000,
            "raise_in_error_checks": 500, "t_OK_Issue": 1000, "t_Issue_OK": 1000, "t_Issue_Reconnect": 500,
            "t_Reconnect_OK": 200, "t_Reconnect_Error": 100, "t_Error_OK": 50, "t_Disconnected_OK": 100,
            # mixed access patterns (single reads + batches over different register subsets in one sequence)
            "mixed_sequences": 50000, "mixed_masked_read_checks": 100000, "mixed_masked_read_checks_in_Issue": 30000,
            "mixed_masked_read_checks_in_Reconnect": 20000, "mixed_masked_read_after_single_and_batch_reads": 60000,
            "mixed_masked_reg_absent_from_latest_successful_read": 40000,
            "mixed_masked_single_read_of_reg_last_read_by_batch": 30000,
            "mixed_masked_batch_read_of_reg_last_read_by_single": 15000,
            "mixed_masked_batch_read_of_reg_last_read_by_other_batch": 20000}
EXHAUSTIVE_ALL = True

T0 = 1_700_000_000.0
BASE = ["r_ok", "r_fail", "w_ok", "w_fail", "t_ok", "t_fail", "adv1", "advR", "advE"]
REDUCED = ["r_ok", "r_fail", "w_fail", "t_ok", "advR", "advE"]
DISC = BASE + ["c_ok", "c_fail"]
PREFIXES = {
    "none": [],
    "issue": ["r_ok", "r_fail"],
    "reconnect": ["r_ok", "r_fail", "advR", "r_fail"],
    "error": ["r_ok", "r_fail", "advR", "r_fail", "advE", "r_fail"],
}
# mixed access patterns within one sequence (three registers): single reads `s<reg>` and batch reads `b<regs in call
# order>` over different subsets / orders; the hardware health is a sticky switch (`fail` / `heal`: every hardware call
# fails / succeeds from then on) so that any read shape occurs both as a successful and as a failing / masked access
MIXREAD = ["sA", "sB", "sC", "bABC", "bCB", "bB", "bAC"]
MIXED = MIXREAD + ["fail", "heal", "t", "adv1", "advR"]
ALPHABETS = {"base": BASE, "reduced": REDUCED, "disc": DISC, "mixread": MIXREAD, "mixed": MIXED}


# --------------------------------------------------------------------------------------------------------------
def _variants(tier):
    """(variant, L) list. variant keys: api, start, alpha, prefix, cfg, backoff"""
    q = tier == "quick"
    out = []
    for api in ("single", "batch"):
        out.append(({"api": api, "start": "conn", "alpha": "base", "prefix": "none", "cfg": "default",
                     "backoff": "every"}, 5 if q else 7))
        out.append(({"api": api, "start": "disc", "alpha": "disc", "prefix": "none", "cfg": "default",
                     "backoff": "every"}, 5 if q else 6))
        out.append(({"api": api, "start": "conn", "alpha": "reduced", "prefix": "none", "cfg": "default",
                     "backoff": "every"}, 6 if q else 7))
        for pf in ("issue", "reconnect", "error"):
            out.append(({"api": api, "start": "conn", "alpha": "base", "prefix": pf, "cfg": "default",
                         "backoff": "every"}, 5 if q else 6))
        out.append(({"api": api, "start": "conn", "alpha": "base", "prefix": "none", "cfg": "small",
                     "backoff": "every"}, 5 if q else 6))
        out.append(({"api": api, "start": "conn", "alpha": "base", "prefix": "reconnect", "cfg": "small",
                     "backoff": "every"}, 4 if q else 5))
    out.append(({"api": "single", "start": "conn", "alpha": "base", "prefix": "reconnect", "cfg": "default",
                 "backoff": "default"}, 4 if q else 5))
    out.append(({"api": "batch", "start": "conn", "alpha": "base", "prefix": "none", "cfg": "default",
                 "backoff": "default"}, 4 if q else 6))
    out += _mixed_variants(tier)
    return out


def _mixed_variants(tier):
    """Mixed access patterns: a sequence is the concatenation of segments, `enum` segments are enumerated completely
    over their alphabet, `fix` segments are fixed scripts that bring the decorator into Issue / Reconnect / through a
    reconnect. In the structured variants every read before `fail` is a successful read of some shape, every read after
    it is a masked (or failing-then-masked) read of some shape, so every pair (shape that last read the register, shape
    of the masked read) within the bound occurs."""
    q = tier == "quick"
    g = 3 if q else 4
    common = {"api": "mixed", "start": "conn", "backoff": "every"}
    segs = {
        "mixed:free": [["enum", "mixed", 4 if q else 5]],
        "mixed:issue": [["enum", "mixread", g], ["fix", ["fail"]], ["enum", "mixread", 2]],
        "mixed:reconnect": [["enum", "mixread", g], ["fix", ["fail", "sB", "advR", "sC"]], ["enum", "mixread", 2]],
        "mixed:second_outage": [["enum", "mixread", 2], ["fix", ["fail", "sA", "advR", "sA", "heal", "t"]],
                                ["enum", "mixread", 1 if q else 2], ["fix", ["fail"]], ["enum", "mixread", 2]],
    }
    out = []
    for name, sg in segs.items():
        for cfg in (("default",) if q else ("default", "small")):
            v = dict(common, alpha=sg[0][1], prefix=name, cfg=cfg, segs=sg)
            out.append((v, sum(x[2] for x in sg if x[0] == "enum")))
    return out


def _space(v, L):
    """Number of sequences of a variant and the size of the alphabet its first enumerated symbols come from."""
    if "segs" not in v:
        return len(ALPHABETS[v["alpha"]]) ** L, len(ALPHABETS[v["alpha"]])
    n = 1
    for sg in v["segs"]:
        if sg[0] == "enum":
            n *= len(ALPHABETS[sg[1]]) ** sg[2]
    return n, len(ALPHABETS[v["segs"][0][1]])


def _sequences(v, L, first):
    """All sequences of the variant whose first enumerated symbols are `first` (indices into the first alphabet)."""
    if "segs" not in v:
        alpha = ALPHABETS[v["alpha"]]
        head = PREFIXES[v["prefix"]] + [alpha[i] for i in first]
        for tail in itertools.product(alpha, repeat=L - len(first)):
            yield head + list(tail)
        return
    parts = []
    for n, sg in enumerate(v["segs"]):
        if sg[0] == "fix":
            parts.append([tuple(sg[1])])
        elif n == 0:
            a = ALPHABETS[sg[1]]
            h = tuple(a[i] for i in first)
            parts.append([h + t for t in itertools.product(a, repeat=sg[2] - len(first))])
        else:
            parts.append(list(itertools.product(ALPHABETS[sg[1]], repeat=sg[2])))
    for combo in itertools.product(*parts):
        yield [x for part in combo for x in part]


def plan(tier, seed):
    # the space is enumerated completely; the seed does not select anything (kept in the spec for the record)
    jobs = []   # (weight, variant, L, first symbols)
    for v, L in _variants(tier):
        total, na = _space(v, L)
        k = 1 if tier == "quick" else 2
        for first in itertools.product(range(na), repeat=k):
            jobs.append((total // na ** k, v, L, list(first)))
    nshards = 16 if tier == "quick" else 48
    jobs.sort(key=lambda j: -j[0])
    shards = [{"seed": seed, "tier": tier, "jobs": [], "w": 0} for _ in range(nshards)]
    for w, v, L, first in jobs:
        s = min(shards, key=lambda x: x["w"])
        s["jobs"].append({"v": v, "L": L, "first": first})
        s["w"] += w
    return [s for s in shards if s["jobs"]]


# --------------------------------------------------------------------------------------------------------------
class _VT:
    """stands in for the `time` module inside hardware_recovery"""
    t = T0

    @staticmethod
    def time():
        return _VT.t


_env = {}


def _setup():
    if _env:
        return _env
    import logging
    logging.disable(logging.CRITICAL)
    from openpectus.engine import hardware_recovery as HR
    from openpectus.engine.hardware import HardwareLayerBase, HardwareLayerException, Register, RegisterDirection
    from openpectus.lang.exec.tags import Tag, SystemTagName
    HR.time = _VT     # virtual clock: the decorator reads time via time.time()

    class FaultyHW(HardwareLayerBase):
        """Scripted fake. A failing call fails before it touches anything. Read values are unique (a counter)."""

        def __init__(self):
            super().__init__()
            self.rfail = self.wfail = self.cfail = False
            self.n = 0
            self.last: dict = {}        # register name -> last value successfully returned by the fake
            self.ev: list = []          # hardware-level events of the current harness event

        def read(self, r):
            if self.rfail:
                self.ev.append("r-")
                raise HardwareLayerException("scripted read failure")
            self.n += 1
            self.last[r.name] = self.n
            self.ev.append("r+")
            return self.n

        def read_batch(self, registers):
            if self.rfail:
                self.ev.append("r-")
                raise HardwareLayerException("scripted read failure")
            out = []
            for r in registers:
                self.n += 1
                self.last[r.name] = self.n
                out.append(self.n)
            self.ev.append("r+")
            return out

        def write(self, v, r):
            if self.wfail:
                self.ev.append("w-")
                raise HardwareLayerException("scripted write failure")
            self.ev.append("w+")

        def write_batch(self, values, registers):
            if self.wfail:
                self.ev.append("w-")
                raise HardwareLayerException("scripted write failure")
            self.ev.append("w+")

        def connect(self):
            if self.cfail:
                self.ev.append("c-")
                raise HardwareLayerException("scripted connect failure")
            super().connect()
            self.ev.append("c+")

    _env.update(HR=HR, HW=FaultyHW, HLE=HardwareLayerException, Register=Register, Dir=RegisterDirection, Tag=Tag,
                tagname=str(SystemTagName.CONNECTION_STATUS), S=HR.ErrorRecoveryState)
    return _env


# --------------------------------------------------------------------------------------------------------------
def allowed_next(prev, ev, hwev, now, m, RT, ET):
    """Successor relation of the documented protocol. prev: name of the state observed before the event;
    ev: harness event kind ('r','w','t','a','c'); hwev: hardware-level events the fake saw during the event;
    m: model bookkeeping (t_succ, t_issue, t_rec, t_rec_early, obligations). Returns (allowed set, ambiguous flag)."""
    hw_ok = "r+" in hwev or "w+" in hwev
    hw_fail = "r-" in hwev or "w-" in hwev
    conn_ok = "c+" in hwev
    access = ev in ("r", "w")
    if prev == "Disconnected":
        # "Once connected, state is OK"
        return ({"OK"} if conn_ok else {"Disconnected"}), False
    if prev == "OK":
        if access and hw_fail and hw_ok:
            return {"OK", "Issue"}, True
        if access and hw_fail:
            return {"Issue"}, False
        return {"OK"}, False
    if prev == "Issue":
        if access and hw_ok and not hw_fail:
            return {"OK"}, False
        el_max = now - m["t_succ"]          # measured from the last successful access (or construction)
        el_min = now - m["t_issue"]         # measured from entering Issue
        allowed = {"Issue"}
        amb = False
        if access and hw_ok:
            allowed.add("OK")
            amb = True
        if el_max >= RT:
            allowed.add("Reconnect")
            if conn_ok:
                allowed.add("OK")
            if el_max >= RT + ET:
                allowed.add("Error")
            amb = True
        if el_min > RT and m["ob_access"] and m["ob_tick"]:
            # certainly expired, and both evaluation points have been passed since: staying is no longer allowed
            allowed.discard("Issue")
            amb = False if allowed == {"Reconnect"} else amb
        return allowed, amb
    if prev in ("Reconnect", "Error") and ev == "c":
        # explicit connect() outside Disconnected is not described by the document
        return ({prev, "OK"} if conn_ok else {prev, "Error"} if prev == "Reconnect" and now - m["t_rec_early"] >= ET
                else {prev}), True
    if prev == "Reconnect":
        if conn_ok:
            # "If successful, state is set to OK"
            return {"OK"}, False
        el_max = now - m["t_rec_early"]
        el_min = now - m["t_rec"]
        allowed = {"Reconnect"}
        amb = False
        if el_max >= ET:
            allowed.add("Error")
            amb = True
        if el_min > ET and m["ob_access"] and m["ob_tick"]:
            allowed.discard("Reconnect")
            amb = False
        return allowed, amb
    if prev == "Error":
        return ({"OK"} if conn_ok else {"Error"}), False
    raise AssertionError(prev)


def _count_mixed_masked(cnt, a, path, prev, rr, last_before, last_shape, latest_read, shapes_ok):
    """Counters proving that the mixed-access workload classes were judged (one count per register of a masked read)."""
    def c(k, n=1):
        cnt[k] = cnt.get(k, 0) + n
    c("mixed_masked_read_checks")
    c("mixed_masked_read_checks_in_" + prev)
    if len({s[0] for s in shapes_ok}) == 2:
        c("mixed_masked_read_after_single_and_batch_reads")
    for r in rr:
        if r.name not in last_before:
            continue
        src = last_shape.get(r.name)
        if src is None:
            continue
        c("mixed_masked_register_values_judged")
        if src != a:
            c("mixed_masked_reg_last_read_by_other_call_shape")
        if r.name not in latest_read:
            # the cached value is older than the most recent successful read call, which did not include this register
            c("mixed_masked_reg_absent_from_latest_successful_read")
        sp = "single" if src[0] == "s" else "batch"
        if sp != path:
            c(f"mixed_masked_{path}_read_of_reg_last_read_by_{sp}")
        elif path == "batch" and src != a:
            c("mixed_masked_batch_read_of_reg_last_read_by_other_batch")
        elif path == "single":
            c("mixed_masked_single_read_of_reg_last_read_by_single")


def run_sequence(env, v, seq, cnt, traj_out):
    """Runs one sequence against a fresh decorator. Returns list of (mech, msg)."""
    HR, S = env["HR"], env["S"]
    HLE = env["HLE"]
    _VT.t = T0
    hw = env["HW"]()
    mixed = v["api"] == "mixed"
    R = {n: env["Register"](n, env["Dir"].Both) for n in ("ABC" if mixed else "AB")}
    hw.registers.update(R)
    regs = (R["A"], R["B"])             # the fixed pair of the single / batch variants
    last_shape: dict = {}               # mixed: register name -> read shape that last read it successfully
    latest_read: tuple = ()             # mixed: register names of the most recent successful read call
    shapes_ok: set = set()              # mixed: read shapes that reached the hardware successfully in this sequence
    if v["start"] == "conn":
        hw.connect()
        hw.ev.clear()
    tag = env["Tag"](env["tagname"], value="Disconnected")
    cfg = HR.ErrorRecoveryConfig()
    if v["cfg"] == "small":
        cfg.reconnect_timeout_seconds = 3
        cfg.error_timeout_seconds = 20
    RT, ET = cfg.reconnect_timeout_seconds, cfg.error_timeout_seconds
    advR, advE = RT + 1, ET + 1
    d = HR.ErrorRecoveryDecorator(hw, cfg, tag)
    every = v["backoff"] == "every"
    if every:
        d.reconnect_backoff_ticks = list(range(64))
    batch = v["api"] == "batch"
    viol = []
    prev = d.state.name
    exp0 = "OK" if v["start"] == "conn" else "Disconnected"
    if prev != exp0:
        viol.append(("C23.wrong_initial_state", f"initial state {prev}, expected {exp0}"))
    if (tag.get_value() == "Disconnected") != (prev in ("Disconnected", "Error")):
        viol.append(("C23.status_tag_disagrees_with_state", f"after construction: state {prev}, tag {tag.get_value()}"))
    m = {"t_succ": _VT.t, "t_issue": _VT.t, "t_rec": _VT.t, "t_rec_early": _VT.t, "ob_access": False, "ob_tick": False}
    wv = 0
    traj = [prev]
    left_ok = prev != "OK"
    for i, a in enumerate(seq):
        hw.ev.clear()
        raised = None
        val = None
        kind = a[0]
        reg_i = i & 1
        last_before = dict(hw.last)
        rr = path = None
        if mixed and kind in "sb":
            kind, path, rr = "r", ("single" if kind == "s" else "batch"), tuple(R[n] for n in a[1:])
        elif mixed and a in ("fail", "heal"):
            kind = "f"
        elif kind == "r":
            path, rr = ("batch", regs) if batch else ("single", (regs[reg_i],))
        try:
            if kind == "r":
                if not mixed:
                    hw.rfail = a == "r_fail"
                val = d.read_batch(list(rr)) if path == "batch" else [d.read(rr[0])]
            elif kind == "f":
                hw.rfail = hw.wfail = hw.cfail = a == "fail"      # sticky hardware health
            elif kind == "w":
                hw.wfail = a == "w_fail"
                wv += 2
                if batch:
                    d.write_batch([wv, wv + 1], list(regs))
                else:
                    d.write(wv, regs[reg_i])
            elif kind == "t":
                if not mixed:
                    hw.cfail = a == "t_fail"
                if every:
                    d.tick()
                else:
                    for _ in range(25):       # default back-off: tick until the next attempt reaches the hardware
                        d.tick()
                        if hw.ev:
                            break
            elif kind == "c":
                hw.cfail = a == "c_fail"
                d.connect()
            elif a == "adv1":
                _VT.t += 1
            elif a == "advR":
                _VT.t += advR
            else:
                _VT.t += advE
        except HLE as ex:
            raised = ex
        except Exception as ex:  # noqa
            raised = ex
            if kind in "rw":
                cnt["non_hle_exception_from_access"] = cnt.get("non_hle_exception_from_access", 0) + 1
        now = _VT.t
        cur = d.state.name
        hwev = hw.ev
        evk = "a" if kind in ("a", "f") else kind
        cnt["steps"] = cnt.get("steps", 0) + 1
        # ---- obligations for *required* timeout transitions
        if prev == "Issue" and now - m["t_issue"] > RT or prev == "Reconnect" and now - m["t_rec"] > ET:
            if kind in "rw" and (prev == "Reconnect" or ("r-" in hwev or "w-" in hwev)):
                m["ob_access"] = True
            if kind == "t":
                m["ob_tick"] = True
        allowed, amb = allowed_next(prev, evk, hwev, now, m, RT, ET)
        if amb:
            cnt["ambiguous_steps"] = cnt.get("ambiguous_steps", 0) + 1
        where = f"event #{i} {a} of {'/'.join(seq)} [{v['api']},{v['start']},{v['cfg']},{v['backoff']}]"
        if cur not in allowed:
            if prev == "Issue" and cur == "OK":
                mech = "C23.issue_left_for_ok_without_success"
            elif prev == "OK" and cur == "OK":
                mech = "C23.failure_in_ok_not_noticed"
            elif prev in ("Issue", "Reconnect") and cur in ("Reconnect", "Error"):
                mech = "C23.timeout_transition_too_early"
            elif prev in ("Issue", "Reconnect") and cur == prev:
                mech = "C23.timeout_transition_missing"
            elif prev in ("Reconnect", "Error") and cur == prev and "c+" in hwev:
                mech = "C23.successful_reconnect_ignored"
            else:
                mech = "C23.undocumented_transition"
            viol.append((mech, f"state {prev} -> {cur}, allowed {sorted(allowed)} (hardware saw {list(hwev)}, "
                               f"t={now - T0:g}s) at {where}"))
        if cur != prev:
            cnt["t_" + prev + "_" + cur] = cnt.get("t_" + prev + "_" + cur, 0) + 1
        # ---- Connection Status tag <=> state
        cnt["status_checks"] = cnt.get("status_checks", 0) + 1
        tv = str(tag.get_value())
        if (tv == "Disconnected") != (cur in ("Disconnected", "Error")):
            viol.append(("C23.status_tag_disagrees_with_state", f"state {cur} but Connection Status = {tv!r} after {where}"))
        # ---- raise / no raise, values
        if kind in "rw":
            hw_fail = "r-" in hwev or "w-" in hwev
            if prev in ("Issue", "Reconnect") or prev == "OK":
                if cur == "Error":
                    cnt["access_entering_error"] = cnt.get("access_entering_error", 0) + 1
                else:
                    cnt["no_raise_checks"] = cnt.get("no_raise_checks", 0) + 1
                    if raised is not None:
                        mech = ("C23.raise_while_masking" if prev != "OK" else
                                "C23.first_failure_not_masked" if hw_fail else "C23.raise_in_ok_without_failure")
                        viol.append((mech, f"{type(raised).__name__} raised in state {prev} at {where}"))
            elif prev == "Error":
                if cur == "Error":
                    cnt["raise_in_error_checks"] = cnt.get("raise_in_error_checks", 0) + 1
                    if raised is None:
                        viol.append(("C23.no_raise_in_error", f"access in state Error did not raise at {where}"))
            else:
                cnt["access_in_disconnected_raised" if raised is not None else "access_in_disconnected_silent"] = \
                    cnt.get("access_in_disconnected_raised" if raised is not None else "access_in_disconnected_silent", 0) + 1
            if kind == "r" and raised is None and prev != "Disconnected":
                if "r+" in hwev:
                    cnt["fresh_read_checks"] = cnt.get("fresh_read_checks", 0) + 1
                    exp = [hw.last.get(r.name) for r in rr]
                    if list(val) != exp:
                        viol.append(("C23.read_value_not_from_hardware", f"read returned {val}, hardware returned {exp} at {where}"))
                else:
                    # masked: the last value the hardware successfully returned for that register (None if none yet),
                    # whichever call (read / read_batch, whichever register list) obtained it
                    cnt["masked_read_checks"] = cnt.get("masked_read_checks", 0) + 1
                    exp = [last_before.get(r.name) for r in rr]
                    if None in exp:
                        cnt["masked_read_no_good_value_yet"] = cnt.get("masked_read_no_good_value_yet", 0) + 1
                    if mixed:
                        _count_mixed_masked(cnt, a, path, prev, rr, last_before, last_shape, latest_read, shapes_ok)
                    if list(val) != exp:
                        viol.append(("C23.masked_read_not_last_good_value",
                                     f"masked read in state {prev} returned {val}, last good values {exp} at {where}"))
            if mixed and kind == "r" and "r+" in hwev and "r-" not in hwev:
                # bookkeeping of the workload classes (not of the oracle: the expected values come from the fake)
                for r in rr:
                    last_shape[r.name] = a
                latest_read = tuple(r.name for r in rr)
                shapes_ok.add(a)
        elif kind == "t":
            if raised is not None:
                cnt["tick_raised"] = cnt.get("tick_raised", 0) + 1
            if prev in ("Reconnect", "Error"):
                k = "tick_with_reconnect_attempt" if ("c+" in hwev or "c-" in hwev) else "tick_without_reconnect_attempt"
                cnt[k] = cnt.get(k, 0) + 1
            elif "c+" in hwev or "c-" in hwev:
                cnt["reconnect_attempt_outside_reconnect_error"] = cnt.get("reconnect_attempt_outside_reconnect_error", 0) + 1
        elif kind == "c" and prev != "Disconnected":
            cnt["explicit_connect_outside_disconnected"] = cnt.get("explicit_connect_outside_disconnected", 0) + 1
        # ---- model bookkeeping (reference points are times of observed facts)
        if "r+" in hwev or "w+" in hwev:
            m["t_succ"] = now
        if cur != prev:
            m["ob_access"] = m["ob_tick"] = False
            if cur == "Issue":
                m["t_issue"] = now
            elif cur == "Reconnect":
                m["t_rec"] = now
                # earliest moment a clock-evaluating reading would have entered Reconnect
                m["t_rec_early"] = min(now, m["t_succ"] + RT)
        if cur != "OK":
            left_ok = True
        traj.append((cur, raised is not None))
        prev = cur
        if viol:
            break
    traj_out.append((tuple(traj), left_ok))
    return viol


def run_shard(spec):
    res = Result()
    env = _setup()
    cnt: dict = {}
    seen_traj: set = set()
    for job in spec["jobs"]:
        v, L, first = job["v"], job["L"], job["first"]
        n = 0
        vkey = (v["api"], v["start"], v["cfg"], v["backoff"], v["prefix"])
        for seq in _sequences(v, L, first):
            tr: list = []
            viol = run_sequence(env, v, seq, cnt, tr)
            n += 1
            traj, left_ok = tr[0]
            key = None
            if left_ok:
                k = (vkey, traj)
                if k not in seen_traj:
                    seen_traj.add(k)
                    key = k
                cnt["sequences_leaving_ok"] = cnt.get("sequences_leaving_ok", 0) + 1
            res.case(key, sample={"variant": v, "seq": seq, "trajectory": [str(x) for x in traj]} if key and len(res.samples) < 6 else None)
            for mech, msg in viol:
                res.violation(mech, msg, {"v": v, "seq": seq})
        if v["api"] == "mixed":
            cnt["mixed_sequences"] = cnt.get("mixed_sequences", 0) + n
        cnt["sequences"] = cnt.get("sequences", 0) + n
        if "segs" in v:
            shape = " + ".join(f"all {len(ALPHABETS[x[1]])}^{x[2]} over {x[1]}" if x[0] == "enum" else "/".join(x[1])
                               for x in v["segs"])
            part = (f"mixed single/batch reads of 3 registers, {v['prefix']}: {shape} (all prefixes checked), "
                    f"config={v['cfg']}, backoff={v['backoff']}")
        else:
            alpha = ALPHABETS[v["alpha"]]
            part = (f"all {len(alpha)}^{L} sequences of length {L} (all prefixes checked) over {v['alpha']} alphabet, api={v['api']}, "
                    f"start={v['start']}, prefix={v['prefix']}, config={v['cfg']}, backoff={v['backoff']}")
        if part not in res.exhaustive_parts:
            res.exhaustive_parts.append(part)
    for k, n in cnt.items():
        res.count(k, n)
    return res


def replay(case):
    res = Result()
    env = _setup()
    cnt: dict = {}
    tr: list = []
    for mech, msg in run_sequence(env, case["v"], case["seq"], cnt, tr):
        res.violation(mech, msg, case)
    res.case(None)
    return res
