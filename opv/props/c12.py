"""C12 - Cancel and Force requests take effect exactly as offered.

Requests go through the real boundary EngineMessageHandlers.handle_cancelMsg / handle_forceMsg ("rejected" =
ErrorMessage). Before/after snapshots of everything a client can observe decide the "rejected and change nothing"
clause; trace rules over node events / command callbacks decide the effect clauses. See DESIGN.md C12."""
from __future__ import annotations

import random

from opv.core import Result
from opv.gen_pcode import Gen, trajectory, shape_hash

ID = "C12"
LEVEL = "exploration"
TECHNIQUE = ("runtime monitoring: before/after observable-state snapshots around cancel/force requests sent through "
             "EngineMessageHandlers + trace rules on node events and UOD callbacks")
RULE = ("seeded P-code generator (Watch/Alarm/Block/Macro, Wait, thresholds, timed and untimed Pause/Hold, UOD commands "
        "of 1-6 ticks, Simulate) x scripted FT01 trajectory; a reference run lists the run-log items before every tick; "
        "every (tick, item index, cancel|force) is a candidate request, sampled with p=0.6 when the item offers that "
        "request and p=0.12 when it does not (thorough: 1.0 / 0.25); each sampled request is issued in its own fresh "
        "run. distinct = (method shape hash, tick, item index, kind); non-trivial = the request was judged by at least "
        "one rule (not-offered rule or an effect rule)")
ASSUMPTIONS = [
    "'offered' = the cancellable/forcible flag of the item in the run log obtained immediately before the request",
    "'change nothing' is judged on: all tag values, simulated tags, control state (started/paused/holding/stopping), "
    "method state line ids, live UOD instances, running engine commands, number of UOD callbacks, the run log items, "
    "error state",
    "offered => accepted is NOT asserted (stale Watch/Alarm registration items stay cancellable/forcible)",
    "a forced Watch counts only if its interrupt is registered at request time and is not aborted by the end of its "
    "enclosing Block; a forced Wait counts only if a live handler is executing it; Watch and Wait rules are asserted only "
    "outside Alarm/Macro bodies (re-invocation resets the node, stale handlers of the C02 findings walk the lines twice)",
    "threshold-waiting instructions are not rendered in the run log, so 'forced threshold' cannot be requested "
    "through a run-log item id and is not exercised",
]
REQUIRED = {"requests": 2000, "not_offered_requests": 800, "offered_accepted": 150, "rule_cancel_watch": 5,
            "rule_cancel_pause_hold": 5, "rule_cancel_uod": 20, "rule_force_watch": 5, "rule_force_wait": 10}


def plan(tier, seed):
    n = 128 if tier == "quick" else 2000
    shards = 16 if tier == "quick" else 50
    return [{"seed": seed * 1000003 + i, "n": max(1, n // shards), "max_depth": 3 if tier == "quick" else 4,
             "p_off": 0.6 if tier == "quick" else 1.0, "p_not": 0.12 if tier == "quick" else 0.25}
            for i in range(shards)]


def gen_method(rnd: random.Random, max_depth=3):
    g = Gen(rnd, allow=("mark", "uod", "wait", "block", "watch", "alarm", "macro", "thr", "blank", "sim", "pausehold",
                        "info"),
            max_depth=max_depth, thr_values=("0.2", "0.5", "1", "0", "0.3"),
            wait_values=("0.5", "0.8", "0.3", "1", "0.2"),
            uod_cmds=("Short", "Long", "Long2", "Other", "Set1: 3", "Drive1", "Long"),
            watch_conds=("FT01 > 5 L/h", "FT01 > 3 L/h", "X = 3", "FT01 > 1 L/h", "Run Counter >= 0",
                         "Block Time > 0.3 s"))
    text = g.program(rnd.randint(3, 9))
    # untimed Pause/Hold now and then (their completed items are the subject of the side-effect clause)
    if rnd.random() < 0.3:
        from opv.rigs.cmd_rig import insert_line
        t2 = insert_line(text, rnd.randint(1, 10), rnd.choice(["Pause", "Hold", "Pause: 0.6s", "Hold: 0.6s"]))
        text = t2 if t2 is not None else text
    return {"text": text, "traj": trajectory(rnd, 200), "long_n": rnd.choice([2, 3, 4, 6])}


def reference_items(m):
    """[(tick, [(cancellable, forcible)] of the run log before that tick)]"""
    from opv.rigs import engine_rig as R
    rig = R.EngineRig(m["text"], long_n=m["long_n"])
    out = []
    try:
        rig.start()
        last = 1
        while rig.k < 45:
            try:
                items = rig.e.tracking.get_runlog().items
            except Exception:
                break
            out.append((rig.k, [(bool(i.cancellable), bool(i.forcible)) for i in items]))
            rig.hw.inputs["FT01"] = m["traj"][rig.k]
            n0, c0 = len(R.TRACE), len(rig.cmdlog)
            rig.tick()
            if len(R.TRACE) != n0 or len(rig.cmdlog) != c0:
                last = rig.k
            if rig.k - last >= 6:
                break
    finally:
        rig.close()
    return out


def check_case(case, res: Result):
    from opv.rigs import engine_rig as R
    from opv.rigs import cmd_rig as CR
    import openpectus.lang.model.ast as p

    CR.install_schedule_hook()
    CR.REQS.clear()
    kind, at, idx = case["kind"], case["at"], case["idx"]
    rig = R.EngineRig(case["text"], long_n=case["long_n"])
    viol: list[tuple] = []
    judged = False

    def feed():
        rig.hw.inputs["FT01"] = case["traj"][min(rig.k, len(case["traj"]) - 1)]

    def interp_will_tick():
        e = rig.e
        return e._runstate_started and not e._runstate_paused and not e._runstate_holding and not e._runstate_stopping

    try:
        req = CR.Requests(rig)
        rig.start()
        while rig.k < at:
            feed()
            rig.tick()
        try:
            items = rig.e.tracking.get_runlog().items
        except Exception:
            res.count("runlog_unproducible_before_request")
            res.case(None)
            return
        if idx >= len(items):
            res.count("item_index_out_of_range")
            res.case(None)
            return
        it = items[idx]
        iid = it.id
        offered = bool(it.cancellable if kind == "cancel" else it.forcible)
        state0 = str(it.state)
        rec = rig.e.tracking.get_record_by_instance_id(iid)
        node = rig.e.tracking.get_known_node_by_id(rec.node_id) if rec is not None else None
        inst_states = [s.state_name.value for s in rec.states if s.instance_id == iid] if rec is not None else []
        newer_instance = rec is not None and rec.last_instance_id != iid
        node_reset = node is not None and state0 == "started" and not node.started
        live = _live(rig.cmdlog)
        s0 = CR.snapshot(rig)
        n_log0 = len(rig.cmdlog)
        n_tr0 = len(R.TRACE)
        ok = (req.cancel if kind == "cancel" else req.force)(iid)
        s1 = CR.snapshot(rig)
        diff = CR.snap_diff(s0, s1)
        res.count("requests")
        descr = f"{kind} of item #{idx} {it.name!r} (state {state0}, offered={offered}) before tick {at + 1}"

        if not offered:
            judged = True
            res.count("not_offered_requests")
            if ok:
                res.count("not_offered_accepted")
                fins = [e for e in rig.cmdlog[n_log0:] if e[1] == "fin" and e[3] != iid]
                if state0 in CR.CONCLUSIVE and fins and kind == "cancel":
                    mech = "C12.cancel_of_concluded_uod_item_cancels_running_namesake"
                elif state0 in CR.CONCLUSIVE:
                    mech = "C12.request_on_concluded_item_accepted"
                elif isinstance(node, p.NodeWithCondition) and (newer_instance or node_reset):
                    # the item describes an earlier invocation of a Watch/Alarm line that never concluded (a newer instance
                    # exists, or the node has been reset by the re-arm of its enclosing Alarm / a new macro call); the
                    # request is validated against (and acts on) the node's *current* invocation
                    mech = "C12.request_on_item_of_earlier_invocation_acts_on_current_one"
                else:
                    mech = None
                viol.append((mech, f"{descr} was answered with success although it was not offered; "
                             f"observable changes: {diff[:3] if diff else 'none'}"))
            elif diff:
                is_ph = isinstance(node, p.EngineCommandNode) and node.instruction_name in ("Pause", "Hold")
                ctrl = any(d.startswith("control") for d in diff)
                mech = "C12.rejected_cancel_of_finished_pause_hold_resumes_engine" \
                    if (kind == "cancel" and is_ph and state0 in CR.CONCLUSIVE and ctrl) else None
                viol.append((mech, f"{descr} was rejected but changed observable state: {diff[:4]}"))
        elif not ok:
            res.count("offered_rejected")
            if diff:
                res.count("unjudged_offered_rejected_but_changed")
        else:
            res.count("offered_accepted")
            in_rep = node is not None and any(isinstance(a, (p.AlarmNode, p.MacroNode)) for a in node.parents)
            not_started_yet = inst_states == ["created"]
            # ------------------------------------------------ effect rules
            if kind == "cancel" and isinstance(node, p.WatchNode):
                if in_rep:
                    res.count("unjudged_cancel_watch_in_repeatable_scope")
                else:
                    judged = True
                    res.count("rule_cancel_watch")
                    kids = {id(c) for c in node.get_child_nodes(recursive=True)}
                    for _ in range(40):
                        feed()
                        rig.tick()
                        if rig.errors:
                            break
                    started = [e for e in R.TRACE[n_tr0:] if e[1] == "started" and e[5] is True and e[6] in kids]
                    if started:
                        viol.append(("C12.cancelled_watch_body_started",
                                     f"{descr} accepted, but body line {started[0][2]} ({started[0][3]}) started at tick "
                                     f"{started[0][0]}"))
            elif kind == "cancel" and isinstance(node, p.EngineCommandNode) and node.instruction_name in ("Pause", "Hold") \
                    and node.has_argument:
                judged = True
                res.count("rule_cancel_pause_hold")
                nm = node.instruction_name
                flag = "_runstate_paused" if nm == "Pause" else "_runstate_holding"
                st_name = "Paused" if nm == "Pause" else "Holding"
                left_now = not getattr(rig.e, flag)
                oc = rig.e.registry.get_running_command(nm)
                other_cmd = oc is not None and oc.instance_id != iid
                in_effect = []
                for j in range(3):
                    feed()
                    rig.tick()
                    cmd = rig.e.registry.get_running_command(nm)
                    if cmd is not None and cmd.instance_id == iid:
                        in_effect.append(rig.k)
                    if j == 0:
                        left_next = rig.state != st_name
                was_running = "internalenginecommandset" in inst_states
                shared = sum(1 for q_ in CR.REQS if q_[2] == iid) >= 2
                if in_effect:
                    # shared: two interpreter paths (stale Watch/Alarm handler, C02 finding) requested the line under one
                    # instance id; the second request re-creates the command after the cancel
                    mech = "C12.two_requests_share_one_instance_id" if shared else \
                        "C12.cancel_before_command_start_does_not_prevent_it" if not_started_yet else \
                        "C12.cancelled_pause_hold_still_running"
                    viol.append((mech, f"{descr} accepted, but the {nm} command instance {iid[:8]} is running at tick(s) "
                                 f"{in_effect} (item states at request: {inst_states})"))
                elif not was_running or other_cmd:
                    # the state is (also) held by another Pause/Hold command instance, or this one had not begun
                    res.count("unjudged_pause_hold_state_held_by_other_command")
                elif not left_now and not left_next:
                    viol.append(("C12.cancelled_pause_hold_state_not_left",
                                 f"{descr} accepted, but the engine was still {st_name} right after the call and at the end "
                                 f"of the next tick"))
            elif kind == "cancel" and isinstance(node, p.UodCommandNode):
                judged = True
                res.count("rule_cancel_uod")
                was_live = iid in live
                if was_live:
                    res.count("rule_cancel_uod_live")
                    if not any(e[1] == "fin" and e[3] == iid for e in rig.cmdlog[n_log0:]):
                        viol.append(("C12.cancelled_uod_command_not_finalized_in_call",
                                     f"{descr} accepted, instance {iid[:8]} was executing, but finalize was not called during "
                                     f"the request"))
                n_log1 = len(rig.cmdlog)
                for _ in range(10):
                    feed()
                    rig.tick()
                later = [e for e in rig.cmdlog[n_log1:] if e[3] == iid and e[1] in ("init", "exec")]
                if later:
                    shared = sum(1 for q_ in CR.REQS if q_[2] == iid) >= 2
                    mech = "C12.two_requests_share_one_instance_id" if shared else \
                        "C12.cancel_before_command_start_does_not_prevent_it" if (not was_live and not_started_yet) \
                        else "C12.cancelled_uod_command_executes_afterwards"
                    viol.append((mech, f"{descr} accepted, but instance {iid[:8]} has {later[0][1]} at tick {later[0][0]} "
                                 f"after the cancel (item states at request: {inst_states})"))
            elif kind == "force" and isinstance(node, p.WatchNode):
                registered = bool(node.interrupt_registered) and node.id in rig.e.interpreter._interrupts_map
                if in_rep or not registered:
                    res.count("unjudged_force_watch_unregistered_or_repeatable")
                else:
                    running = 0
                    activated = False
                    for _ in range(12):
                        will = interp_will_tick()
                        feed()
                        rig.tick()
                        running += 1 if will else 0
                        if any(e[1] == "activated" and e[5] is True and e[6] == id(node) for e in R.TRACE[n_tr0:]):
                            activated = True
                            break
                        if running >= 2 or rig.errors:
                            break
                    aborted = any(e[1] == "interrupt_registered" and e[5] is False and e[6] == id(node)
                                  for e in R.TRACE[n_tr0:])
                    if aborted and not activated:
                        # the enclosing Block ended (its interrupts are aborted) before the forced Watch could run
                        res.count("unjudged_force_watch_aborted_by_block_end")
                    elif activated or running >= 2:
                        judged = True
                        res.count("rule_force_watch")
                        if not activated:
                            viol.append(("C12.forced_watch_not_started",
                                         f"{descr} accepted, but the Watch was not activated within 2 interpreter ticks"))
                    else:
                        res.count("unjudged_force_fewer_than_2_running_ticks")
            elif kind == "force" and isinstance(node, p.InterpreterCommandNode) and node.instruction_name == "Wait" \
                    and in_rep:
                # inside Alarm/Macro bodies a line can be walked by a stale second handler (C02 findings); not judged
                res.count("unjudged_force_wait_in_repeatable_scope")
            elif kind == "force" and isinstance(node, p.InterpreterCommandNode) and node.instruction_name == "Wait" \
                    and not _being_waited_on(rig, node, newer_instance):
                # stale item: the interrupt handler that was executing this Wait has been aborted (enclosing Block ended,
                # enclosing Watch/Alarm no longer registered) or the item belongs to an earlier invocation
                res.count("unjudged_force_wait_without_live_handler")
            elif kind == "force" and isinstance(node, p.InterpreterCommandNode) and node.instruction_name == "Wait":
                running = 0
                done = False
                for _ in range(12):
                    will = interp_will_tick()
                    feed()
                    rig.tick()
                    running += 1 if will else 0
                    if any(e[1] == "completed" and e[5] is True and e[6] == id(node) for e in R.TRACE[n_tr0:]):
                        done = True
                        break
                    if running >= 2 or rig.errors:
                        break
                anc = {id(a) for a in node.parents}
                aborted = any(e[6] in anc and ((e[1] == "block_ended" and e[5] is True) or
                                               (e[1] == "interrupt_registered" and e[5] is False))
                              for e in R.TRACE[n_tr0:])
                if aborted and not done:
                    # an enclosing Block ended / the enclosing interrupt was unregistered while the forced Wait was pending
                    res.count("unjudged_force_wait_aborted_by_scope_end")
                elif done or running >= 2:
                    judged = True
                    res.count("rule_force_wait")
                    if not done:
                        viol.append(("C12.forced_wait_not_completed",
                                     f"{descr} accepted, but the Wait did not complete within 2 interpreter ticks"))
                else:
                    res.count("unjudged_force_fewer_than_2_running_ticks")
            else:
                res.count("offered_accepted_no_effect_rule")
        res.case((shape_hash(case["text"]), at, idx, kind) if judged else None,
                 sample={"method": case["text"], "at": at, "idx": idx, "kind": kind, "item": it.name, "state": state0,
                         "offered": offered, "accepted": ok})
    finally:
        rig.close()
    for mech, msg in viol:
        res.violation(mech, msg, case)


def _being_waited_on(rig, node, newer_instance) -> bool:
    import openpectus.lang.model.ast as p
    if newer_instance or node.completed or not node.started:
        return False
    for a in node.parents:
        if isinstance(a, p.BlockNode) and a.block_ended:
            return False
        if isinstance(a, (p.NodeWithCondition, p.InjectedNode)):
            return a.id in rig.e.interpreter._interrupts_map     # nearest enclosing interrupt scope decides
    return True


def _live(cmdlog) -> list[str]:
    alive: list[str] = []
    for ev in cmdlog:
        if ev[1] == "init" and ev[3] not in alive:
            alive.append(ev[3])
        elif ev[1] == "fin" and ev[3] in alive:
            alive.remove(ev[3])
    return alive


def run_shard(spec):
    res = Result()
    rnd = random.Random(spec["seed"])
    for _ in range(spec["n"]):
        m = gen_method(rnd, spec.get("max_depth", 3))
        for (t, flags) in reference_items(m):
            for idx, (c, f) in enumerate(flags):
                for kind, off in (("cancel", c), ("force", f)):
                    if rnd.random() < (spec["p_off"] if off else spec["p_not"]):
                        check_case({**m, "kind": kind, "at": t, "idx": idx}, res)
    return res


def replay(case):
    res = Result()
    check_case(case, res)
    return res
