"""C12 - Cancel and Force requests take effect exactly as offered.

Requests go through the real boundary EngineMessageHandlers.handle_cancelMsg / handle_forceMsg ("rejected" =
ErrorMessage). Before/after snapshots of everything a client can observe decide the "rejected and change nothing"
clause; trace rules over node events / command callbacks decide the effect clauses. See DESIGN.md C12."""
from __future__ import annotations

import random

from opv.core import Result
from opv.gen_pcode import Gen, trajectory, shape_hash

ID = "C12"
LEVEL = "exploration"
TECHNIQUE = ("runtime monitoring: before/after observable-state snapshots around cancel/force requests sent through "
             "EngineMessageHandlers + trace rules on node events and UOD callbacks")
RULE = ("seeded P-code generator (Watch/Alarm/Block/Macro, Wait, thresholds, timed and untimed Pause/Hold, UOD commands "
        "of 1-6 ticks, Simulate) x scripted FT01 trajectory; a reference run lists the run-log items before every tick; "
        "every (tick, item index, cancel|force) is a candidate request, sampled with p=0.6 when the item offers that "
        "request and p=0.12 when it does not (thorough: 1.0 / 0.25); each sampled request is issued in its own fresh "
        "run. Directed stratum (requests WAITING in the command manager): 2-3 commands - timed/un-timed Pause/Hold of one "
        "kind, mixed kinds, or a command that raises (invalid Pause/Hold argument, failing UOD exec) plus UOD commands / "
        "timed Pause/Hold - requested in ONE tick from 2-3 interpreter paths (Watch/Alarm handlers firing together, Watch "
        "body calling a macro, main path, injected code; main path / injection aligned by trying offsets against the real "
        "engine until a reference run shows a request that sits in the command manager without having started), or (family "
        "'resumed') a timed Pause/Hold resumed by an operator Unpause/Unhold 1-4 ticks after its start, whose command object "
        "keeps running so that the next Pause/Hold line of the method waits behind it in a LATER tick; cancel at "
        "EVERY tick of the waiting window on each waiting item, force on them with p=0.5 (thorough 1.0), cancel/force on the "
        "other command items of the window with p=0.5/0.15 (thorough 1.0/0.3), on all other items sparsely. "
        "distinct = (method shape hash, tick, item index, kind); non-trivial = the request was judged by at least "
        "one rule (not-offered rule or an effect rule)")
ASSUMPTIONS = [
    "'offered' = the cancellable/forcible flag of the item in the run log obtained immediately before the request",
    "'change nothing' is judged on: all tag values, simulated tags, control state (started/paused/holding/stopping), "
    "method state line ids, live UOD instances, running engine commands, number of UOD callbacks, the run log items, "
    "error state",
    "offered => accepted is NOT asserted (stale Watch/Alarm registration items stay cancellable/forcible)",
    "a forced Watch counts only if its interrupt is registered at request time and is not aborted by the end of its "
    "enclosing Block; a forced Wait counts only if a live handler is executing it; Watch and Wait rules are asserted only "
    "outside Alarm/Macro bodies (re-invocation resets the node, stale handlers of the C02 findings walk the lines twice)",
    "threshold-waiting instructions are not rendered in the run log, so 'forced threshold' cannot be requested "
    "through a run-log item id and is not exercised",
    "after an accepted cancel of a Pause/Hold item the run is followed until no command and no request of that kind is "
    "left (at most 90 ticks): the cancelled instance must never be the running command and its record must not get a "
    "started state after the cancelled one ('never performs its effect afterwards')",
    "'ends at once' for a cancelled Pause/Hold that shares the state with other commands of its kind: the engine must "
    "have left Paused/Holding (engine run-state flag) by the end of the tick that the un-cancelled timed commands known "
    "to the command manager right after the cancel justify - the running one from its observed start, the waiting ones "
    "one after the other, ceil(duration / tick interval) + 1 ticks each - plus 2 ticks of slack. Not judged when an "
    "un-timed Pause/Hold of that kind has started or waits (it holds until the operator resumes), nor for Paused after a "
    "method error (the error pause is not a Pause command)",
    "'waiting' (request listed by CommandManager.cmd_executing / cmd_queue whose instance has no started state) is read "
    "from the command manager by the harness for request selection, counters and the mechanism classifier only; no "
    "oracle depends on it. Force on a waiting Pause/Hold item is a not-offered request (Pause/Hold are never forcible)",
]
REQUIRED = {"requests": 2000, "not_offered_requests": 800, "offered_accepted": 150, "rule_cancel_watch": 5,
            "rule_cancel_pause_hold": 5, "rule_cancel_uod": 20, "rule_force_watch": 5, "rule_force_wait": 10,
            # directed stratum: requests cancelled / forced while they wait in the command manager
            "directed_methods_with_waiting_requests": 60, "directed_methods_same": 25, "directed_methods_raiser": 10,
            "directed_methods_mixed": 2, "directed_methods_resumed": 3, "directed_methods_lane_main": 8, "directed_methods_lane_inject": 8,
            "directed_methods_lane_macro": 5, "directed_methods_two_requests_waiting_at_once": 3,
            "waiting_cancel_requests": 250, "waiting_cancel_accepted_pause_hold": 150, "waiting_cancel_accepted_uod": 5,
            "waiting_cancel_never_started_judged": 160, "waiting_cancel_state_bound_judged": 120,
            "waiting_cancel_not_offered_judged": 30, "waiting_force_not_offered_judged": 80,
            "rule_state_bound_with_other_holders": 200}


def plan(tier, seed):
    n = 128 if tier == "quick" else 2000
    shards = 16 if tier == "quick" else 50
    nd = 112 if tier == "quick" else 800        # methods of the directed stratum (requests waiting in the command manager)
    return [{"seed": seed * 1000003 + i, "n": max(1, n // shards), "max_depth": 3 if tier == "quick" else 4,
             "p_off": 0.6 if tier == "quick" else 1.0, "p_not": 0.12 if tier == "quick" else 0.25,
             "directed": max(1, nd // shards), "p_dir": 0.5 if tier == "quick" else 1.0}
            for i in range(shards)]


def gen_method(rnd: random.Random, max_depth=3):
    g = Gen(rnd, allow=("mark", "uod", "wait", "block", "watch", "alarm", "macro", "thr", "blank", "sim", "pausehold",
                        "info"),
            max_depth=max_depth, thr_values=("0.2", "0.5", "1", "0", "0.3"),
            wait_values=("0.5", "0.8", "0.3", "1", "0.2"),
            uod_cmds=("Short", "Long", "Long2", "Other", "Set1: 3", "Drive1", "Long"),
            watch_conds=("FT01 > 5 L/h", "FT01 > 3 L/h", "X = 3", "FT01 > 1 L/h", "Run Counter >= 0",
                         "Block Time > 0.3 s"))
    text = g.program(rnd.randint(3, 9))
    # untimed Pause/Hold now and then (their completed items are the subject of the side-effect clause)
    if rnd.random() < 0.3:
        from opv.rigs.cmd_rig import insert_line
        t2 = insert_line(text, rnd.randint(1, 10), rnd.choice(["Pause", "Hold", "Pause: 0.6s", "Hold: 0.6s"]))
        text = t2 if t2 is not None else text
    return {"text": text, "traj": trajectory(rnd, 200), "long_n": rnd.choice([2, 3, 4, 6])}


def reference_items(m):
    """[(tick, [(cancellable, forcible)] of the run log before that tick)]"""
    from opv.rigs import engine_rig as R
    rig = R.EngineRig(m["text"], long_n=m["long_n"])
    out = []
    try:
        rig.start()
        last = 1
        while rig.k < 45:
            try:
                items = rig.e.tracking.get_runlog().items
            except Exception:
                break
            out.append((rig.k, [(bool(i.cancellable), bool(i.forcible)) for i in items]))
            rig.hw.inputs["FT01"] = m["traj"][rig.k]
            n0, c0 = len(R.TRACE), len(rig.cmdlog)
            rig.tick()
            if len(R.TRACE) != n0 or len(rig.cmdlog) != c0:
                last = rig.k
            if rig.k - last >= 6:
                break
    finally:
        rig.close()
    return out


# ------------------------------------------------------------------------------------------------
# directed stratum: requests that WAIT inside the command manager
#
# A command request waits (sits in CommandManager.cmd_executing without having started) in two situations:
#   * engine commands: _execute_internal_command starts a command only when no command of the same name is running, so a
#     Pause/Hold requested in the tick in which another timed Pause/Hold starts waits until that one has ended
#     (requests are executed newest first: the LAST one requested in a tick starts, the earlier ones queue behind it);
#   * any command: execute_commands() aborts its loop when a command raises, so every request that was scheduled in the
#     same tick BEFORE the raising one has not been looked at yet and starts one tick later.
#   * (family "resumed") an operator Unhold / Unpause leaves the state but not the timed command: the command object keeps
#     running until its time is up, a Pause/Hold line reached meanwhile waits behind it although it was requested later.
# The first two need two or three requests in ONE tick, i.e. several interpreter paths reaching a command line together: Watch /
# Alarm handlers whose conditions become true in the same tick, a Watch body calling a macro, the main path, injected code.
D_DUR = ("0.3", "0.4", "0.6", "0.9")
D_COND = ("FT01 > 3 L/h", "FT01 > 5 L/h", "FT01 > 1 L/h", "FT01 > 3 L/h")
D_RAISERS = ("Set1: x", "SetPlain: y", "Fail", "Hold: -1s", "Pause: 5 x")
D_UOD = ("Long", "Other", "Short", "Long2", "Drive1")


def _d_timed(rnd, kind=None):
    return f"{kind or rnd.choice(('Pause', 'Hold'))}: {rnd.choice(D_DUR)}s"


def gen_resumed(rnd: random.Random):
    """Third way to make a request wait: the operator resumes (Unhold / Unpause) while a timed Hold / Pause is running.
    The command object keeps running until its time is up although the state is left, so the next Hold / Pause line of
    the method - requested in a LATER tick - waits behind it."""
    kind = rnd.choice(("Pause", "Hold"))
    first = f"{kind}: {rnd.choice(('0.9', '1.2', '1.5'))}s"
    second = _d_timed(rnd, kind) if rnd.random() < 0.8 else kind
    n = [0]

    def lab():
        n[0] += 1
        return f"d{n[0]}"

    seq = [f"Mark: {lab()}" for _ in range(rnd.randint(0, 1))] + [first] + \
        [f"Mark: {lab()}" for _ in range(rnd.randint(0, 2))] + [second, f"Mark: {lab()}"]
    if rnd.random() < 0.5:
        lines = ["Base: s", f"Watch: {rnd.choice(D_COND)}"] + ["    " + s for s in seq] + [f"Mark: {lab()}", "Wait: 0.5s"]
        lanes = ["watch", "resume"]
    else:
        lines = ["Base: s"] + seq
        lanes = ["main", "resume"]
    step = rnd.randint(6, 12)
    m = {"text": "\n".join(lines) + "\n", "traj": [0.0] * step + [6.0] * (200 - step), "long_n": 3, "fail_at": 1,
         "injects": [], "user": [], "directed": "resumed", "cmd_lines": sorted({first, second}), "lanes": lanes}
    ref = directed_reference(m)
    started = [t for (t, _, b) in ref if b]
    if not started:
        return None
    m["user"] = [[min(started) + rnd.randint(1, 4), "Un" + kind.lower()]]
    ref = directed_reference(m)
    if any(w for (_, ents, _) in ref for (_, _, w, _) in ents):
        return m, ref
    return None


def gen_directed(rnd: random.Random):
    """One method of the directed stratum, aligned (by trying offsets against the real engine) so that at least one
    request waits in the command manager; None if no alignment was found."""
    fam = rnd.choice(("same", "same", "same", "same", "mixed", "mixed", "raiser", "raiser", "raiser", "raiser", "raiser",
                      "resumed"))
    if fam == "resumed":
        return gen_resumed(rnd)
    k = rnd.choice((2, 2, 3, 3))
    if fam == "same":
        kind = rnd.choice(("Pause", "Hold"))
        cmds = [_d_timed(rnd, kind) if rnd.random() < 0.8 else kind for _ in range(k)]
        if all(":" not in c for c in cmds):
            cmds[rnd.randrange(k)] = _d_timed(rnd, kind)
    elif fam == "mixed":
        k = 3
        cmds = [_d_timed(rnd, "Pause"), _d_timed(rnd, "Hold"), rnd.choice((_d_timed(rnd), rnd.choice(D_UOD)))]
    else:
        cmds = [rnd.choice(D_RAISERS)] + [rnd.choice((_d_timed(rnd), rnd.choice(D_UOD), rnd.choice(D_UOD), rnd.choice(D_UOD)))
                                           for _ in range(k - 1)]
    rnd.shuffle(cmds)
    # every command gets a lane = an interpreter path of its own
    lanes = []
    free = True     # at most one lane needs an offset search (main path or injected code)
    shape = rnd.choice(("watch", "watch", "watch", "macro", "alarm"))   # handlers of one shape stay in lockstep
    for c in cmds:
        t = rnd.choice((shape, shape, shape, shape, shape, "main", "inject", rnd.choice(("watch", "macro", "alarm"))))
        if t in ("main", "inject"):
            if not free:
                t = shape
            free = False
        lanes.append(t)
    if fam == "same" and k == 3 and rnd.random() < 0.5:
        lanes = [shape] * 3         # three handlers in lockstep: two requests wait at once
    pad = rnd.choice((0, 0, 1))
    pads = [pad + (1 if rnd.random() < 0.1 else 0) for _ in cmds]
    n = [0]

    def lab():
        n[0] += 1
        return f"d{n[0]}"

    head, main, inject_lines = ["Base: s"], [], None
    for c, t, pd in zip(cmds, lanes, pads):
        body = [f"Mark: {lab()}" for _ in range(pd)] + [c] + ([f"Mark: {lab()}"] if rnd.random() < 0.4 else [])
        if t == "watch":
            head += [f"Watch: {rnd.choice(D_COND)}"] + ["    " + b for b in body]
        elif t == "alarm":
            head += [f"Alarm: {rnd.choice(D_COND)}"] + ["    " + b for b in body]
        elif t == "macro":
            name = f"M{lab()}"
            head = [head[0], f"Macro: {name}"] + ["    " + b for b in body] + head[1:]
            head += [f"Watch: {rnd.choice(D_COND)}", f"    Call macro: {name}"]
        elif t == "main":
            main = body
        else:
            inject_lines = body
    tail = [f"Mark: {lab()}", "Wait: 0.5s", f"Mark: {lab()}"]
    long_n = rnd.choice((2, 3, 4))
    fail_at = rnd.choice((0, 0, 1))
    n_head = len(head)
    cands = list(range(n_head + 4, n_head + 22))
    rnd.shuffle(cands)
    if not main and inject_lines is None:
        cands = cands[:2]
    for off in cands:
        step = n_head + 10 if (main or inject_lines is not None) else off
        traj = [0.0] * step + [6.0] * (200 - step)
        if "alarm" in lanes and rnd.random() < 0.5:
            traj = traj[:step + 2] + [0.0] * (198 - step)      # a pulse: the Alarm fires once
        text_lines = list(head)
        if main:
            # the main path reaches its command `off` ticks into the run (every line costs at least two ticks)
            text_lines += [f"Wait: {max(0, off - n_head - 4) * 0.1 + 0.1:.1f}s"] + main
        text_lines += tail
        m = {"text": "\n".join(text_lines) + "\n", "traj": traj, "long_n": long_n, "fail_at": fail_at,
             "injects": [[off, "\n".join(inject_lines) + "\n"]] if inject_lines is not None else [],
             "directed": fam, "cmd_lines": sorted(set(cmds)), "lanes": lanes}
        ref = directed_reference(m)
        if any(w for (_, ents, _) in ref for (_, _, w, _) in ents):
            return m, ref
    return None


def _waiting_iids(rig) -> set:
    """instance ids of requests sitting in the command manager that have not started (harness-side classification for
    counters and request selection only; the oracles never use it)"""
    cm = rig.e._command_manager
    if cm is None:
        return set()
    out = set()
    for r in list(cm.cmd_executing) + list(cm.cmd_queue.queue):
        rec = rig.e.tracking.get_record_by_instance_id(r.instance_id)
        if rec is None:
            continue
        names = [s.state_name.value for s in rec.states if s.instance_id == r.instance_id]
        if names and "started" not in names and not any(x in ("completed", "failed", "cancelled") for x in names):
            out.add(r.instance_id)
    return out


def _cm_busy(rig) -> bool:
    cm = rig.e._command_manager
    return cm is not None and (len(cm.cmd_executing) > 0 or cm.cmd_queue.qsize() > 0)


def directed_reference(m):
    """[(tick, [(cancellable, forcible, waiting, is command item)], command manager busy)] of the run without request"""
    from opv.rigs import engine_rig as R
    rig = R.EngineRig(m["text"], long_n=m["long_n"], fail_at=m.get("fail_at", 1))
    inj = {int(t): s for t, s in m.get("injects", [])}
    usr = {int(t): s for t, s in m.get("user", [])}
    names = set(m.get("cmd_lines", ()))
    out = []
    try:
        rig.start()
        idle = 0
        seen_busy = False
        while rig.k < 110:
            try:
                items = rig.e.tracking.get_runlog().items
            except Exception:
                break
            w = _waiting_iids(rig)
            busy = _cm_busy(rig)
            out.append((rig.k, [(bool(i.cancellable), bool(i.forcible), i.id in w, i.name in names) for i in items], busy))
            seen_busy = seen_busy or busy
            idle = 0 if (busy or not seen_busy) else idle + 1
            if idle >= 4:
                break
            if rig.k in inj:
                try:
                    rig.e.inject_code(inj[rig.k])
                except Exception:
                    break
            if rig.k in usr:
                rig.user(usr[rig.k])
            rig.hw.inputs["FT01"] = m["traj"][rig.k]
            rig.tick()
    finally:
        rig.close()
    return out


def check_case(case, res: Result):
    from opv.rigs import engine_rig as R
    from opv.rigs import cmd_rig as CR
    import openpectus.lang.model.ast as p

    CR.install_schedule_hook()
    CR.REQS.clear()
    kind, at, idx = case["kind"], case["at"], case["idx"]
    rig = R.EngineRig(case["text"], long_n=case["long_n"], fail_at=case.get("fail_at", 1))
    viol: list[tuple] = []
    judged = False
    inj = {int(t): s for t, s in case.get("injects", [])}
    usr = {int(t): s for t, s in case.get("user", [])}
    first_running: dict[int, tuple] = {}     # id(Pause/Hold command object) -> (object, first tick at whose end it ran)

    def feed():
        # everything that happens between two ticks apart from the request under test: the scripted reading and (directed
        # stratum) code injected / an operator command sent before this tick
        rig.hw.inputs["FT01"] = case["traj"][min(rig.k, len(case["traj"]) - 1)]
        if rig.k in inj:
            rig.e.inject_code(inj[rig.k])
        if rig.k in usr:
            rig.user(usr[rig.k])

    def interp_will_tick():
        e = rig.e
        return e._runstate_started and not e._runstate_paused and not e._runstate_holding and not e._runstate_stopping

    try:
        req = CR.Requests(rig)
        rig.start()
        while rig.k < at:
            feed()
            rig.tick()
            for nm_ in ("Pause", "Hold"):
                c_ = rig.e.registry.get_running_command(nm_)
                if c_ is not None:
                    first_running.setdefault(id(c_), (c_, rig.k))
        try:
            items = rig.e.tracking.get_runlog().items
        except Exception:
            res.count("runlog_unproducible_before_request")
            res.case(None)
            return
        if idx >= len(items):
            res.count("item_index_out_of_range")
            res.case(None)
            return
        it = items[idx]
        iid = it.id
        offered = bool(it.cancellable if kind == "cancel" else it.forcible)
        state0 = str(it.state)
        rec = rig.e.tracking.get_record_by_instance_id(iid)
        node = rig.e.tracking.get_known_node_by_id(rec.node_id) if rec is not None else None
        inst_states = [s.state_name.value for s in rec.states if s.instance_id == iid] if rec is not None else []
        newer_instance = rec is not None and rec.last_instance_id != iid
        node_reset = node is not None and state0 == "started" and not node.started
        live = _live(rig.cmdlog)
        waiting = iid in _waiting_iids(rig)      # its request sits in the command manager and has not started
        if waiting:
            res.count(f"waiting_{kind}_requests")
        intercepted = _newer_waiting_namesake(rig, iid)
        s0 = CR.snapshot(rig)
        n_log0 = len(rig.cmdlog)
        n_tr0 = len(R.TRACE)
        ok = (req.cancel if kind == "cancel" else req.force)(iid)
        s1 = CR.snapshot(rig)
        diff = CR.snap_diff(s0, s1)
        res.count("requests")
        descr = f"{kind} of item #{idx} {it.name!r} (state {state0}, offered={offered}) before tick {at + 1}"

        if not offered:
            judged = True
            res.count("not_offered_requests")
            if waiting:
                res.count(f"waiting_{kind}_not_offered_judged")
            if ok:
                res.count("not_offered_accepted")
                fins = [e for e in rig.cmdlog[n_log0:] if e[1] == "fin" and e[3] != iid]
                if state0 in CR.CONCLUSIVE and fins and kind == "cancel":
                    mech = "C12.cancel_of_concluded_uod_item_cancels_running_namesake"
                elif state0 in CR.CONCLUSIVE:
                    mech = "C12.request_on_concluded_item_accepted"
                elif isinstance(node, p.NodeWithCondition) and (newer_instance or node_reset):
                    # the item describes an earlier invocation of a Watch/Alarm line that never concluded (a newer instance
                    # exists, or the node has been reset by the re-arm of its enclosing Alarm / a new macro call); the
                    # request is validated against (and acts on) the node's *current* invocation
                    mech = "C12.request_on_item_of_earlier_invocation_acts_on_current_one"
                else:
                    mech = None
                viol.append((mech, f"{descr} was answered with success although it was not offered; "
                             f"observable changes: {diff[:3] if diff else 'none'}"))
            elif diff:
                is_ph = isinstance(node, p.EngineCommandNode) and node.instruction_name in ("Pause", "Hold")
                ctrl = any(d.startswith("control") for d in diff)
                mech = "C12.rejected_cancel_of_finished_pause_hold_resumes_engine" \
                    if (kind == "cancel" and is_ph and state0 in CR.CONCLUSIVE and ctrl) else None
                viol.append((mech, f"{descr} was rejected but changed observable state: {diff[:4]}"))
        elif not ok:
            res.count("offered_rejected")
            if diff:
                res.count("unjudged_offered_rejected_but_changed")
        else:
            res.count("offered_accepted")
            in_rep = node is not None and any(isinstance(a, (p.AlarmNode, p.MacroNode)) for a in node.parents)
            not_started_yet = inst_states == ["created"]
            # ------------------------------------------------ effect rules
            if kind == "cancel" and isinstance(node, p.WatchNode):
                if in_rep:
                    res.count("unjudged_cancel_watch_in_repeatable_scope")
                else:
                    judged = True
                    res.count("rule_cancel_watch")
                    kids = {id(c) for c in node.get_child_nodes(recursive=True)}
                    for _ in range(40):
                        feed()
                        rig.tick()
                        if rig.errors:
                            break
                    started = [e for e in R.TRACE[n_tr0:] if e[1] == "started" and e[5] is True and e[6] in kids]
                    if started:
                        viol.append(("C12.cancelled_watch_body_started",
                                     f"{descr} accepted, but body line {started[0][2]} ({started[0][3]}) started at tick "
                                     f"{started[0][0]}"))
            elif kind == "cancel" and isinstance(node, p.EngineCommandNode) and node.instruction_name in ("Pause", "Hold"):
                timed = bool(node.has_argument)
                judged = True
                res.count("rule_cancel_pause_hold" if timed else "rule_cancel_untimed_pause_hold")
                if waiting:
                    res.count("waiting_cancel_accepted")
                    res.count("waiting_cancel_accepted_pause_hold")
                nm = node.instruction_name
                flag = "_runstate_paused" if nm == "Pause" else "_runstate_holding"
                st_name = "Paused" if nm == "Pause" else "Holding"
                left_now = not getattr(rig.e, flag)
                oc = rig.e.registry.get_running_command(nm)
                other_cmd = oc is not None and oc.instance_id != iid
                # the tick by which the engine must have left the state, given the commands of this kind that were NOT
                # cancelled (decided now, from the requests the command manager holds right after the cancel)
                bound, n_others, why = _state_bound(rig, nm, iid, first_running)
                in_effect = []
                left_at = rig.k if left_now else None
                left_next = False
                for j in range(90):
                    feed()
                    rig.tick()
                    cmd = rig.e.registry.get_running_command(nm)
                    if cmd is not None and cmd.instance_id == iid:
                        in_effect.append(rig.k)
                    if left_at is None and not getattr(rig.e, flag):
                        left_at = rig.k
                    if j == 0:
                        left_next = rig.state != st_name
                    if j >= 2 and not _kind_pending(rig, nm):
                        break       # no command and no request of this kind is left
                was_running = "internalenginecommandset" in inst_states
                shared = sum(1 for q_ in CR.REQS if q_[2] == iid) >= 2
                after = [s.state_name.value for s in rec.states if s.instance_id == iid]
                after = after[after.index("cancelled") + 1:] if "cancelled" in after else []
                effect_states = [x for x in after if x in ("started", "internalenginecommandset")]
                if in_effect or effect_states:
                    # shared: two interpreter paths (stale Watch/Alarm handler, C02 finding) requested the line under one
                    # instance id; the second request re-creates the command after the cancel
                    mech = "C12.two_requests_share_one_instance_id" if shared else \
                        "C12.cancel_before_command_start_does_not_prevent_it" if not_started_yet else \
                        "C12.cancel_of_running_command_lands_on_newer_waiting_request_of_same_name" \
                        if (was_running and intercepted) else "C12.cancelled_pause_hold_still_running"
                    viol.append((mech, f"{descr} accepted{' while its request was waiting in the command manager' if waiting else ''}"
                                 f", but the {nm} command instance {iid[:8]} is running at tick(s) {in_effect[:6]} (item "
                                 f"states at request: {inst_states}, states recorded after the cancel: {after})"))
                else:
                    if waiting:
                        res.count("waiting_cancel_never_started_judged")
                    if timed and was_running and not other_cmd and not left_now and not left_next:
                        viol.append(("C12.cancelled_pause_hold_state_not_left",
                                     f"{descr} accepted, but the engine was still {st_name} right after the call and at the end "
                                     f"of the next tick"))
                    elif bound is None:
                        # an un-timed Pause/Hold (or one with a duration the harness cannot read) holds the state too
                        res.count("unjudged_pause_hold_state_held_by_other_command")
                    elif nm == "Pause" and rig.errors:
                        res.count("unjudged_pause_state_after_method_error")     # the error pause is not a Pause command
                    else:
                        res.count("rule_state_bound")
                        if n_others:
                            res.count("rule_state_bound_with_other_holders")
                            if waiting:
                                res.count("waiting_cancel_state_bound_judged")
                        if left_at is None or left_at > bound:
                            viol.append(("C12.cancelled_pause_hold_state_outlasts_uncancelled_commands",
                                         f"{descr} accepted{' while its request was waiting' if waiting else ''}; the "
                                         f"un-cancelled {nm} commands ({why}) justify {st_name} until tick {bound - 2} at most, "
                                         f"but the engine " + (f"left {st_name} only at tick {left_at}" if left_at is not None
                                                               else f"was still {st_name} at tick {rig.k}")))
            elif kind == "cancel" and isinstance(node, p.UodCommandNode):
                judged = True
                res.count("rule_cancel_uod")
                if waiting:
                    res.count("waiting_cancel_accepted")
                    res.count("waiting_cancel_accepted_uod")
                was_live = iid in live
                if was_live:
                    res.count("rule_cancel_uod_live")
                    if not any(e[1] == "fin" and e[3] == iid for e in rig.cmdlog[n_log0:]):
                        viol.append(("C12.cancelled_uod_command_not_finalized_in_call",
                                     f"{descr} accepted, instance {iid[:8]} was executing, but finalize was not called during "
                                     f"the request"))
                n_log1 = len(rig.cmdlog)
                for _ in range(10):
                    feed()
                    rig.tick()
                later = [e for e in rig.cmdlog[n_log1:] if e[3] == iid and e[1] in ("init", "exec")]
                if later:
                    shared = sum(1 for q_ in CR.REQS if q_[2] == iid) >= 2
                    # intercepted: cancel_instruction looks the executing request up by command NAME (newest first); a
                    # newer request of the same name that is still waiting is cancelled and dropped in place of the
                    # addressed one, whose own request stays listed and re-creates its command in the next tick
                    mech = "C12.two_requests_share_one_instance_id" if shared else \
                        "C12.cancel_before_command_start_does_not_prevent_it" if (not was_live and not_started_yet) \
                        else "C12.cancel_of_running_command_lands_on_newer_waiting_request_of_same_name" \
                        if (was_live and intercepted) else "C12.cancelled_uod_command_executes_afterwards"
                    viol.append((mech, f"{descr} accepted, but instance {iid[:8]} has {later[0][1]} at tick {later[0][0]} "
                                 f"after the cancel (item states at request: {inst_states})"))
                elif waiting:
                    res.count("waiting_cancel_never_started_judged")
            elif kind == "force" and isinstance(node, p.WatchNode):
                registered = bool(node.interrupt_registered) and node.id in rig.e.interpreter._interrupts_map
                if in_rep or not registered:
                    res.count("unjudged_force_watch_unregistered_or_repeatable")
                else:
                    running = 0
                    activated = False
                    for _ in range(12):
                        will = interp_will_tick()
                        feed()
                        rig.tick()
                        running += 1 if will else 0
                        if any(e[1] == "activated" and e[5] is True and e[6] == id(node) for e in R.TRACE[n_tr0:]):
                            activated = True
                            break
                        if running >= 2 or rig.errors:
                            break
                    aborted = any(e[1] == "interrupt_registered" and e[5] is False and e[6] == id(node)
                                  for e in R.TRACE[n_tr0:])
                    if aborted and not activated:
                        # the enclosing Block ended (its interrupts are aborted) before the forced Watch could run
                        res.count("unjudged_force_watch_aborted_by_block_end")
                    elif activated or running >= 2:
                        judged = True
                        res.count("rule_force_watch")
                        if not activated:
                            viol.append(("C12.forced_watch_not_started",
                                         f"{descr} accepted, but the Watch was not activated within 2 interpreter ticks"))
                    else:
                        res.count("unjudged_force_fewer_than_2_running_ticks")
            elif kind == "force" and isinstance(node, p.InterpreterCommandNode) and node.instruction_name == "Wait" \
                    and in_rep:
                # inside Alarm/Macro bodies a line can be walked by a stale second handler (C02 findings); not judged
                res.count("unjudged_force_wait_in_repeatable_scope")
            elif kind == "force" and isinstance(node, p.InterpreterCommandNode) and node.instruction_name == "Wait" \
                    and not _being_waited_on(rig, node, newer_instance):
                # stale item: the interrupt handler that was executing this Wait has been aborted (enclosing Block ended,
                # enclosing Watch/Alarm no longer registered) or the item belongs to an earlier invocation
                res.count("unjudged_force_wait_without_live_handler")
            elif kind == "force" and isinstance(node, p.InterpreterCommandNode) and node.instruction_name == "Wait":
                running = 0
                done = False
                for _ in range(12):
                    will = interp_will_tick()
                    feed()
                    rig.tick()
                    running += 1 if will else 0
                    if any(e[1] == "completed" and e[5] is True and e[6] == id(node) for e in R.TRACE[n_tr0:]):
                        done = True
                        break
                    if running >= 2 or rig.errors:
                        break
                anc = {id(a) for a in node.parents}
                aborted = any(e[6] in anc and ((e[1] == "block_ended" and e[5] is True) or
                                               (e[1] == "interrupt_registered" and e[5] is False))
                              for e in R.TRACE[n_tr0:])
                if aborted and not done:
                    # an enclosing Block ended / the enclosing interrupt was unregistered while the forced Wait was pending
                    res.count("unjudged_force_wait_aborted_by_scope_end")
                elif done or running >= 2:
                    judged = True
                    res.count("rule_force_wait")
                    if not done:
                        viol.append(("C12.forced_wait_not_completed",
                                     f"{descr} accepted, but the Wait did not complete within 2 interpreter ticks"))
                else:
                    res.count("unjudged_force_fewer_than_2_running_ticks")
            else:
                res.count("offered_accepted_no_effect_rule")
        res.case((shape_hash(case["text"]), at, idx, kind) if judged else None,
                 sample={"method": case["text"], "at": at, "idx": idx, "kind": kind, "item": it.name, "state": state0,
                         "offered": offered, "accepted": ok})
    finally:
        rig.close()
    for mech, msg in viol:
        res.violation(mech, msg, case)


def _newer_waiting_namesake(rig, iid) -> bool:
    """the command manager lists, before (= newer than) the request of instance `iid`, a request of the same command
    name that has not started (classifier only)"""
    cm = rig.e._command_manager
    lst = list(cm.cmd_executing) if cm is not None else []
    pos = [i for i, r in enumerate(lst) if r.instance_id == iid]
    if not pos:
        return False
    w = _waiting_iids(rig)
    return any(r.name == lst[pos[0]].name and r.instance_id in w and r.instance_id != iid for r in lst[:pos[0]])


def _kind_pending(rig, nm) -> bool:
    cm = rig.e._command_manager
    if rig.e.registry.get_running_command(nm) is not None:
        return True
    return cm is not None and any(r.name == nm for r in list(cm.cmd_executing) + list(cm.cmd_queue.queue))


def _state_bound(rig, nm, iid, first_running):
    """(tick by whose end the engine must have left Paused/Holding | None, number of other holders, text): every
    un-cancelled timed command of kind `nm` the command manager knows holds the state for ceil(d / interval) + 1 ticks,
    one after the other (the running one counts from its observed start), plus 2 ticks of slack. None when the state is
    (also) held by something without a readable duration."""
    import math
    import re
    cm = rig.e._command_manager
    reqs = [r for r in list(cm.cmd_executing) + list(cm.cmd_queue.queue) if r.name == nm and r.instance_id != iid] \
        if cm is not None else []
    for r_ in rig.e.tracking.runtimeinfo.records:
        if r_.node_class_name == "EngineCommandNode" and r_.name == nm and \
                any(s.state_name.value == "started" and s.instance_id != iid for s in r_.states):
            return None, len(reqs), "an un-timed one has started"
    ticks = []      # one entry per request (two requests may carry one instance id, see two_requests_share_one_instance_id)
    for r in reqs:
        mt = re.match(r"^\s*(\d+(?:\.\d+)?)\s*s\s*$", r.arguments or "")
        if mt is None:
            return None, len(reqs), f"argument {r.arguments!r}"
        ticks.append((r.instance_id, math.ceil(float(mt.group(1)) / rig.interval - 1e-6) + 1))
    run = rig.e.registry.get_running_command(nm)
    leave = rig.k + 1
    if run is not None and run.instance_id != iid:
        own = [x for x in ticks if x[0] == run.instance_id]
        if not own:
            return None, len(reqs), "running command without request"
        ticks.remove(own[0])
        leave = first_running.get(id(run), (run, rig.k))[1] + own[0][1]
    leave += sum(n for _, n in ticks)
    return leave + 2, len(reqs), ", ".join(f"{nm}: {r.arguments}" for r in reqs) or "none"


def _being_waited_on(rig, node, newer_instance) -> bool:
    import openpectus.lang.model.ast as p
    if newer_instance or node.completed or not node.started:
        return False
    for a in node.parents:
        if isinstance(a, p.BlockNode) and a.block_ended:
            return False
        if isinstance(a, (p.NodeWithCondition, p.InjectedNode)):
            return a.id in rig.e.interpreter._interrupts_map     # nearest enclosing interrupt scope decides
    return True


def _live(cmdlog) -> list[str]:
    alive: list[str] = []
    for ev in cmdlog:
        if ev[1] == "init" and ev[3] not in alive:
            alive.append(ev[3])
        elif ev[1] == "fin" and ev[3] in alive:
            alive.remove(ev[3])
    return alive


def run_shard(spec):
    res = Result()
    rnd = random.Random(spec["seed"])
    for _ in range(spec["n"]):
        m = gen_method(rnd, spec.get("max_depth", 3))
        for (t, flags) in reference_items(m):
            for idx, (c, f) in enumerate(flags):
                for kind, off in (("cancel", c), ("force", f)):
                    if rnd.random() < (spec["p_off"] if off else spec["p_not"]):
                        check_case({**m, "kind": kind, "at": t, "idx": idx}, res)
    # directed stratum: cancel at EVERY tick at which a request waits in the command manager, on each waiting item;
    # cancel/force on the other command items of the window and (sparsely) on everything else
    rnd = random.Random(spec["seed"] * 7919 + 13)
    pd = spec.get("p_dir", 0.5)
    for _ in range(spec.get("directed", 0)):
        g = None
        for _try in range(6):
            res.count("directed_generation_attempts")
            g = gen_directed(rnd)
            if g is not None:
                break
        if g is None:
            continue
        m, ref = g
        res.count("directed_methods_with_waiting_requests")
        res.count(f"directed_methods_{m['directed']}")
        for ln in set(m["lanes"]) - {"watch", "resume"}:
            res.count(f"directed_methods_lane_{ln}")
        if any(sum(1 for e in ents if e[2]) >= 2 for (_, ents, _) in ref):
            res.count("directed_methods_two_requests_waiting_at_once")
        busy = [t for (t, _, b) in ref if b]
        lo, hi = (min(busy) - 2, min(max(busy) + 1, min(busy) + 50)) if busy else (0, -1)
        for (t, ents, _) in ref:
            if not lo <= t <= hi:
                continue
            for idx, (c, f, w, is_cmd) in enumerate(ents):
                for kind, off in (("cancel", c), ("force", f)):
                    if w:
                        pr = 1.0 if kind == "cancel" else pd
                    elif is_cmd:
                        pr = pd if off else pd * 0.3
                    else:
                        pr = pd * (0.08 if off else 0.03)
                    if rnd.random() < pr:
                        check_case({**m, "kind": kind, "at": t, "idx": idx}, res)
    return res


def replay(case):
    res = Result()
    check_case(case, res)
    return res
