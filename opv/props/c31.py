"""C31 - Method saves use optimistic concurrency without lost updates.

2-3 concurrent `FromFrontend.save_method` coroutines against the real Aggregator; the engine side of the rpc channel
suspends every round trip on a future that only the harness resolves. Every interleaving of the schedule points
(start of a save, completion of its engine round trip) is enumerated together with the rpc outcome and the base
version of every save. See DESIGN.md C31."""
from __future__ import annotations

import asyncio
import itertools
import json

from opv.core import Result

ID = "C31"
LEVEL = "fault_enumeration"
TECHNIQUE = ("runtime monitoring: serial-specification oracle over every interleaving of concurrent save_method "
             "coroutines under a harness-controlled scheduler")
RULE = ("n in {2,3} concurrent FromFrontend.save_method calls on one engine (real Aggregator, real "
        "AggregatorDispatcher.rpc_call, mocked rpc channel). Schedule points per save: S_i = the coroutine starts and "
        "runs until it blocks, R_i = its engine round trip is answered and it runs until it blocks/finishes. ALL "
        "orders of the 2n points with S_i before R_i are enumerated (6 for n=2, 90 for n=3) x rpc outcome per save in "
        "{ok, caller-error reply, internal-error reply, transport exception} x base version of each save in "
        "{current-1, current, current+1}. quick: n=2 complete (864) + n=3 with all 4^3 outcomes for saves all based on "
        "the current version (5760) + n=3 with all 3^3 base patterns and every round trip succeeding (2340); thorough: "
        "n=2 complete + n=3 complete (155520). distinct = (n, order, outcomes, bases); non-trivial = at least two saves overlap in time")
ASSUMPTIONS = [
    "the only suspension point of save_method is the engine round trip; the scheduler nevertheless lets a task run "
    "'until the observable state is stable', so an implementation that blocks elsewhere (e.g. on a per-engine lock) "
    "is scheduled correctly: a point whose save has no pending rpc is a counted no-op and leftovers are drained in "
    "index order at the end",
    "'accepted' = save_method returns a version; 'rejected' = it raises",
    "'based on the current version' is judged at the moment the aggregator replaces engine_data.method (observed by a "
    "recording property installed on EngineData.method from the harness); cross-checked by final version == initial "
    "+ number of accepted saves, which needs no hook",
    "not asserted: that a save based on the current version is accepted (the statement is 'only if'); that the "
    "engine and the aggregator end up with the same method text",
    "trusted base: asyncio's FIFO ready queue, the mocked rpc channel (RpcScript), the enumeration of orders",
]
REQUIRED = {"cases_with_overlapping_saves_on_current_version": 100, "saves_accepted": 500, "method_set_events": 500,
            "rpc_issued": 1000}
EXHAUSTIVE_ALL = True

KNOWN = "C31.version_checked_only_before_engine_roundtrip"
V0 = 2
OUTCOMES = ("ok", "err_caller", "err_internal", "raise")
NSHARDS_Q, NSHARDS_T = 16, 48


def orders(n):
    """all sequences containing every i in range(n) exactly twice (first = S_i, second = R_i)"""
    out = set(itertools.permutations([i for i in range(n) for _ in (0, 1)]))
    return sorted(out)


def all_cases(tier):
    """deterministic, complete enumeration of the explored space for the tier"""
    cases = []
    o2, o3 = orders(2), orders(3)
    assert len(o2) == 6 and len(o3) == 90
    for od in o2:
        for oc in itertools.product(range(4), repeat=2):
            for offs in itertools.product((-1, 0, 1), repeat=2):
                cases.append((2, od, oc, offs))
    if tier == "quick":
        for od in o3:
            for oc in itertools.product(range(4), repeat=3):
                cases.append((3, od, oc, (0, 0, 0)))
            for offs in itertools.product((-1, 0, 1), repeat=3):
                if offs != (0, 0, 0):
                    cases.append((3, od, (0, 0, 0), offs))
    else:
        for od in o3:
            for oc in itertools.product(range(4), repeat=3):
                for offs in itertools.product((-1, 0, 1), repeat=3):
                    cases.append((3, od, oc, offs))
    return cases


def plan(tier, seed):
    # the space is enumerated completely; the seed only rotates which shard gets which slice
    k = NSHARDS_Q if tier == "quick" else NSHARDS_T
    return [{"seed": seed, "tier": tier, "shard": i, "of": k, "rot": seed % k} for i in range(k)]


METHOD_EVENTS: list[tuple] = []


def install_method_hook():
    """recording property on EngineData.method (harness-side instrumentation, /repo untouched)"""
    from openpectus.aggregator.models import EngineData
    if getattr(EngineData, "_opv_method_hook", False):
        return

    def fget(self):
        return self.__dict__["_opv_method"]

    def fset(self, value):
        old = self.__dict__.get("_opv_method")
        who = value.lines[0].content if getattr(value, "lines", None) else None
        METHOD_EVENTS.append((old.version if old is not None else None, value.version, who))
        self.__dict__["_opv_method"] = value

    EngineData.method = property(fget, fset)  # type: ignore
    EngineData._opv_method_hook = True  # type: ignore


class Env:
    def __init__(self):
        from opv.rigs.frontend_rig import FrontendRig
        install_method_hook()
        self.rig = FrontendRig()
        self.eid = None

    async def setup(self):
        r = await self.rig.register("pc31", "uod31")
        assert r.success
        self.eid = r.engine_id
        await self.rig.connect(self.eid)
        await self.rig.settle()


async def run_case(env: Env, case, res: Result):
    import openpectus.aggregator.models as Mdl
    import openpectus.protocol.messages as M
    from opv.rigs.frontend_rig import rpc_reply

    n, order, outcomes, offs = case
    rig = env.rig
    ed = rig.agg._engine_data_map[env.eid]
    script = rig.scripts[env.eid]
    script.calls.clear()
    ed.contributors = set()
    ed.method = Mdl.Method(lines=[Mdl.MethodLine(id="1", content="opv-init")], version=V0, last_author="init")
    METHOD_EVENTS.clear()
    tags = [f"opv-save-{i}" for i in range(n)]
    bases = [V0 + o for o in offs]
    issue_version: dict[int, int] = {}
    call_of: dict[int, dict] = {}

    def on_issue(call):
        txt = json.dumps(call["msg"], default=str)
        for i, t in enumerate(tags):
            if t in txt:
                issue_version[i] = ed.method.version
                call_of[i] = call
    script.on_issue = on_issue

    results: dict[int, tuple] = {}
    tasks: dict[int, asyncio.Task] = {}

    async def save(i):
        m = Mdl.Method(lines=[Mdl.MethodLine(id="1", content=tags[i]), Mdl.MethodLine(id="2", content="")],
                       version=bases[i], last_author=tags[i])
        try:
            v = await rig.ff.save_method(env.eid, m, Mdl.Contributor(id=tags[i], name=tags[i]))
            results[i] = ("accepted", v)
        except Exception as ex:  # the frontend route turns these into 4xx/5xx
            results[i] = ("rejected", type(ex).__name__)

    def sig():
        return (tuple(sorted(results)), len(script.calls), len(script.pending()), len(METHOD_EVENTS))

    async def stabilise():
        last, same = None, 0
        for _ in range(60):
            await asyncio.sleep(0)
            s = sig()
            same = same + 1 if s == last else 0
            last = s
            if same >= 2:
                return True
        return False

    def resolve(i):
        call = call_of.get(i)
        if call is None or call["future"].done():
            return False
        oc = OUTCOMES[outcomes[i]]
        if oc == "ok":
            call["future"].set_result(rpc_reply(M.SuccessMessage()))
        elif oc == "err_caller":
            call["future"].set_result(rpc_reply(M.ErrorMessage(message="engine refused", caller_error=True)))
        elif oc == "err_internal":
            call["future"].set_result(rpc_reply(M.ErrorMessage(message="engine failed", caller_error=False)))
        else:
            call["future"].set_exception(ConnectionError("opv: transport failure"))
        res.count("rpc_resolved")
        return True

    seen = set()
    version_before_done: dict[int, int] = {}
    stable = True
    for i in order:
        if i not in seen:
            seen.add(i)
            tasks[i] = asyncio.get_running_loop().create_task(save(i))
            res.count("saves_started")
        else:
            if i not in results:
                version_before_done[i] = ed.method.version
            if not resolve(i):
                res.count("schedule_points_without_pending_rpc")
        stable = await stabilise() and stable
    # drain (only needed for implementations that block somewhere else than on the round trip)
    for _ in range(4 * n):
        if len(results) == n:
            break
        for i in range(n):
            if i not in results:
                version_before_done.setdefault(i, ed.method.version)
                if resolve(i):
                    res.count("drained_after_schedule")
                stable = await stabilise() and stable
    script.on_issue = None
    res.count("rpc_issued", len(script.calls))
    if len(results) != n or not stable:
        # a save that never returns is a liveness problem the statement does not speak about, and a schedule that
        # cannot be completed decides nothing: crash the shard => INCONCLUSIVE (never 'held', never 'violated')
        for t in tasks.values():
            t.cancel()
        raise RuntimeError(f"C31 scheduler could not bring the saves to completion under order {order}, outcomes "
                           f"{outcomes}, bases {bases}: results={results}, pending rpc={len(script.pending())}")
    await rig.settle(2)

    # ------------------------------------------------------------------ oracle
    events = list(METHOD_EVENTS)            # the harness reset was cleared before the saves started
    res.count("method_set_events", len(events))
    final = ed.method.version
    accepted = [i for i in range(n) if results[i][0] == "accepted"]
    res.count("saves_accepted", len(accepted))
    res.count("saves_rejected", n - len(accepted))
    viol: list[tuple] = []
    rejected_with_effect: list[int] = []
    for i in range(n):
        ev = [e for e in events if e[2] == tags[i]]
        if results[i][0] == "rejected":
            if ev:
                rejected_with_effect.append(i)
            if bases[i] == V0 and OUTCOMES[outcomes[i]] == "ok":
                res.count("rejected_although_based_on_initial_version_and_rpc_ok")
            continue
        ret = results[i][1]
        if OUTCOMES[outcomes[i]] != "ok":
            res.count("accepted_although_engine_round_trip_failed")   # not part of the statement: counted only
        applied_old = ev[0][0] if ev else version_before_done.get(i)
        applied_new = ev[0][1] if ev else None
        symptoms = []
        if applied_old != bases[i]:
            symptoms.append(f"accepted on base {bases[i]} while the current version was {applied_old}")
        if ret != bases[i] + 1:
            symptoms.append(f"returned version {ret} for base {bases[i]}")
        if applied_new is not None and applied_new != applied_old + 1:
            symptoms.append(f"the accepted save moved the version {applied_old} -> {applied_new}")
        if not symptoms:
            continue
        if applied_old != bases[i]:
            if issue_version.get(i) == bases[i]:
                # causal shape of the known defect: the version matched when the round trip was issued (so the
                # pre-await check passed) and no longer matched when the result was applied
                mech = KNOWN
            else:
                mech = "C31.save_on_stale_version_accepted"
        else:
            mech = "C31.accepted_save_does_not_increment_by_one"
        lost = [tags[j] for j in accepted if j != i and results[j][1] == ret]
        viol.append((mech, f"n={n} order={order} outcomes={[OUTCOMES[o] for o in outcomes]} bases={bases}: save {i} "
                     + "; ".join(symptoms) + f"; rpc issued at version {issue_version.get(i)}; results={results}; "
                     f"final version {final}, final author {ed.method.lines[0].content}"
                     + (f"; same version also returned to {lost} (one of the texts is silently lost)" if lost else "")))
    # group / conservation rules as a hook-independent backstop
    by_base: dict[int, list[int]] = {}
    for i in accepted:
        by_base.setdefault(bases[i], []).append(i)
    dup = {b: l for b, l in by_base.items() if len(l) > 1}
    if dup and not viol:
        viol.append((None, f"two saves on the same base accepted {dup} under order {order}; results={results}"))
    if final != V0 + len(accepted) and not viol:
        # refused saves must leave the version alone (net effect; a roll-back would restore it)
        mech = "C31.rejected_save_changed_method" if rejected_with_effect else None
        viol.append((mech, f"final version {final} != {V0} + {len(accepted)} accepted saves; order {order} "
                     f"outcomes={[OUTCOMES[o] for o in outcomes]} bases={bases} results={results}; refused saves that "
                     f"assigned engine_data.method: {rejected_with_effect}"))
    if len(events) != len(accepted) and not viol:
        res.count("method_sets_differ_from_accepted_count")

    # ------------------------------------------------------------------ bookkeeping
    pos = {}
    for p, i in enumerate(order):
        pos.setdefault(i, []).append(p)
    overlap = any(pos[i][0] < pos[j][0] < pos[i][1] for i in range(n) for j in range(n) if i != j)
    cur = [i for i in range(n) if offs[i] == 0]
    ov_cur = any(pos[i][0] < pos[j][0] < pos[i][1] for i in cur for j in cur if i != j)
    if overlap:
        res.count("cases_with_overlapping_saves")
    if ov_cur:
        res.count("cases_with_overlapping_saves_on_current_version")
    res.case((n, order, outcomes, offs) if overlap else None,
             sample={"n": n, "order": list(order), "outcomes": [OUTCOMES[o] for o in outcomes], "bases": bases,
                     "results": {str(k): list(v) for k, v in sorted(results.items())}, "final_version": final,
                     "method_sets": events})
    for mech, msg in viol:
        res.violation(mech, msg, _jcase(case))


def _jcase(case):
    n, order, outcomes, offs = case
    return {"n": n, "order": list(order), "outcomes": list(outcomes), "offs": list(offs)}


def run_shard(spec):
    from opv.rigs.frontend_rig import run
    res = Result()
    cases = all_cases(spec["tier"])
    k = spec["of"]
    mine = [c for idx, c in enumerate(cases) if (idx + spec.get("rot", 0)) % k == spec["shard"]]
    env = Env()

    async def main():
        await env.setup()
        for c in mine:
            await run_case(env, c, res)
    try:
        run(main)
    finally:
        env.rig.close()
    if spec["shard"] == 0:
        res.exhaustive_parts.append(
            "n=2: all 6 orders x 4^2 rpc outcomes x 3^2 base patterns" + (
                "; n=3: all 90 orders x 4^3 outcomes (bases all current) and all 90 orders x 3^3 base patterns (all rpc ok)"
                if spec["tier"] == "quick" else "; n=3: all 90 orders x 4^3 rpc outcomes x 3^3 base patterns"))
    return res


def replay(case):
    from opv.rigs.frontend_rig import run
    res = Result()
    env = Env()
    c = (case["n"], tuple(case["order"]), tuple(case["outcomes"]), tuple(case["offs"]))

    async def main():
        await env.setup()
        await run_case(env, c, res)
    try:
        run(main)
    finally:
        env.rig.close()
    return res
