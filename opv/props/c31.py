"""C31 - Method saves use optimistic concurrency without lost updates.

Two strata, both against the real code:

* direct calls: 2-3 concurrent `FromFrontend.save_method` coroutines against the real Aggregator; the engine side of
  the rpc channel suspends every round trip on a future that only the harness resolves. Every interleaving of the
  schedule points (start of a save, completion of its engine round trip) is enumerated together with the rpc outcome
  and the base version of every save.
* client boundary: the same kind of histories driven through the real HTTP routes of the real AggregatorServer
  application (POST / GET /api/process_unit/{id}/method, in-process ASGI transport), which is where a browser tab's
  "based on version v" enters the system; bases are drawn from every version that ever existed (0 included), savers
  start before / during / after other savers' round trips, the engine answers late, with errors, out of order, or
  drops and reconnects (new session, version 0 again). Judged by a sequential model of the statement (judge_http).

See DESIGN.md C31."""
from __future__ import annotations

import asyncio
import itertools
import json

from opv.core import Result

ID = "C31"
LEVEL = "fault_enumeration"
TECHNIQUE = ("runtime monitoring: serial-specification oracle over every interleaving of concurrent save_method "
             "coroutines under a harness-controlled scheduler")
RULE = ("(1) direct: n in {2,3} concurrent FromFrontend.save_method calls on one engine (real Aggregator, real "
        "AggregatorDispatcher.rpc_call, mocked rpc channel). Schedule points per save: S_i = the coroutine starts and "
        "runs until it blocks, R_i = its engine round trip is answered and it runs until it blocks/finishes. ALL "
        "orders of the 2n points with S_i before R_i are enumerated (6 for n=2, 90 for n=3) x rpc outcome per save in "
        "{ok, caller-error reply, internal-error reply, transport exception} x base version of each save in "
        "{current-1, current, current+1}. quick: n=2 complete (864) + n=3 with all 4^3 outcomes for saves all based on "
        "the current version (5760) + n=3 with all 3^3 base patterns and every round trip succeeding (2340); thorough: "
        "n=2 complete + n=3 complete (155520). (2) client boundary: histories of POST/GET .../method requests against "
        "the real AggregatorServer app on a fresh process unit (version 0). Steps: start a save (base = absolute "
        "version drawn from {0, every version any GET or accepted save has shown so far, current, current+-1}), answer "
        "the k-th pending engine round trip {ok, caller-error, internal-error, transport exception}, drop the engine "
        "websocket (pending round trips fail), re-register + reconnect the engine (new session, version 0); a GET "
        "after every step; all saves are drained at the end, then 0-2 late saves on old bases follow. Exhaustive "
        "part: 2 savers after w in {0,1,2} completed saves, all 6 orders x all base pairs from {0..w+1} x outcomes "
        "(408 histories; thorough adds 3 savers, w in {0,1}, 90 orders x all base triples: 3150); random part: 1400 "
        "(quick) / 24000 (thorough) histories of 3-12 (16) steps, <= 5 (6) savers. distinct = (n, order, outcomes, "
        "bases) resp. the executed step list; non-trivial = at least two saves overlap in time, or a save on an "
        "outdated base follows a completed accepted save, or the engine reconnects")
ASSUMPTIONS = [
    "the only suspension point of save_method is the engine round trip; the scheduler nevertheless lets a task run "
    "'until the observable state is stable', so an implementation that blocks elsewhere (e.g. on a per-engine lock) "
    "is scheduled correctly: a point whose save has no pending rpc is a counted no-op and leftovers are drained in "
    "index order at the end",
    "'accepted' = save_method returns a version; 'rejected' = it raises",
    "'based on the current version' is judged at the moment the aggregator replaces engine_data.method (observed by a "
    "recording property installed on EngineData.method from the harness); cross-checked by final version == initial "
    "+ number of accepted saves, which needs no hook",
    "not asserted: that a save based on the current version is accepted (the statement is 'only if'); that the "
    "engine and the aggregator end up with the same method text",
    "trusted base: asyncio's FIFO ready queue, the mocked rpc channel (RpcScript), the enumeration of orders",
    "client boundary: 'accepted' = POST answers 200 with a version, 'rejected' = any other status; the sequential model "
    "is the 'only if' reading of the statement: an accepted save takes effect at one instant between its request and "
    "its response, at which the method version equals its base, returns base+1 and leaves (base+1, its text); a "
    "rejected save has no effect whenever it happens; nothing is demanded about WHICH saves are rejected (counted: "
    "saves on the current version that ran alone). Every GET between steps must show exactly the model state, which "
    "is how 'a rejected save changes nothing' and 'no accepted text is lost or duplicated' are judged",
    "client boundary: the harness acts only at quiescent points (no worker-thread call of the app in flight - counted "
    "by wrapping anyio.to_thread.run_sync - and the event loop's ready queue empty), so every step is atomic for the "
    "model; an engine drop runs the dispatcher's disconnect handlers first and then fails the pending round trips; "
    "a closed channel raises for new rpc calls like the real RpcChannel",
    "client boundary: a freshly (re)registered process unit shows version 0 and no lines (Mdl.Method.empty()); a "
    "different first GET of a session crashes the shard (inconclusive), it is not judged. Version numbers of "
    "different engine sessions are the same 'version' for the statement (a tab of the previous session whose base "
    "happens to equal the current number may be accepted)",
    "client boundary: the auth dependencies run as shipped (no authentication configured: anonymous user, no roles); "
    "a transport-exception reply makes rpc_call close the channel object, the engine drop that would follow in "
    "production is a separate, independently generated step",
]
REQUIRED = {"cases_with_overlapping_saves_on_current_version": 100, "saves_accepted": 500, "method_set_events": 500,
            "rpc_issued": 1000,
            # client-boundary stratum: the classes of saves the statement quantifies over were reached AND judged
            "http_histories_judged_by_serial_model": 1500, "http_reads": 5000,
            "http_saves_accepted": 1500, "http_saves_rejected": 1500,
            "http_late_stale_saves_after_completed_save": 600,
            "http_late_saves_based_on_version_0_after_completed_save": 400,
            "http_saves_started_during_a_round_trip": 400,
            "http_saves_on_current_version_started_during_a_round_trip": 250,
            "http_replies_delivered_while_another_save_waits": 250,
            "http_engine_replies_failed": 200, "http_engine_reconnects": 300,
            "http_stale_saves_based_on_version_0_after_reconnect": 50,
            "http_saves_after_reconnect_based_on_a_version_of_the_previous_session": 50}
EXHAUSTIVE_ALL = True

KNOWN = "C31.version_checked_only_before_engine_roundtrip"
V0 = 2
OUTCOMES = ("ok", "err_caller", "err_internal", "raise")
NSHARDS_Q, NSHARDS_T = 16, 48


def orders(n):
    """all sequences containing every i in range(n) exactly twice (first = S_i, second = R_i)"""
    out = set(itertools.permutations([i for i in range(n) for _ in (0, 1)]))
    return sorted(out)


def all_cases(tier):
    """deterministic, complete enumeration of the explored space for the tier"""
    cases = []
    o2, o3 = orders(2), orders(3)
    assert len(o2) == 6 and len(o3) == 90
    for od in o2:
        for oc in itertools.product(range(4), repeat=2):
            for offs in itertools.product((-1, 0, 1), repeat=2):
                cases.append((2, od, oc, offs))
    if tier == "quick":
        for od in o3:
            for oc in itertools.product(range(4), repeat=3):
                cases.append((3, od, oc, (0, 0, 0)))
            for offs in itertools.product((-1, 0, 1), repeat=3):
                if offs != (0, 0, 0):
                    cases.append((3, od, (0, 0, 0), offs))
    else:
        for od in o3:
            for oc in itertools.product(range(4), repeat=3):
                for offs in itertools.product((-1, 0, 1), repeat=3):
                    cases.append((3, od, oc, offs))
    return cases


def plan(tier, seed):
    # the space is enumerated completely; the seed only rotates which shard gets which slice
    k = NSHARDS_Q if tier == "quick" else NSHARDS_T
    return [{"seed": seed, "tier": tier, "shard": i, "of": k, "rot": seed % k} for i in range(k)]


METHOD_EVENTS: list[tuple] = []


def install_method_hook():
    """recording property on EngineData.method (harness-side instrumentation, /repo untouched)"""
    from openpectus.aggregator.models import EngineData
    if getattr(EngineData, "_opv_method_hook", False):
        return

    def fget(self):
        return self.__dict__["_opv_method"]

    def fset(self, value):
        old = self.__dict__.get("_opv_method")
        who = value.lines[0].content if getattr(value, "lines", None) else None
        METHOD_EVENTS.append((old.version if old is not None else None, value.version, who))
        self.__dict__["_opv_method"] = value

    EngineData.method = property(fget, fset)  # type: ignore
    EngineData._opv_method_hook = True  # type: ignore


class Env:
    def __init__(self):
        from opv.rigs.frontend_rig import FrontendRig
        install_method_hook()
        self.rig = FrontendRig()
        self.eid = None

    async def setup(self):
        r = await self.rig.register("pc31", "uod31")
        assert r.success
        self.eid = r.engine_id
        await self.rig.connect(self.eid)
        await self.rig.settle()


async def run_case(env: Env, case, res: Result):
    import openpectus.aggregator.models as Mdl
    import openpectus.protocol.messages as M
    from opv.rigs.frontend_rig import rpc_reply

    n, order, outcomes, offs = case
    rig = env.rig
    ed = rig.agg._engine_data_map[env.eid]
    script = rig.scripts[env.eid]
    script.calls.clear()
    ed.contributors = set()
    ed.method = Mdl.Method(lines=[Mdl.MethodLine(id="1", content="opv-init")], version=V0, last_author="init")
    METHOD_EVENTS.clear()
    tags = [f"opv-save-{i}" for i in range(n)]
    bases = [V0 + o for o in offs]
    issue_version: dict[int, int] = {}
    call_of: dict[int, dict] = {}

    def on_issue(call):
        txt = json.dumps(call["msg"], default=str)
        for i, t in enumerate(tags):
            if t in txt:
                issue_version[i] = ed.method.version
                call_of[i] = call
    script.on_issue = on_issue

    results: dict[int, tuple] = {}
    tasks: dict[int, asyncio.Task] = {}

    async def save(i):
        m = Mdl.Method(lines=[Mdl.MethodLine(id="1", content=tags[i]), Mdl.MethodLine(id="2", content="")],
                       version=bases[i], last_author=tags[i])
        try:
            v = await rig.ff.save_method(env.eid, m, Mdl.Contributor(id=tags[i], name=tags[i]))
            results[i] = ("accepted", v)
        except Exception as ex:  # the frontend route turns these into 4xx/5xx
            results[i] = ("rejected", type(ex).__name__)

    def sig():
        return (tuple(sorted(results)), len(script.calls), len(script.pending()), len(METHOD_EVENTS))

    async def stabilise():
        last, same = None, 0
        for _ in range(60):
            await asyncio.sleep(0)
            s = sig()
            same = same + 1 if s == last else 0
            last = s
            if same >= 2:
                return True
        return False

    def resolve(i):
        call = call_of.get(i)
        if call is None or call["future"].done():
            return False
        oc = OUTCOMES[outcomes[i]]
        if oc == "ok":
            call["future"].set_result(rpc_reply(M.SuccessMessage()))
        elif oc == "err_caller":
            call["future"].set_result(rpc_reply(M.ErrorMessage(message="engine refused", caller_error=True)))
        elif oc == "err_internal":
            call["future"].set_result(rpc_reply(M.ErrorMessage(message="engine failed", caller_error=False)))
        else:
            call["future"].set_exception(ConnectionError("opv: transport failure"))
        res.count("rpc_resolved")
        return True

    seen = set()
    version_before_done: dict[int, int] = {}
    stable = True
    for i in order:
        if i not in seen:
            seen.add(i)
            tasks[i] = asyncio.get_running_loop().create_task(save(i))
            res.count("saves_started")
        else:
            if i not in results:
                version_before_done[i] = ed.method.version
            if not resolve(i):
                res.count("schedule_points_without_pending_rpc")
        stable = await stabilise() and stable
    # drain (only needed for implementations that block somewhere else than on the round trip)
    for _ in range(4 * n):
        if len(results) == n:
            break
        for i in range(n):
            if i not in results:
                version_before_done.setdefault(i, ed.method.version)
                if resolve(i):
                    res.count("drained_after_schedule")
                stable = await stabilise() and stable
    script.on_issue = None
    res.count("rpc_issued", len(script.calls))
    if len(results) != n or not stable:
        # a save that never returns is a liveness problem the statement does not speak about, and a schedule that
        # cannot be completed decides nothing: crash the shard => INCONCLUSIVE (never 'held', never 'violated')
        for t in tasks.values():
            t.cancel()
        raise RuntimeError(f"C31 scheduler could not bring the saves to completion under order {order}, outcomes "
                           f"{outcomes}, bases {bases}: results={results}, pending rpc={len(script.pending())}")
    await rig.settle(2)

    # ------------------------------------------------------------------ oracle
    events = list(METHOD_EVENTS)            # the harness reset was cleared before the saves started
    res.count("method_set_events", len(events))
    final = ed.method.version
    accepted = [i for i in range(n) if results[i][0] == "accepted"]
    res.count("saves_accepted", len(accepted))
    res.count("saves_rejected", n - len(accepted))
    viol: list[tuple] = []
    rejected_with_effect: list[int] = []
    for i in range(n):
        ev = [e for e in events if e[2] == tags[i]]
        if results[i][0] == "rejected":
            if ev:
                rejected_with_effect.append(i)
            if bases[i] == V0 and OUTCOMES[outcomes[i]] == "ok":
                res.count("rejected_although_based_on_initial_version_and_rpc_ok")
            continue
        ret = results[i][1]
        if OUTCOMES[outcomes[i]] != "ok":
            res.count("accepted_although_engine_round_trip_failed")   # not part of the statement: counted only
        applied_old = ev[0][0] if ev else version_before_done.get(i)
        applied_new = ev[0][1] if ev else None
        symptoms = []
        if applied_old != bases[i]:
            symptoms.append(f"accepted on base {bases[i]} while the current version was {applied_old}")
        if ret != bases[i] + 1:
            symptoms.append(f"returned version {ret} for base {bases[i]}")
        if applied_new is not None and applied_new != applied_old + 1:
            symptoms.append(f"the accepted save moved the version {applied_old} -> {applied_new}")
        if not symptoms:
            continue
        if applied_old != bases[i]:
            if issue_version.get(i) == bases[i]:
                # causal shape of the known defect: the version matched when the round trip was issued (so the
                # pre-await check passed) and no longer matched when the result was applied
                mech = KNOWN
            else:
                mech = "C31.save_on_stale_version_accepted"
        else:
            mech = "C31.accepted_save_does_not_increment_by_one"
        lost = [tags[j] for j in accepted if j != i and results[j][1] == ret]
        viol.append((mech, f"n={n} order={order} outcomes={[OUTCOMES[o] for o in outcomes]} bases={bases}: save {i} "
                     + "; ".join(symptoms) + f"; rpc issued at version {issue_version.get(i)}; results={results}; "
                     f"final version {final}, final author {ed.method.lines[0].content}"
                     + (f"; same version also returned to {lost} (one of the texts is silently lost)" if lost else "")))
    # group / conservation rules as a hook-independent backstop
    by_base: dict[int, list[int]] = {}
    for i in accepted:
        by_base.setdefault(bases[i], []).append(i)
    dup = {b: l for b, l in by_base.items() if len(l) > 1}
    if dup and not viol:
        viol.append((None, f"two saves on the same base accepted {dup} under order {order}; results={results}"))
    if final != V0 + len(accepted) and not viol:
        # refused saves must leave the version alone (net effect; a roll-back would restore it)
        mech = "C31.rejected_save_changed_method" if rejected_with_effect else None
        viol.append((mech, f"final version {final} != {V0} + {len(accepted)} accepted saves; order {order} "
                     f"outcomes={[OUTCOMES[o] for o in outcomes]} bases={bases} results={results}; refused saves that "
                     f"assigned engine_data.method: {rejected_with_effect}"))
    if len(events) != len(accepted) and not viol:
        res.count("method_sets_differ_from_accepted_count")

    # ------------------------------------------------------------------ bookkeeping
    pos = {}
    for p, i in enumerate(order):
        pos.setdefault(i, []).append(p)
    overlap = any(pos[i][0] < pos[j][0] < pos[i][1] for i in range(n) for j in range(n) if i != j)
    cur = [i for i in range(n) if offs[i] == 0]
    ov_cur = any(pos[i][0] < pos[j][0] < pos[i][1] for i in cur for j in cur if i != j)
    if overlap:
        res.count("cases_with_overlapping_saves")
    if ov_cur:
        res.count("cases_with_overlapping_saves_on_current_version")
    res.case((n, order, outcomes, offs) if overlap else None,
             sample={"n": n, "order": list(order), "outcomes": [OUTCOMES[o] for o in outcomes], "bases": bases,
                     "results": {str(k): list(v) for k, v in sorted(results.items())}, "final_version": final,
                     "method_sets": events})
    for mech, msg in viol:
        res.violation(mech, msg, _jcase(case))


def _jcase(case):
    n, order, outcomes, offs = case
    return {"n": n, "order": list(order), "outcomes": list(outcomes), "offs": list(offs)}


# ======================================================================================================================
# client-boundary stratum: saves and reads go through the real HTTP routes (POST/GET /api/process_unit/{id}/method) of
# the real AggregatorServer application; only the engine end of the rpc channel is the harness. What is recorded is what
# a browser tab sees: the base version it sent, the status / version it got back, and what GET returns between events.
# The oracle is the sequential model of optimistic concurrency at that boundary (judge_http).

HTTP_EXHAUSTIVE_TEXT = {
    "quick": "HTTP boundary, 2 savers after w in {0,1,2} completed saves: all 6 orders x every pair of bases from "
             "{0..w+1} (all versions that ever existed, incl. 0, the current one and the next) x rpc outcomes "
             "{ok, caller-error}^2 (w<=1) / ok (w=2)",
    "thorough": "HTTP boundary, 2 savers after w in {0,1,2} completed saves: all 6 orders x every pair of bases from "
                "{0..w+1} x rpc outcomes {ok, caller-error}^2 (w<=1) / ok (w=2); 3 savers after w in {0,1}: all 90 orders "
                "x every triple of bases from {0..w+1}, all rpc ok",
}
HTTP_RANDOM = {"quick": 1400, "thorough": 24000}


def _explicit(w, order, bases, outcomes):
    steps: list = []
    for _ in range(w):
        steps += [["start", ["cur", 0]], ["reply", 0, 0]]
    seen = set()
    for i in order:
        if i not in seen:
            seen.add(i)
            steps.append(["start", ["abs", bases[i]]])
        else:
            steps.append(["reply_of", w + i, outcomes[i]])
    return {"kind": "http", "steps": steps}


def http_cases(tier, seed):
    cases = []
    for w in (0, 1, 2):
        for od in orders(2):
            for bases in itertools.product(range(0, w + 2), repeat=2):
                for oc in (itertools.product((0, 1), repeat=2) if w <= 1 else [(0, 0)]):
                    cases.append(_explicit(w, od, bases, oc))
    if tier != "quick":
        for w in (0, 1):
            for od in orders(3):
                for bases in itertools.product(range(0, w + 2), repeat=3):
                    cases.append(_explicit(w, od, bases, (0, 0, 0)))
    for j in range(HTTP_RANDOM[tier]):
        cases.append({"kind": "http", "rand": seed * 1000003 + j, "tier": tier})
    return cases


def _random_steps(rseed, tier, view):
    """online generator of one history: yields steps (or "DRAIN"); `view` is the runner's observed state"""
    import random
    rnd = random.Random(rseed)
    big = tier != "quick"
    max_savers = 6 if big else 5
    length = rnd.randint(3, 16 if big else 12)
    warm = rnd.choice((0, 0, 0, 1, 1, 2, 3))
    late = rnd.choice((0, 1, 1, 2))

    def base_spec(late_save=False):
        x = rnd.random()
        if late_save:
            return ["abs", 0] if x < 0.4 else ["seen", rnd.randrange(64)] if x < 0.8 else ["cur", 0]
        if x < 0.30:
            return ["cur", 0]
        if x < 0.55:
            return ["abs", 0]
        if x < 0.85:
            return ["seen", rnd.randrange(64)]
        if x < 0.95:
            return ["cur", 1]
        return ["cur", -1]

    def outcome():
        return 0 if rnd.random() < 0.65 else rnd.randrange(1, 4)

    for _ in range(warm):
        yield ["start", ["cur", 0]]
        yield ["reply", 0, 0]
    for _ in range(length):
        can_start = view["started"] < max_savers
        if view["offline"]:
            x = rnd.random()
            if x < 0.55:
                yield ["connect"]
            elif x < 0.9 and can_start:
                yield ["start", base_spec()]
            else:
                yield ["reply", rnd.randrange(4), outcome()]
            continue
        w_start = 40 if can_start else 0
        w_reply = 40 if view["pending"] else 4
        w_drop = 6
        x = rnd.random() * (w_start + w_reply + w_drop)
        if x < w_start:
            yield ["start", base_spec()]
        elif x < w_start + w_reply:
            yield ["reply", rnd.randrange(4), outcome()]
        else:
            yield ["drop"]
    yield "DRAIN"
    for _ in range(late):
        yield ["start", base_spec(True)]
        yield "DRAIN"


class HttpEnv:
    def __init__(self):
        from opv.rigs.frontend_rig import HttpRig
        install_method_hook()
        self.rig = HttpRig()
        self.n = 0

    async def setup(self):
        await self.rig.start()


FRESH = (0, None)      # (version, first line) of a freshly (re)registered process unit: Mdl.Method.empty()


async def run_http_history(env: HttpEnv, case, res: Result):
    import os
    import openpectus.protocol.messages as M
    from opv.rigs.frontend_rig import rpc_reply

    rig = env.rig
    env.n += 1
    computer = f"pc31h{os.getpid()}n{env.n}"
    eid = await rig.register(computer, "uod31")
    url = f"/api/process_unit/{eid}/method"
    hid = f"h{env.n}"
    st = {"ch": await rig.connect(eid), "offline": False}
    view = {"started": 0, "pending": 0, "offline": False}
    savers: list[dict] = []
    call_of: dict[int, dict] = {}
    issue_order: list[int] = []
    executed: list = []          # concrete, replayable steps
    acts: list = []              # per step: "drop" / "connect" / None (what the model applies at the start of the step)
    reads: list = []             # reads[k + 1] = GET after step k; reads[0] = GET before the first step
    seen: set[int] = {0}
    last_version = [0]

    def hook(ch):
        def on_issue(call):
            txt = json.dumps(call["msg"], default=str)
            for sv in savers:
                if sv["tag"] in txt:
                    call_of[sv["i"]] = call
                    call["saver"] = sv["i"]
                    issue_order.append(sv["i"])
        ch.script.on_issue = on_issue
    hook(st["ch"])

    async def read():
        r = await rig.client.get(url)
        if r.status_code == 404:
            obs = None
        elif r.status_code == 200:
            j = r.json()
            obs = (j["version"], j["lines"][0]["content"] if j["lines"] else None)
            seen.add(obs[0])
            last_version[0] = obs[0]
        else:
            raise RuntimeError(f"C31 http rig: GET {url} -> {r.status_code} {r.text[:200]}")
        res.count("http_reads")
        return obs

    async def post(sv):
        body = {"version": sv["base"], "last_author": "",
                "lines": [{"id": "1", "content": sv["tag"]}, {"id": "2", "content": ""}]}
        r = await rig.client.post(url, json=body)
        sv["status"] = r.status_code
        if r.status_code == 200:
            sv["acc"] = True
            sv["ret"] = r.json()["version"]

    def pending():
        return [] if st["ch"] is None else st["ch"].script.pending()

    def in_flight():
        return [sv for sv in savers if sv["resp"] is None]

    def resolve(call, oc):
        o = OUTCOMES[oc]
        if o == "ok":
            call["future"].set_result(rpc_reply(M.SuccessMessage()))
        elif o == "err_caller":
            call["future"].set_result(rpc_reply(M.ErrorMessage(message="engine refused", caller_error=True)))
        elif o == "err_internal":
            call["future"].set_result(rpc_reply(M.ErrorMessage(message="engine failed", caller_error=False)))
        else:
            call["future"].set_exception(ConnectionError("opv: transport failure"))
        res.count("http_rpc_resolved")
        if o != "ok":
            res.count("http_engine_replies_failed")

    async def step(spec):
        k = len(executed)
        act = None
        kind = spec[0]
        if kind == "start":
            how, arg = spec[1]
            if how == "abs":
                base = arg
            elif how == "cur":
                base = max(0, last_version[0] + arg)
            else:
                vs = sorted(seen)
                base = vs[arg % len(vs)]
            flying = in_flight()
            sv = {"i": len(savers), "base": base, "tag": f"opv-{hid}-save-{len(savers)}", "inv": k, "resp": None,
                  "acc": False, "ret": None, "status": None}
            # bookkeeping of the class of this save, from what the client side knows at this moment
            cur = last_version[0]
            done_acc = [s for s in savers if s["resp"] is not None and s["acc"] and s["epoch"] == st.get("epoch", 0)]
            sv["epoch"] = st.get("epoch", 0)
            if not st["offline"]:
                if pending():
                    res.count("http_saves_started_during_a_round_trip")
                    if base == cur:
                        res.count("http_saves_on_current_version_started_during_a_round_trip")
                if not flying and done_acc and base != cur:
                    res.count("http_late_stale_saves_after_completed_save")
                    if base == 0:
                        res.count("http_late_saves_based_on_version_0_after_completed_save")
                if base == cur and not flying:
                    res.count("http_saves_on_current_version_started_alone")
                if st.get("epoch", 0) > 0 and base > cur:
                    res.count("http_saves_after_reconnect_based_on_a_version_of_the_previous_session")
                if st.get("epoch", 0) > 0 and base == 0 and cur > 0:
                    res.count("http_stale_saves_based_on_version_0_after_reconnect")
            else:
                res.count("http_saves_started_while_engine_offline")
            savers.append(sv)
            sv["task"] = asyncio.get_running_loop().create_task(post(sv))
            view["started"] = len(savers)
            res.count("http_saves_started")
            executed.append(["start", ["abs", base]])
        elif kind in ("reply", "reply_of"):
            call = None
            if kind == "reply":
                p = pending()
                if p:
                    call = p[spec[1] % len(p)]
                    if call is not p[0]:
                        res.count("http_replies_out_of_issue_order")
            else:
                call = call_of.get(spec[1])
                if call is not None and call["future"].done():
                    call = None
            if call is None:
                res.count("http_reply_steps_without_pending_rpc")
                executed.append(["noop"])
            else:
                if any(sv["resp"] is None and call_of.get(sv["i"]) is None for sv in savers):
                    res.count("http_replies_delivered_while_another_save_waits")
                resolve(call, spec[2])
                executed.append(["reply_of", call["saver"], spec[2]])
        elif kind == "drop":
            if st["offline"]:
                executed.append(["noop"])
            else:
                if in_flight():
                    res.count("http_drops_with_saves_in_flight")
                await rig.drop(st["ch"])
                st["offline"] = view["offline"] = True
                st["ch"] = None
                act = "drop"
                res.count("http_engine_drops")
                executed.append(["drop"])
        elif kind == "connect":
            if not st["offline"]:
                executed.append(["noop"])
            else:
                if in_flight():
                    res.count("http_connects_with_saves_in_flight")
                eid2 = await rig.register(computer, "uod31")
                assert eid2 == eid
                st["ch"] = await rig.connect(eid)
                hook(st["ch"])
                st["offline"] = view["offline"] = False
                st["epoch"] = st.get("epoch", 0) + 1
                act = "connect"
                res.count("http_engine_reconnects")
                executed.append(["connect"])
        else:
            executed.append(["noop"])
        acts.append(act)
        if not await rig.quiesce():
            raise RuntimeError("C31 http rig: the application did not become quiescent")
        for sv in savers:
            if sv["resp"] is None and sv["task"].done():
                sv["task"].result()          # harness errors surface here
                sv["resp"] = k
                if sv["acc"]:
                    seen.add(sv["ret"])
        view["pending"] = len(pending())
        reads.append(await read())

    async def drain():
        for _ in range(4 * len(savers) + 6):
            if not in_flight():
                return
            if st["offline"]:
                await step(["connect"])
            elif pending():
                await step(["reply", 0, 0])
                res.count("http_drain_steps")
            else:
                break
        if in_flight():
            for sv in in_flight():
                sv["task"].cancel()
            raise RuntimeError(f"C31 http rig: saves never completed: steps={executed} "
                               f"saves={[(s['base'], s['status']) for s in savers]}")

    reads.append(await read())
    if reads[0] != FRESH:
        raise RuntimeError(f"C31 http rig: a freshly registered unit shows {reads[0]}, expected {FRESH}")
    if "steps" in case:
        for spec in case["steps"]:
            await step(spec)
        await drain()
    else:
        for spec in _random_steps(case["rand"], case.get("tier", "quick"), view):
            if spec == "DRAIN":
                await drain()
            else:
                await step(spec)
        await drain()
    # leave the server clean for the next history
    if not st["offline"]:
        await rig.drop(st["ch"])
        await rig.quiesce()

    hist = {"steps": executed, "acts": acts, "reads": reads,
            "saves": [{k: sv[k] for k in ("i", "base", "tag", "inv", "resp", "acc", "ret", "status")} for sv in savers]}
    for k, a in enumerate(acts):
        if a == "connect" and reads[k + 1] != FRESH and not any(s["inv"] <= k <= s["resp"] for s in hist["saves"]):
            raise RuntimeError(f"C31 http rig: after a reconnect the unit shows {reads[k + 1]}, expected {FRESH}")
    viol = judge_http(hist, res)
    n_acc = sum(1 for s in hist["saves"] if s["acc"])
    res.count("http_histories")
    res.count("http_saves_accepted", n_acc)
    res.count("http_saves_rejected", len(savers) - n_acc)
    if n_acc >= 2:
        res.count("http_histories_with_two_or_more_accepted_saves")
    if len(set(issue_order)) >= 2 and issue_order != sorted(issue_order):
        res.count("http_histories_engine_saw_saves_out_of_start_order")
    overlap = any(a["inv"] < b["inv"] <= a["resp"] for a in hist["saves"] for b in hist["saves"] if a is not b)
    if overlap:
        res.count("http_histories_with_overlapping_saves")
    stale_late = any(b["base"] != reads[b["inv"]][0] for b in hist["saves"] if reads[b["inv"]] is not None
                     and any(a["acc"] and a["resp"] < b["inv"] for a in hist["saves"]))
    nontrivial = overlap or stale_late or any(acts)
    res.case(("http", executed) if nontrivial else None,
             sample={"http_steps": executed, "saves": [[s["base"], s["status"], s["ret"]] for s in hist["saves"]],
                     "reads": [list(r) if r else None for r in reads]})
    for mech, msg in viol:
        res.violation(mech, msg, {"kind": "http", "steps": executed})


def judge_http(hist, res: Result | None = None):
    """Sequential model at the client boundary. State: offline | (version, first line). A save takes effect at one
    instant between its request and its response (steps inv..resp); an ACCEPTED save needs state.version == base at
    that instant, returns base + 1 and leaves (base + 1, its text); a REJECTED save is a no-op whenever it happens (the
    statement is 'only if': nothing is demanded about which saves get rejected). drop / connect apply at the start
    of their step; the GET after every step must show exactly the model state. The history is explained iff some
    choice of instants and orders satisfies all of that; the search keeps the set of reachable model states per
    step. Returns [(mechanism, message)] (empty = explained)."""
    steps, acts, reads, saves = hist["steps"], hist["acts"], hist["reads"], hist["saves"]
    acc = [s for s in saves if s["acc"]]
    out: list[tuple] = []

    def render():
        sv = "; ".join(f"save{s['i']}(base {s['base']}, steps {s['inv']}..{s['resp']}) -> "
                       + (f"accepted v{s['ret']}" if s["acc"] else f"rejected {s['status']}") for s in saves)
        rd = [("offline" if r is None else f"v{r[0]}:{r[1]}") for r in reads]
        return f"steps={steps} | {sv} | GET before/after each step: {rd}"

    # ---- clauses that need no search (clearer messages); the model below subsumes them
    stale = []
    for s in acc:
        window = reads[s["inv"]: s["resp"] + 2]           # GET before the start step .. GET after the response step
        reset = any(a for a in acts[s["inv"]: s["resp"] + 1])
        vs = [r[0] for r in window if r is not None]
        if not reset and vs and not (min(vs) <= s["base"] <= max(vs)):
            stale.append((s, vs))
    for s, vs in stale:
        out.append(("C31.save_on_stale_version_accepted",
                    f"HTTP boundary: save{s['i']} based on version {s['base']} was accepted (returned {s['ret']}) although "
                    f"the method version was {sorted(set(vs))} from before its request to after its response | " + render()))
    if not out:
        for s in acc:
            if s["ret"] != s["base"] + 1:
                out.append(("C31.accepted_save_does_not_increment_by_one",
                            f"HTTP boundary: save{s['i']} based on version {s['base']} was accepted as version {s['ret']} | "
                            + render()))
    # ---- the model
    states = {(reads[0] is not None, reads[0][0] if reads[0] else None, reads[0][1] if reads[0] else None, frozenset())}
    explored = 0
    failed_at = None
    for k in range(len(steps)):
        cand = [s for s in acc if s["inv"] <= k <= s["resp"]]
        must = frozenset(s["i"] for s in cand if s["resp"] == k)
        obs = reads[k + 1]
        nxt = set()
        stack = []
        for (on, v, c, done) in states:
            if acts[k] == "drop":
                on, v, c = False, None, None
            elif acts[k] == "connect":
                on, v, c = True, FRESH[0], FRESH[1]
            stack.append((on, v, c, done))
        visited = set()
        while stack:
            stt = stack.pop()
            if stt in visited:
                continue
            visited.add(stt)
            on, v, c, done = stt
            if must <= done and ((obs is None and not on) or (obs is not None and on and obs == (v, c))):
                nxt.add(stt)
            if on:
                for s in cand:
                    if s["i"] not in done and s["base"] == v and s["ret"] == v + 1:
                        stack.append((True, v + 1, s["tag"], done | {s["i"]}))
        explored += len(visited)
        if not nxt:
            failed_at = k
            break
        states = nxt
    if res is not None:
        res.count("http_model_states_explored", explored)
        res.count("http_histories_judged_by_serial_model")
    if failed_at is not None and not out:
        k = failed_at
        rej_tags = {s["tag"] for s in saves if not s["acc"]}
        obs = reads[k + 1]
        if obs is not None and obs[1] in rej_tags:
            mech = "C31.rejected_save_changed_method"
            why = f"the GET after step {k} shows the text of a rejected save"
        elif len({s["base"] for s in acc}) < len(acc) and not any(acts):
            mech = None
            same = {}
            for s in acc:
                same.setdefault(s["base"], []).append(s["i"])
            why = f"saves based on the same version were both accepted: { {b: l for b, l in same.items() if len(l) > 1} }"
        else:
            mech = None
            why = f"no serial order of the accepted saves explains the GET after step {k}"
            vs = {x[1] for x in visited if x[0]}
            late = [s for s in acc if s["resp"] == k and s["base"] not in vs]
            if late:
                mech = "C31.save_on_stale_version_accepted"
                why = ("; ".join(f"save{s['i']} based on version {s['base']} was accepted (returned {s['ret']})" for s in late)
                       + f" but had to take effect by step {k}, where the method version could only be {sorted(vs)}")
        out.append((mech, f"HTTP boundary: {why} (model states before step {k}: "
                          f"{sorted(((s[1], s[2]) for s in states if s[0]), key=str)[:4]}) | " + render()))
    return out

def run_shard(spec):
    from opv.rigs.frontend_rig import run
    res = Result()
    cases = all_cases(spec["tier"])
    k = spec["of"]
    mine = [c for idx, c in enumerate(cases) if (idx + spec.get("rot", 0)) % k == spec["shard"]]
    env = Env()

    async def main():
        await env.setup()
        for c in mine:
            await run_case(env, c, res)
    try:
        run(main)
    finally:
        env.rig.close()
    # client-boundary stratum: same shard, after the direct-call rig is gone (both configure the global database module)
    hcases = http_cases(spec["tier"], spec["seed"])
    hmine = [c for idx, c in enumerate(hcases) if (idx + spec.get("rot", 0)) % k == spec["shard"]]
    try:
        run_http_cases(hmine, res)
    except Exception as ex:
        # a harness assumption of the HTTP rig broke. Violations already witnessed by this shard stand (run_check ranks
        # 'violated' above 'inconclusive' anyway); without any, the shard crashes => INCONCLUSIVE
        if not res.violations:
            raise
        res.notes.append(f"HTTP stratum of shard {spec['shard']} aborted after violations were recorded: {ex!r}"[:300])
    if spec["shard"] == 0:
        res.exhaustive_parts.append(
            "n=2: all 6 orders x 4^2 rpc outcomes x 3^2 base patterns" + (
                "; n=3: all 90 orders x 4^3 outcomes (bases all current) and all 90 orders x 3^3 base patterns (all rpc ok)"
                if spec["tier"] == "quick" else "; n=3: all 90 orders x 4^3 rpc outcomes x 3^3 base patterns"))
        res.exhaustive_parts.append(HTTP_EXHAUSTIVE_TEXT[spec["tier"]])
    return res


def run_http_cases(cases, res: Result):
    from opv.rigs.frontend_rig import run
    if not cases:
        return
    env = HttpEnv()

    async def main():
        await env.setup()
        try:
            for c in cases:
                await run_http_history(env, c, res)
        finally:
            await env.rig.aclose()
    try:
        run(main)
    finally:
        env.rig.close()


def replay(case):
    from opv.rigs.frontend_rig import run
    res = Result()
    if case.get("kind") == "http":
        run_http_cases([case], res)
        return res
    env = Env()
    c = (case["n"], tuple(case["order"]), tuple(case["outcomes"]), tuple(case["offs"]))

    async def main():
        await env.setup()
        await run_case(env, c, res)
    try:
        run(main)
    finally:
        env.rig.close()
    return res
