"""C19 - Method analysis never crashes and flags undefined names.

The editor's analysis entry point (openpectus.lsp.lsp_analysis.analyze with tags/commands built by build_tags /
build_commands from a UodDefinition) is run on corrupted grammar texts x generated tag/command sets; a reference
reading of every source line decides where an ERROR item is owed (see DESIGN.md C19)."""
from __future__ import annotations

import random
import re
import traceback

from opv.core import Result, h

ID = "C19"
LEVEL = "exploration"
TECHNIQUE = "runtime monitoring: totality + per-line 'error owed' oracle over the items returned by the real lsp analysis"
RULE = ("P-code from opv.gen_pcode.Gen over a drawn tag set / UOD command set, then a corruption layer: tag names in "
        "Watch/Alarm/Simulate/Simulate off and instruction names (including Watch/Alarm/Simulate/Simulate off themselves) "
        "replaced by wrong names of class {edit distance 1, far (no similar name), length <= 2, empty, pure re-casing "
        "(upper, lower, swapcase, title, capitalize, one or two single-letter case flips - same letters, so similar or "
        "dissimilar to the defined name depending on how many letters change case)}, conditions truncated (no value / no operator / no argument / no colon), "
        "used tags or commands removed from the sets, indentation perturbed, garbage and unicode lines inserted; tag set "
        "and command set may be empty. A quarter of the cases come from the wide-length stratum: flat/one-level texts whose "
        "unknown and known instruction, tag, macro, block and mark names have lengths 1..120 (letters only, sentences of "
        "words, sentences with punctuation, words with non-ASCII characters, one letter repeated; e.g. a comment whose '#' "
        "was forgotten so that the whole raw line is the instruction name; also edit-distance-1 near misses of the given "
        "names), against tag sets and command sets of the classes {empty, a single 1-character name, 1..3-character names "
        "only, 45..120-character names only, typical, typical plus very long names, 2..30 names of mixed lengths, 120..300 "
        "names}; outside the typical classes the published command set may lack the structural names too. The wide names "
        "are also one wrong-name class of the corruption layer. Every wide case and a tenth of the others is run through "
        "lsp_analysis.lint as well. distinct = (kinds of owed errors with their name class [wide: and the length of "
        "the name relative to the given names], shape hash of the text); "
        "non-trivial = at least one owed error of any class in the text")
ASSUMPTIONS = [
    "openpectus.aggregator.deps (DI accessor of the running aggregator, unused by the functions under test) is replaced "
    "by a stub module before lsp_analysis is imported",
    "analysis is invoked exactly as the editor does: lsp_analysis.analyze(AnalysisInput(build_commands(def), "
    "build_tags(def)), document) -> ParserMethod.from_pcode, create_method_parser(method, uod_command_names=[]), "
    "SemanticCheckAnalyzer(tags, commands).analyze",
    "the structural instruction names (Watch, Alarm, Block, End block(s), Mark, Macro, Call macro, Batch, Simulate, "
    "Simulate off, Notify) are grammar keywords that are never owed an 'undefined command' error, whether the given "
    "command set lists them (the engine always publishes them; all cases outside the wide-length stratum) or not; every "
    "other name, including Stop/Pause/Wait/Base..., may be missing from the set and is then an undefined command",
    "lsp_analysis.lint is invoked with a stand-in for fetch_uod_info (the aggregator lookup) that returns the case's "
    "UodDefinition and with create_analysis_input's cache cleared; the document is an object with .source/.version; "
    "lint is judged by: it returns, it holds no 'Parse error' diagnostic (the generic one that replaces all others when "
    "the analysis raised), and an Error-severity diagnostic starts on every owed line",
    "'on that line' = an ERROR item whose node is the node of that line (or whose range starts on that line); any ERROR "
    "item satisfies the oracle (an indentation error on the same line counts)",
    "tag and command names are case sensitive (TagValueCollection.has / CommandCollection.has are dict-key lookups and "
    "the engine resolves names the same way), so a re-cased name is an undefined name and is owed an ERROR like any other",
    "not judged: lines whose first non-blank character is not an ASCII letter or underscore (threshold/name ambiguity, "
    "unparsable lines), conditions with more than one operator run or an invalid operator run, incomplete Simulate "
    "assignments (the statement speaks of conditions)",
]
REQUIRED = {"analyses": 1500, "owed_undefined_tag": 300, "owed_undefined_command": 300, "owed_incomplete_condition": 200,
            "owed_checked": 800, "wrong_name_distance1": 100, "wrong_name_far": 100, "wrong_name_short": 100,
            "wrong_name_empty": 50, "empty_tag_set": 10, "empty_uod_command_set": 10,
            "wrong_name_recase": 300, "recased_tag_names": 100, "recased_command_names": 300,
            "recased_condition_instruction_names": 50,
            "owed_undefined_tag_recased_dissimilar": 30, "owed_undefined_tag_recased_similar": 50,
            "owed_undefined_command_recased_dissimilar": 100, "owed_undefined_command_recased_similar": 100,
            # wide-length stratum: unknown names far longer / shorter than every name the analyzer was given
            "wide_analyses": 800, "wide_unknown_names": 2500, "wide_near_miss_names": 300, "wrong_name_wide": 100,
            "wide_no_command_given_at_all": 30,
            **{f"wide_{what}_set_{c}": 60 for what in ("command", "tag") for c in
               ("empty", "single_1_char_name", "short_names_only", "very_long_names_only", "typical",
                "typical_plus_very_long", "mixed_lengths", "huge")},
            "owed_undefined_command_much_longer_than_all_defined": 300,
            "owed_undefined_command_much_shorter_than_all_defined": 80, "owed_undefined_command_no_defined_name": 100,
            "owed_undefined_tag_much_longer_than_all_defined": 200, "owed_undefined_tag_much_shorter_than_all_defined": 50,
            "owed_undefined_tag_no_defined_name": 250,
            "owed_undefined_command_len_13_40": 400, "owed_undefined_command_len_41_120": 300,
            "owed_undefined_tag_len_13_40": 300, "owed_undefined_tag_len_41_120": 250,
            "owed_undefined_command_sentence_with_punctuation": 300, "owed_undefined_tag_sentence_with_punctuation": 250,
            "owed_undefined_command_non_ascii": 100, "owed_undefined_tag_non_ascii": 80,
            "lint_runs": 800, "lint_owed_checked": 3000}

STRUCTURAL = ["Watch", "Alarm", "Block", "End block", "End blocks", "Mark", "Macro", "Call macro", "Batch", "Simulate",
              "Simulate off", "Notify"]
ENGINE_CMDS = ["Stop", "Pause", "Unpause", "Hold", "Unhold", "Restart", "Info", "Warning", "Error", "Base",
               "Increment run counter", "Run counter", "Wait"]
TAG_POOL = [("X", None), ("FT01", "L/h"), ("TT01", "degC"), ("Run Counter", None), ("Block Time", "s"),
            ("Column pressure", "bar"), ("pH", None), ("Base", None), ("Conductivity", "mS/cm"), ("Level", "%"),
            ("AB", None), ("T", None), ("Process Time", "s")]
UOD_POOL = ["Short", "Long", "Long2", "Other", "Set1", "Set2", "Mode", "Inlet valve", "Go", "PU01 speed"]
UOD_ARGS = {"Set1": ["3", "5"], "Set2": ["2.5 L/h", "4 L/h", "x"], "Mode": ["A", "B", "C"], "PU01 speed": ["10 %", "50"]}
WATCH_OPS = {"<", "<=", ">", ">=", "=", "==", "!="}


# ------------------------------------------------------------------------------------------------ reference reading
def ref_line(line: str):
    s = line.strip()
    if not s or s.startswith("#"):
        return None
    if not re.match(r"(\d+(\.\d+)?\s)?[A-Za-z_]", s):
        return ("unjudged",)
    body = line.split("#", 1)[0]
    m = re.match(r"\s*(?:\d+(?:\.\d+)?\s)?(?P<name>[^:]*)(?::(?P<arg>.*))?$", body, re.S)
    return ("instr", m["name"].strip(), m["arg"])


def ref_cond(arg, ops):
    a = (arg or "").strip()
    if a == "":
        return ("empty",)
    runs = re.findall(r"[<>=!]+", a)
    if not runs:
        return ("noop", a)
    if len(runs) > 1 or runs[0] not in ops:
        return ("ambiguous",)
    lhs, rhs = a.split(runs[0])
    return ("cond", lhs.strip(), runs[0], rhs.strip())


def owed_errors(text: str, tag_names: set, cmd_names: set):
    """[(line index, kind, name)] - lines on which the statement demands an ERROR item."""
    out = []
    amb = 0
    for k, line in enumerate(text.splitlines()):
        r = ref_line(line)
        if r is None:
            continue
        if r[0] == "unjudged":
            amb += 1
            continue
        _, name, arg = r
        if name in ("Watch", "Alarm"):
            c = ref_cond(arg, WATCH_OPS)
            if c[0] == "ambiguous":
                amb += 1
            elif c[0] in ("empty", "noop") or c[1] == "" or c[3] == "":
                out.append((k, "incomplete_condition", c[1] if c[0] == "noop" else ""))
            elif c[1] not in tag_names:
                out.append((k, "undefined_tag", c[1]))
        elif name == "Simulate":
            c = ref_cond(arg, {"="})
            if c[0] == "ambiguous":
                amb += 1
            elif c[0] in ("noop", "cond") and c[1] != "" and c[1] not in tag_names:
                out.append((k, "undefined_tag", c[1]))
        elif name == "Simulate off":
            t = (arg or "").strip()
            if t != "" and t not in tag_names:
                out.append((k, "undefined_tag", t))
        elif name not in cmd_names:
            out.append((k, "undefined_command", name))
    return out, amb


# ------------------------------------------------------------------------------------------------ rig
_L = None


def lsp():
    global _L
    if _L is None:
        # lsp_analysis imports openpectus.aggregator.deps (the whole aggregator: fastapi, sqlalchemy, ...) only for the
        # fetch_* helpers, which analyze/build_tags/build_commands never call. A stub keeps shard start-up cheap.
        import sys
        import types
        if "openpectus.aggregator.deps" not in sys.modules:
            import openpectus.aggregator  # noqa: F401  (empty package)
            stub = types.ModuleType("openpectus.aggregator.deps")
            stub.get_aggregator = lambda: None
            sys.modules["openpectus.aggregator.deps"] = stub
        import openpectus.lsp.lsp_analysis as L
        import openpectus.protocol.models as M
        from openpectus.lang.exec.uod import RegexNamedArgumentParser
        import openpectus.lang.exec.regex as rx
        from openpectus.lang.exec.argument_specification import ArgSpec
        _L = (L, M, RegexNamedArgumentParser, rx, ArgSpec)
    return _L


class Doc:
    version = 1

    def __init__(self, source):
        self.source = source


def build_definition(tags, uod_cmds, engine_cmds, sys_cmds=None):
    """UodDefinition as the aggregator holds it. sys_cmds, when given, is the complete list of system command names
    (wide-length stratum: the published set may be anything, also without the structural names)."""
    L, M, RNAP, rx, ArgSpec = lsp()

    def ser(regex):
        return RNAP(regex=regex).serialize()
    uod_val = {"Set2": ser(rx.RegexNumber(units=["L/h"])), "Mode": ser(rx.RegexCategorical(exclusive_options=["A", "B"])),
               "PU01 speed": ser(rx.RegexNumber(units=["%"]))}
    sys_val = {"Base": ser(rx.REGEX_BASE_ARG), "Wait": ser(rx.REGEX_DURATION), "Run counter": ser(rx.REGEX_INT),
               "Pause": ser(rx.REGEX_DURATION_OPTIONAL), "Hold": ser(rx.REGEX_DURATION_OPTIONAL)}
    for nm in ("Increment run counter", "End block", "End blocks", "Stop", "Restart"):
        sys_val[nm] = ser(ArgSpec.NoArgsInstance.regex)
    d = M.UodDefinition(
        commands=[M.CommandDefinition(name=n, validator=uod_val.get(n), docstring=None) for n in uod_cmds],
        system_commands=[M.CommandDefinition(name=n, validator=sys_val.get(n), docstring="")
                         for n in (STRUCTURAL + engine_cmds if sys_cmds is None else sys_cmds)],
        tags=[M.TagDefinition(name=n, unit=u) for n, u in tags])
    return d


def build_input(tags, uod_cmds, engine_cmds, sys_cmds=None):
    L = lsp()[0]
    d = build_definition(tags, uod_cmds, engine_cmds, sys_cmds)
    return L.AnalysisInput(L.build_commands(d), L.build_tags(d), "opv")


def similar(name, names):
    from Levenshtein import ratio
    return max([ratio(name, n) for n in names], default=0.0)


def len_relation(nm, names):
    """Length of an undefined name relative to the names the analyzer was given."""
    if not names:
        return "no_defined_name"
    if len(nm) > 2 * max(len(n) for n in names):
        return "much_longer_than_all_defined"
    if len(nm) > 2 and 2 * len(nm) < min(len(n) for n in names):
        return "much_shorter_than_all_defined"
    return "of_comparable_length"


def len_bucket(nm):
    n = len(nm)
    return "len_1_2" if n <= 2 else "len_3_12" if n <= 12 else "len_13_40" if n <= 40 else "len_41_120"


def check_case(case, res: Result):
    L = lsp()[0]
    from openpectus.lang.exec.analyzer import AnalyzerItemType
    text = case["text"]
    tags = [tuple(t) for t in case["tags"]]
    sys_cmds = case.get("sys_cmds")
    inp = build_input(tags, case["uod_cmds"], case["engine_cmds"], sys_cmds)
    tag_names = {t[0] for t in tags}
    given_cmds = set(STRUCTURAL + case["engine_cmds"] if sys_cmds is None else sys_cmds) | set(case["uod_cmds"])
    # the structural instruction names are grammar keywords: never owed an 'undefined command' error, given or not
    cmd_names = set(STRUCTURAL) | given_cmds
    wide = bool(case.get("wide"))
    owed, amb = owed_errors(text, tag_names, cmd_names)
    res.count("analyses")
    res.count("ambiguous_lines_not_judged", amb)
    if not tags:
        res.count("empty_tag_set")
    if not case["uod_cmds"]:
        res.count("empty_uod_command_set")
    if wide:
        res.count("wide_analyses")
        res.count("wide_command_set_" + case["cmd_set_class"])
        res.count("wide_tag_set_" + case["tag_set_class"])
        if not given_cmds:
            res.count("wide_no_command_given_at_all")
    for _, kind, nm in owed:
        res.count("owed_" + kind)
        if kind != "incomplete_condition":
            given = tag_names if kind == "undefined_tag" else given_cmds
            nc = name_class(nm, tag_names if kind == "undefined_tag" else cmd_names)
            if nc.startswith("recased"):
                res.count(f"owed_{kind}_{nc}")
            res.count(f"owed_{kind}_{len_relation(nm, given)}")
            res.count(f"owed_{kind}_{len_bucket(nm)}")
            if " " in nm and re.search(r"[^\w\s]", nm):
                res.count(f"owed_{kind}_sentence_with_punctuation")
            if not nm.isascii():
                res.count(f"owed_{kind}_non_ascii")
    lines = text.splitlines()
    key = None
    if owed:
        key = h([sorted({(kind, name_class(nm, tag_names if kind != "undefined_command" else cmd_names),
                          len_relation(nm, tag_names if kind == "undefined_tag" else given_cmds) if wide else "")
                         for _, kind, nm in owed}),
                 _shape(text)])
    try:
        result = L.analyze(inp, Doc(text))
    except Exception as ex:
        tb = traceback.extract_tb(ex.__traceback__)
        res.count("analysis_raised")
        res.violation(classify_raise(ex, tb, tag_names), f"analysis raised {type(ex).__name__}: {ex} (in "
                      f"{' > '.join(f.name for f in tb[-3:])})"[:400], case)
        res.case(key, sample={"text": text, "tags": sorted(tag_names), "raised": str(ex)[:100]})
        return
    err_lines = set()
    nodes = result.program.get_all_nodes()[1:]
    line_of = {id(n): k for k, n in enumerate(nodes)}
    for it in result.items:
        if it.type == AnalyzerItemType.ERROR:
            if it.node is not None and id(it.node) in line_of:
                err_lines.add(line_of[id(it.node)])
            else:
                err_lines.add(it.range.start.line)
    for k, kind, nm in owed:
        res.count("owed_checked")
        if k not in err_lines:
            res.violation(classify_missing(kind, nm, lines[k], tag_names, cmd_names),
                          f"line {k} {lines[k]!r}: {kind.replace('_', ' ')} {nm!r} but no ERROR item on that line "
                          f"(tags {sorted(tag_names)})"[:400], case)
    if wide or case.get("lint"):
        check_lint(case, owed, lines, tags, sys_cmds, tag_names, cmd_names, res)
    res.case(key, sample={"text": text, "tags": sorted(tag_names), "uod_cmds": case["uod_cmds"],
                          "owed": [(k, kind, nm) for k, kind, nm in owed][:8]})


def check_lint(case, owed, lines, tags, sys_cmds, tag_names, cmd_names, res: Result):
    """The editor path proper: lsp_analysis.lint(document, engine_id) with the UOD definition served by a stand-in for
    the aggregator lookup. lint() turns an exception of the analysis into ONE 'Parse error' diagnostic that replaces
    every other diagnostic - which is exactly what the statement forbids ('the editor keeps showing all other
    diagnostics'). Judged: lint returns, no 'Parse error' diagnostic, an Error diagnostic starts on every owed line."""
    L = lsp()[0]
    import logging
    from pylsp.lsp import DiagnosticSeverity
    d = build_definition(tags, case["uod_cmds"], case["engine_cmds"], sys_cmds)
    saved = L.fetch_uod_info
    L.create_analysis_input.cache_clear()
    L.fetch_uod_info = lambda engine_id: d
    prev = logging.root.manager.disable
    logging.disable(logging.CRITICAL)
    res.count("lint_runs")
    try:
        diags = L.lint(Doc(case["text"]), "opv")
    except Exception as ex:
        tb = traceback.extract_tb(ex.__traceback__)
        res.violation(None, f"lsp lint raised {type(ex).__name__}: {ex} (in {' > '.join(f.name for f in tb[-3:])})"[:400], case)
        return
    finally:
        logging.disable(prev)
        L.fetch_uod_info = saved
        L.create_analysis_input.cache_clear()
    parse_error = [x for x in diags if x["code"] == "Parse error" and str(x["message"]).startswith("Syntax error: ")]
    if parse_error:
        res.count("lint_degraded_to_parse_error")
        res.violation(None, f"lsp lint degraded to the single generic diagnostic {parse_error[0]['message'][:200]!r}: every "
                            f"other diagnostic of the method is lost ({len(owed)} owed errors)"[:400], case)
        return
    err_lines = {x["range"]["start"]["line"] for x in diags if x["severity"] == DiagnosticSeverity.Error}
    for k, kind, nm in owed:
        res.count("lint_owed_checked")
        if k not in err_lines:
            res.violation(classify_missing(kind, nm, lines[k], tag_names, cmd_names), f"lsp lint: line {k} {lines[k]!r}: {kind.replace('_', ' ')} {nm!r} but no Error diagnostic "
                                f"starts on that line"[:400], case)


def name_class(nm, names):
    if nm == "":
        return "empty"
    if len(nm) <= 2:
        return "short"
    if nm not in names and nm.lower() in {n.lower() for n in names}:
        return "recased_similar" if similar(nm, names) > 0.7 else "recased_dissimilar"
    return "similar" if names and similar(nm, names) > 0.7 else "far"


def _shape(text):
    return [re.sub(r"[0-9]+", "N", ln.split(":")[0])[:20] for ln in text.splitlines()][:30]


def classify_raise(ex, tb, tag_names):
    """C19.unknown_dissimilar_tag_raises_in_{condition,simulate}_check: ValueError('Tag name <t> not found') raised by
    TagValueCollection.get called from ConditionCheckAnalyzer.analyze_condition / SimulateCheckAnalyzer.visit_SimulateNode
    for a tag name longer than two characters that is not in the (non-empty) tag set and has no similar name there."""
    m = re.fullmatch(r"Tag name (.*) not found", str(ex), re.S)
    if not isinstance(ex, ValueError) or not m or not tb or tb[-1].name != "get":
        return None
    t = m.group(1)
    callers = [f.name for f in tb]
    if t not in tag_names and t.lower() in {n.lower() for n in tag_names} and len(t) > 2 and similar(t, tag_names) <= 0.7:
        # the undefined name is a pure re-casing of a defined tag name that is not similar to it case-sensitively
        if "analyze_condition" in callers[-2:]:
            return "C19.recased_dissimilar_tag_raises_in_condition_check"
        if "visit_SimulateNode" in callers[-2:]:
            return "C19.recased_dissimilar_tag_raises_in_simulate_check"
        return None
    if len(t) <= 2 or t in tag_names or not tag_names or similar(t, tag_names) > 0.7:
        return None
    if "analyze_condition" in callers[-2:]:
        return "C19.unknown_dissimilar_tag_raises_in_condition_check"
    if "visit_SimulateNode" in callers[-2:]:
        return "C19.unknown_dissimilar_tag_raises_in_simulate_check"
    return None


def classify_missing(kind, nm, line, tag_names, cmd_names):
    """C19.simulate_off_unknown_dissimilar_tag_not_reported: 'Simulate off: <t>' with t longer than two characters, not
    in the non-empty tag set and without a similar name -> no item at all."""
    r = ref_line(line)
    names = tag_names if kind == "undefined_tag" else cmd_names
    if kind != "incomplete_condition" and nm not in names and nm.lower() in {n.lower() for n in names} and len(nm) > 2 \
            and similar(nm, names) <= 0.7:
        # a re-casing that the case-sensitive similarity test does not regard as a typo of the defined name
        return ("C19.recased_dissimilar_tag_not_reported" if kind == "undefined_tag"
                else "C19.recased_dissimilar_command_not_reported")
    if kind == "undefined_tag" and r and r[0] == "instr" and r[1] == "Simulate off" and len(nm) > 2 and tag_names \
            and similar(nm, tag_names) <= 0.7:
        return "C19.simulate_off_unknown_dissimilar_tag_not_reported"
    return None


# ------------------------------------------------------------------------------------------------ workload
LETTERS = "abcdefghijklmnopqrstuvwxyzABCDEFGHIJKLMNOPQRSTUVWXYZ0123456789 _"


def wrong_name(rnd: random.Random, name: str, cls: str) -> str:
    if cls == "distance1":
        if not name:
            return rnd.choice(LETTERS[:52])
        i = rnd.randrange(len(name))
        op = rnd.choice(["del", "ins", "sub", "swap", "case"])
        if op == "del" and len(name) > 1:
            return name[:i] + name[i + 1:]
        if op == "ins":
            return name[:i] + rnd.choice(LETTERS[:52]) + name[i:]
        if op == "swap" and len(name) > 1:
            i = min(i, len(name) - 2)
            return name[:i] + name[i + 1] + name[i] + name[i + 2:]
        if op == "case" and name[i].isalpha():
            return name[:i] + name[i].swapcase() + name[i + 1:]
        return name[:i] + rnd.choice(LETTERS[:52]) + name[i + 1:]
    if cls == "recase":
        return recase(rnd, name)
    if cls == "far":
        return rnd.choice(["Zzqqxv", "Qwertyuiop", "Kjhgfdsa mnb", "Vvvvvvvvvv", "Undefined thing 77", "Xyzzyx"]) + \
            rnd.choice(["", "", str(rnd.randint(0, 99))])
    if cls == "short":
        return rnd.choice(["q", "Zz", "j7", "k", "QQ", "a"])
    if cls == "wide":
        return wide_name(rnd)
    return ""


RECASE_OPS = ("upper", "lower", "swapcase", "title", "capitalize", "flip1", "flip2")


def recase(rnd: random.Random, name: str) -> str:
    """A pure re-casing of `name` (same letters, different case): names are case sensitive, so the result is a
    different - normally undefined - name whose case-insensitive distance to a defined name is 0."""
    ops = list(RECASE_OPS)
    rnd.shuffle(ops)
    for op in ops:
        if op.startswith("flip"):
            idx = [i for i, ch in enumerate(name) if ch.swapcase() != ch]
            if not idx:
                continue
            new = list(name)
            for i in rnd.sample(idx, min(len(idx), int(op[4:]))):
                new[i] = new[i].swapcase()
            new = "".join(new)
        else:
            new = getattr(name, op)()
        if new != name:
            return new
    return name          # no cased letter in the name: nothing to re-case (the line stays as it is)


def corrupt(rnd: random.Random, text: str, res: Result, allow_far: bool) -> str:
    out = []
    classes = ["distance1", "short", "empty", "recase"] + (["far", "far", "wide"] if allow_far else [])
    for ln in text.split("\n"):
        r = rnd.random()
        m = re.match(r"(\s*(?:\d+(?:\.\d+)?\s)?)([^:#]*)(:\s?)?(.*)$", ln, re.S)
        if not ln.strip() or ln.strip().startswith("#") or not m:
            out.append(ln)
            continue
        pre, name, colon, rest = m.group(1), m.group(2), m.group(3) or "", m.group(4)
        if name in ("Watch", "Alarm", "Simulate", "Simulate off") and r < 0.30:
            cls = rnd.choice(classes)
            res.count("wrong_name_" + cls)
            if name == "Simulate off":
                old = rest.strip()
                new = rest = wrong_name(rnd, old, cls)
            else:
                mm = re.match(r"([^<>=!]*)(.*)$", rest, re.S)
                old = mm.group(1).strip()
                new = wrong_name(rnd, old, cls)
                rest = new + " " + mm.group(2)
            if cls == "recase" and new != old:
                res.count("recased_tag_names")
            ln = pre + name + colon + rest
        elif name in ("Watch", "Alarm", "Simulate") and r < 0.45:
            mm = re.match(r"([^<>=!]*)([<>=!]*)(.*)$", rest, re.S)
            how = rnd.choice(["novalue", "noop", "noarg", "nocolon", "notag", "onlyop"])
            res.count("truncated_condition")
            ln = pre + name + {"novalue": colon + mm.group(1) + mm.group(2), "noop": colon + mm.group(1),
                               "noarg": colon, "nocolon": "", "notag": colon + mm.group(2) + mm.group(3),
                               "onlyop": colon + mm.group(2)}[how]
        elif name in ("Watch", "Alarm", "Simulate", "Simulate off") and r < 0.50:
            # the instruction name itself re-cased ("watch: X > 1", "SIMULATE OFF: X"): an undefined command
            res.count("wrong_name_recase")
            nm = recase(rnd, name)
            res.count("recased_command_names")
            res.count("recased_condition_instruction_names")
            ln = pre + nm + colon + rest
        elif r < 0.12:
            cls = rnd.choice(classes)
            res.count("wrong_name_" + cls)
            nm = wrong_name(rnd, name, cls)
            if cls == "recase" and nm != name:
                res.count("recased_command_names")
            ln = pre + nm + colon + rest
        elif r < 0.16:
            ln = " " * rnd.randint(0, 9) + ln.lstrip(" ")
        out.append(ln)
        if rnd.random() < 0.04:
            out.append(rnd.choice(["!!!", "???: 4", "W\u00e4tch: X > 1", "Simulate off", "Simulate off:", "Simulate:", "Watch",
                                   "Alarm:", "Simulate: X", "Simulate: = 4", "Watch: X >> 3", "Watch: = 3", "Call macro: nope",
                                   "    ", "\t Mark: a", "12", "1.5 Zork", "Watch: Nosuchtag", "Simulate off: Nosuchtag",
                                   "Simulate: Nosuchtag = 1", "Alarm: Nosuchtag < 1 L/h"]
                                  if allow_far else ["!!!", "???: 4", "Watch", "Alarm:", "Simulate off", "Simulate:", "12"]))
    return "\n".join(out)


def gen_case(rnd: random.Random, res: Result):
    from opv.gen_pcode import Gen
    r = rnd.random()
    tags = [] if r < 0.04 else [t for t in TAG_POOL if rnd.random() < rnd.choice([0.5, 0.8, 1.0])]
    uod = [] if rnd.random() < 0.04 else [c for c in UOD_POOL if rnd.random() < rnd.choice([0.5, 0.8, 1.0])]
    eng = [c for c in ENGINE_CMDS if rnd.random() < rnd.choice([0.6, 0.95, 1.0, 1.0])]
    use_tags = [t for t in TAG_POOL if rnd.random() < 0.7] or TAG_POOL[:2]
    use_cmds = [c for c in UOD_POOL if rnd.random() < 0.7] or UOD_POOL[:2]

    def cond(t):
        n, u = t
        return f"{n} {rnd.choice(['>', '<', '>=', '<=', '=', '!='])} {rnd.randint(0, 9)}" + (f" {u}" if u else "")
    conds = [cond(t) for t in use_tags for _ in range(2)]
    cmds = []
    for c in use_cmds:
        cmds.append(c + (": " + rnd.choice(UOD_ARGS[c]) if c in UOD_ARGS else ""))
    g = Gen(rnd, max_depth=3, uod_cmds=tuple(cmds), watch_conds=conds, alarm_conds=conds, allow_stop=True)
    text = g.program(rnd.randint(3, 8))
    # Simulate lines over the drawn tags as well
    text = re.sub(r"Simulate: X = (\d)", lambda m: "Simulate: " + rnd.choice(use_tags)[0] + " = " + m.group(1), text)
    text = re.sub(r"Simulate off: X", lambda m: "Simulate off: " + rnd.choice(use_tags)[0], text)
    allow_far = rnd.random() < 0.45
    if not allow_far:
        # keep these texts free of the known crash: only reference tags that exist or have a similar/short/empty name
        tags = list({t for t in tags} | {t for t in use_tags} | {("X", None), ("FT01", "L/h")})
        tags.sort()
    if rnd.random() < 0.9:
        text = corrupt(rnd, text, res, allow_far)
    return {"text": text, "tags": [list(t) for t in tags], "uod_cmds": uod, "engine_cmds": eng, "lint": rnd.random() < 0.1}


# ------------------------------------------------------------------------------------------------ wide-length stratum
WIDE_WORDS = ["the", "pressure", "is", "too", "high", "check", "column", "before", "loading", "wait", "for", "operator",
              "TODO", "remember", "to", "open", "valve", "V12", "and", "then", "start", "pump", "at", "50", "flow", "rate",
              "of", "buffer", "A", "B", "x", "pH", "7.4", "until", "UV", "drops", "below", "baseline", "Note", "this", "step",
              "was", "changed", "by", "QA", "on", "2024-01-05", "see", "SOP", "section", "3.2", "Equilibration", "I", "a"]
WIDE_PUNCT = [",", ".", ";", " -", " (", ")", "/", "'", '"', " %", " &", "*", " +", "?", " [", "]", "{", "}", "$", "@", "~",
              "^", "|", "\\", "`", "..."]
WIDE_UNI = ["\u00e4", "\u00d6", "\u00e9", "\u00df", "\u00b5", "\u00b0", "\u03a9", "\u03bb", "\u6e29\u5ea6", "\u0416",
            "\u00f1", "\u00f8", "\u2013", "\u2026", "\u20ac", "\U0001f600", "e\u0301", "\u00bd", "\u0130"]
WIDE_LENGTHS = [(1, 1), (2, 2), (3, 3), (4, 6), (7, 12), (13, 22), (23, 40), (41, 80), (81, 120)]
WIDE_STYLES = ["letters", "words", "words", "punct", "punct", "unicode", "repeat"]
ASCII_LETTERS = LETTERS[:52]


def wide_name(rnd: random.Random, lo: int = 1, hi: int = 120, style: str | None = None) -> str:
    """A name / instruction text of a drawn length lo..hi: letters only, a sentence of words, a sentence with
    punctuation, words with non-ASCII characters, one character repeated. Always starts with an ASCII letter (the judged
    domain of the reference reading), never contains ':' '#' '<' '>' '=' '!' or a line break, no blank at either end."""
    a, b = rnd.choice([r for r in WIDE_LENGTHS if r[1] >= lo and r[0] <= hi])
    n = rnd.randint(max(a, lo), min(b, hi))
    style = style or rnd.choice(WIDE_STYLES)
    if style == "letters":
        out = "".join(rnd.choice(LETTERS[:62] + "_") for _ in range(n))
    elif style == "repeat":
        out = rnd.choice(ASCII_LETTERS) * n
    else:
        out = rnd.choice(WIDE_WORDS).capitalize() if rnd.random() < 0.7 else rnd.choice(WIDE_WORDS)
        while len(out) < n:
            r = rnd.random()
            if style == "punct" and r < 0.35:
                out += rnd.choice(WIDE_PUNCT)
            elif style == "unicode" and r < 0.35:
                out += rnd.choice(WIDE_UNI)
            out += " " + rnd.choice(WIDE_WORDS)
        out = out[:n]
    if not (out[0].isascii() and (out[0].isalpha() or out[0] == "_")):
        out = rnd.choice(ASCII_LETTERS) + out[1:]
    if out != out.strip():
        out = out.strip() + rnd.choice(ASCII_LETTERS) * (len(out) - len(out.strip()))
    return out


WIDE_SET_CLASSES = ["empty", "single_1_char_name", "short_names_only", "very_long_names_only", "typical",
                    "typical_plus_very_long", "mixed_lengths", "huge"]


def wide_set(rnd: random.Random, cls: str, typical: list) -> list:
    """Names of a tag or command set of the class (unique, order drawn)."""
    if cls == "empty":
        names = []
    elif cls == "single_1_char_name":
        names = [rnd.choice(ASCII_LETTERS)]
    elif cls == "short_names_only":
        names = [wide_name(rnd, 1, 3) for _ in range(rnd.randint(1, 5))]
    elif cls == "very_long_names_only":
        names = [wide_name(rnd, 45, 120) for _ in range(rnd.randint(1, 5))]
    elif cls == "typical":
        names = list(typical)
    elif cls == "typical_plus_very_long":
        names = list(typical) + [wide_name(rnd, 45, 120) for _ in range(rnd.randint(1, 3))]
    elif cls == "mixed_lengths":
        names = [wide_name(rnd) for _ in range(rnd.randint(2, 30))]
    else:
        names = list(typical) + [wide_name(rnd, 3, 60) for _ in range(rnd.randint(120, 300))]
    names = list(dict.fromkeys(names))
    rnd.shuffle(names)
    return names


def gen_wide_case(rnd: random.Random, res: Result):
    """Unknown and known instruction / tag / macro / block names over the whole length range 1..120 (whole sentences
    with blanks, punctuation and non-ASCII characters - e.g. a comment whose '#' was forgotten, so that the raw line is
    the instruction name) against tag sets and command sets of very different sizes and name lengths."""
    tcls = rnd.choice(WIDE_SET_CLASSES)
    ccls = rnd.choice(WIDE_SET_CLASSES)
    typical_tags = [t for t in TAG_POOL if rnd.random() < 0.8]
    units = dict(TAG_POOL)
    tag_names = wide_set(rnd, tcls, [t[0] for t in typical_tags])
    tags = [[n, units.get(n) if n in units else rnd.choice([None, None, "L/h", "s", "%"])] for n in tag_names]
    eng = [c for c in ENGINE_CMDS if rnd.random() < 0.8]
    uod = [c for c in UOD_POOL if rnd.random() < 0.8]
    if ccls.startswith("typical") or ccls == "huge":
        sys_cmds = STRUCTURAL + eng
        uod_cmds = [n for n in wide_set(rnd, ccls, uod) if n not in sys_cmds]
    else:
        # any published set at all: also one without the structural names
        sys_cmds = list(STRUCTURAL) if rnd.random() < 0.4 else []
        uod_cmds = [n for n in wide_set(rnd, ccls, []) if n not in sys_cmds]
        eng = []
    known_cmds = [c for c in sys_cmds + uod_cmds if c not in STRUCTURAL]

    def unknown(known):
        r = rnd.random()
        if known and r < 0.15:
            nm = wrong_name(rnd, rnd.choice(known), "distance1").strip()
            if nm and nm[0].isascii() and nm[0].isalpha() and not re.search(r"[:#<>=!]", nm):
                res.count("wide_near_miss_names")
                return nm
        res.count("wide_unknown_names")
        return wide_name(rnd)

    def value(tag):
        u = dict(map(tuple, tags)).get(tag)
        return str(rnd.randint(0, 99)) + (f" {u}" if u and rnd.random() < 0.8 else "")

    def simple(ind):
        r = rnd.random()
        if r < 0.30:
            ln = unknown(known_cmds) + rnd.choice(["", "", ": " + str(rnd.randint(0, 9)), ": " + wide_name(rnd, 1, 60)])
        elif r < 0.45 and known_cmds:
            c = rnd.choice(known_cmds)
            ln = c + (": " + rnd.choice(UOD_ARGS[c]) if c in UOD_ARGS else rnd.choice(["", ": 3", ": " + wide_name(rnd, 1, 30)]))
        elif r < 0.55:
            ln = "Mark: " + wide_name(rnd)
        elif r < 0.65:
            ln = "Simulate off: " + (rnd.choice(tag_names) if tag_names and rnd.random() < 0.4 else unknown(tag_names))
        elif r < 0.75:
            t = rnd.choice(tag_names) if tag_names and rnd.random() < 0.4 else unknown(tag_names)
            ln = f"Simulate: {t} = {value(t)}"
        elif r < 0.82:
            ln = "Call macro: " + (rnd.choice(macros) if macros and rnd.random() < 0.6 else wide_name(rnd))
        elif r < 0.88:
            ln = rnd.choice(["# " + wide_name(rnd), "", "    ", wide_name(rnd) + "  # " + wide_name(rnd, 1, 30)])
        else:
            ln = rnd.choice(["Stop", "Pause", "Wait: 1 s", "Base: s", "Info: " + wide_name(rnd, 1, 40), "Restart"])
        if rnd.random() < 0.05 and ln.strip() and not ln.lstrip().startswith("#"):
            ln = rnd.choice(["1 ", "2.5 ", "0.0 "]) + ln
        return " " * ind + ln

    macros = []
    out = []
    for _ in range(rnd.randint(2, 10)):
        r = rnd.random()
        if r < 0.30:
            t = rnd.choice(tag_names) if tag_names and rnd.random() < 0.4 else unknown(tag_names)
            how = rnd.random()
            cond = (f"{t} {rnd.choice(sorted(WATCH_OPS))} {value(t)}" if how < 0.8 else
                    rnd.choice([t, f"{t} {rnd.choice(sorted(WATCH_OPS))}", "", f"{rnd.choice(sorted(WATCH_OPS))} 3"]))
            out.append(rnd.choice(["Watch", "Alarm"]) + (": " + cond if cond or rnd.random() < 0.5 else ""))
            out += [simple(4) for _ in range(rnd.randint(1, 2))]
        elif r < 0.38:
            macros.append(wide_name(rnd))
            out.append("Macro: " + macros[-1])
            out += [simple(4) for _ in range(rnd.randint(1, 2))]
        elif r < 0.46:
            out.append("Block: " + wide_name(rnd))
            out += [simple(4) for _ in range(rnd.randint(0, 2))] + ["    End block"]
        else:
            out.append(simple(0))
    return {"text": "\n".join(out), "tags": tags, "uod_cmds": uod_cmds, "engine_cmds": eng, "sys_cmds": sys_cmds,
            "wide": True, "cmd_set_class": ccls, "tag_set_class": tcls}


def plan(tier, seed):
    if tier == "quick":
        shards, n = 8, 8000
    else:
        shards, n = 32, 400000
    return [{"seed": seed * 1000003 + i, "n": n // shards} for i in range(shards)]


def run_shard(spec):
    res = Result()
    rnd = random.Random(spec["seed"])
    for _ in range(spec["n"]):
        check_case(gen_wide_case(rnd, res) if rnd.random() < 0.25 else gen_case(rnd, res), res)
    return res


def replay(case):
    res = Result()
    check_case(case, res)
    return res
