"""C09 - Unpause restores exactly the outputs from before that pause.

Snapshots of the output tags at the entry of PauseEngineCommand._run and around UnpauseEngineCommand._run (recording
wrappers installed on the classes from the harness, they delegate unchanged), run identity from the Run Id tag,
cross-check against the recording hardware at the end of the tick (see DESIGN.md C09)."""
from __future__ import annotations

import random

from opv.core import Result

ID = "C09"
LEVEL = "exploration"
TECHNIQUE = ("runtime monitoring: output-tag snapshots at the entry of Pause._run and entry/exit of Unpause._run "
             "(recording wrappers), joined by Run Id; cross-check at the hardware write boundary of the same tick")
RULE = ("alphabet of 10 symbols, each followed by 3 ticks: user Start, Stop, Pause, Unpause, Restart; Err (user-issued "
        "failing UOD command -> error-induced pause); On1 (user sets Out1=9); iPause (timed `Pause: 0.3s` issued on the "
        "method path); Cancel (cancel the resident timed Pause); tick. 3 methods change Out1/Out2 over time with Set1/Set2 "
        "lines, one of them pauses itself (`Pause`, `Pause: 0.3s`), one fails by itself. ENUMERATED: every sequence of "
        "exactly L symbols x 3 methods (L=4 quick, L=5 thorough) and every sequence of L+1 symbols over the reduced "
        "alphabet {Start, Stop, Pause, Unpause, Restart, Err} x 3 methods. SAMPLED: seeded random sequences of length "
        "6-14 (additionally Hold, Unhold, On2, untimed injected Pause) with 1-3 ticks per symbol, biased towards pause / end "
        "run / new run / error / Unpause shapes. distinct = "
        "(method, sequence); non-trivial = at least one Unpause was judged whose expected values differ from the values "
        "before it (a visible restore) or that had no live snapshot")
ASSUMPTIONS = [
    "'output values in effect immediately before the Pause' = values of the output tags at the entry of "
    "PauseEngineCommand._run; judged for the outputs Pause modifies (those with a safe value: Out1, Out2); for an "
    "output without safe value (Plain) only 'Unpause does not change it' is asserted",
    "'most recent Pause of the same run' = latest Pause._run entry whose Run Id equals the Run Id at the Unpause and "
    "after which no Unpause._run has run; any Unpause undoes all earlier pauses. Without such a snapshot (error-induced "
    "pause, pause already undone, pause of an earlier run) Unpause must leave every output unchanged",
    "an Unpause that runs while no run is active (Run Id empty) is counted, not judged",
    "a stale snapshot whose values happen to equal the current values is invisible and only counted",
    "hardware cross-check only when nothing else touched the outputs after the Unpause within that tick (no later UOD "
    "iteration on that register, Pause, Unpause or safe-state application) and the engine wrote its process image",
    "trusted base: engine rig (virtual clock, RecordingHardware, logging UOD callbacks), extra arg-less user commands "
    "On1/On2 added through uod_factory",
]
REQUIRED = {"pause_entries": 5000, "unpause_judged": 2000, "unpause_with_live_snapshot": 1500,
            "unpause_without_live_snapshot": 400, "visible_restores": 1000, "hw_crosschecks": 5000,
            "unpause_with_unundone_pause_of_earlier_run": 80, "timed_pause_self_unpause": 400, "cancelled_timed_pause": 40}
EXHAUSTIVE_ALL = False

SAFE_REGS = ("Out1", "Out2")
OUTS = ("Out1", "Out2", "Plain")
TARGET = {"Set1": "Out1", "Drive1": "Out1", "On1": "Out1", "Set2": "Out2", "On2": "Out2", "SetPlain": "Plain"}
ALPHA = ["Start", "Stop", "Pause", "Unpause", "Restart", "Err", "On1", "iPause", "Cancel", "tick"]
REDUCED = ["Start", "Stop", "Pause", "Unpause", "Restart", "Err"]
METHODS = [
    "Mark: a\nSet1: 5\nSet2: 2.5 L/h\nWait: 0.5s\nSet1: 6\nWait: 100s\n",
    "Set1: 3\nPause\nSet1: 4\nWait: 0.3s\nPause: 0.3s\nSet1: 8\nSetPlain: 2\nWait: 100s\n",
    "Mark: a\nSet1: 5\nWait: 0.6s\nSet1: 6\nFail\nWait: 100s\n",
]
TICKS_PER_SYMBOL = 3
SETTLE = 4


def plan(tier, seed):
    L = 4 if tier == "quick" else 5
    shards = 16 if tier == "quick" else 48
    n_rand = 2400 if tier == "quick" else 40000
    return [{"seed": seed * 1000003 + i, "L": L, "shard": i, "of": shards, "n_rand": n_rand // shards}
            for i in range(shards)]


def _seq(idx, L, alpha):
    out = []
    for _ in range(L):
        out.append(alpha[idx % len(alpha)])
        idx //= len(alpha)
    return out[::-1]


def gen_random_case(rnd: random.Random):
    n = rnd.randint(6, 14)
    seq = []
    weights = {"Start": 3, "Stop": 2, "Pause": 4, "Unpause": 4, "Restart": 2, "Err": 2, "On1": 1, "iPause": 2, "Cancel": 1,
               "tick": 2, "On2": 1, "iPauseU": 1, "Hold": 2, "Unhold": 1}
    pool = [s for s, w in weights.items() for _ in range(w)]
    if rnd.random() < 0.5:
        # shape: run, pause, end of run, new run, error, unpause - with noise in between
        core = ["Start", rnd.choice(["tick", "On1", "tick"]), rnd.choice(["Pause", "Pause", "iPause"]),
                rnd.choice(["Stop", "Restart", "Stop"]), rnd.choice(["Start", "tick", "Start"]),
                rnd.choice(["Err", "tick", "Err", "Pause"]), "Unpause"]
        seq = []
        for c in core:
            if rnd.random() < 0.25:
                seq.append(rnd.choice(pool))
            seq.append(c)
        while len(seq) < n:
            seq.append(rnd.choice(pool))
    else:
        seq = [rnd.choice(pool) for _ in range(n)]
        if rnd.random() < 0.8:
            seq[0] = "Start"
    ticks = [rnd.choice([1, 2, 3, 3]) for _ in seq]
    return {"method": rnd.choice(METHODS), "seq": seq, "ticks": ticks}


def cases_for_shard(spec):
    L, sh, of = spec["L"], spec["shard"], spec["of"]
    k = 0
    for meth in METHODS:
        for idx in range(len(ALPHA) ** L):
            if k % of == sh:
                yield "E", {"method": meth, "seq": _seq(idx, L, ALPHA), "ticks": None}
            k += 1
    for meth in METHODS:
        for idx in range(len(REDUCED) ** (L + 1)):
            if k % of == sh:
                yield "F", {"method": meth, "seq": _seq(idx, L + 1, REDUCED), "ticks": None}
            k += 1
    rnd = random.Random(spec["seed"])
    for _ in range(spec["n_rand"]):
        yield "R", gen_random_case(rnd)


# ---------------------------------------------------------------------------------------------------------------
_SINK: list = [None]
_installed = [False]


def _install_wrappers():
    """Replace PauseEngineCommand._run / UnpauseEngineCommand._run by recording wrappers that delegate. The timed
    Pause and Pause.cancel() look UnpauseEngineCommand._run up on a fresh instance, so they come through here too."""
    if _installed[0]:
        return
    _installed[0] = True
    import openpectus.engine.internal_commands_impl as impl
    # the module-level names are functools.wraps() factories around the real classes (command_argument decorator)
    pause_cls = getattr(impl.PauseEngineCommand, "__wrapped__", impl.PauseEngineCommand)
    unpause_cls = getattr(impl.UnpauseEngineCommand, "__wrapped__", impl.UnpauseEngineCommand)
    pause_orig = pause_cls._run
    unpause_orig = unpause_cls._run

    def pause_run(self):
        mon = _SINK[0]
        if mon is None or mon.e is not self.engine:
            return (yield from pause_orig(self))
        rec = mon.pause_entry(self)
        gen = pause_orig(self)
        while True:
            mon.inside_pause_gen = rec          # the timed Pause calls Unpause._run from inside its own generator
            try:
                v = next(gen)
            except StopIteration as stop:
                return stop.value
            except BaseException:
                mon.pause_failed(rec)
                raise
            finally:
                mon.inside_pause_gen = None
            yield v

    def unpause_run(self):
        mon = _SINK[0]
        if mon is None or mon.e is not self.engine:
            return unpause_orig(self)
        tok = mon.unpause_entry(self)
        try:
            return unpause_orig(self)
        finally:
            mon.unpause_exit(tok)
    pause_run.__wrapped__ = pause_orig        # type: ignore
    unpause_run.__wrapped__ = unpause_orig    # type: ignore
    pause_cls._run = pause_run  # type: ignore
    unpause_cls._run = unpause_run  # type: ignore


class Monitor:
    def __init__(self, rig, res: Result):
        self.rig = rig
        self.e = rig.e
        self.res = res
        self.pauses: list[dict] = []
        self.viol: list[tuple[str | None, str]] = []
        self.log: list = []
        self.hw_pending: list[dict] = []
        self.touch_seq = 0                 # counts output-affecting engine events (pause/unpause/safe state)
        self.nontrivial = False
        self.inside_pause_gen = None
        orig_apply = self.e._apply_safe_state

        def probe(*a, **kw):
            self.touch_seq += 1
            return orig_apply(*a, **kw)
        self.e._apply_safe_state = probe   # type: ignore

    def outs(self):
        return {n: self.e.tags[n].get_value() for n in OUTS}

    def run_id(self):
        return self.e.tags["Run Id"].get_value()

    # ---- wrapper callbacks
    def pause_entry(self, cmd):
        self.touch_seq += 1
        rec = {"tick": self.rig.k, "run": self.run_id(), "snap": self.outs(), "undone": False, "effective": True,
               "timed": bool(cmd.kvargs.get("number")), "iid": cmd.instance_id}
        self.pauses.append(rec)
        self.res.count("pause_entries")
        self.log.append((self.rig.k, "Pause._run", rec["snap"], str(rec["run"])[:4]))
        return rec

    def pause_failed(self, rec):
        if not self.e._runstate_paused:
            rec["effective"] = False

    def unpause_entry(self, cmd):
        self.touch_seq += 1
        return {"tick": self.rig.k, "before": self.outs(), "run": self.run_id(), "seq": len(self.rig.cmdlog)}

    def unpause_exit(self, tok):
        res = self.res
        after = self.outs()
        before = tok["before"]
        run = tok["run"]
        k = tok["tick"]
        self.touch_seq += 1
        self.log.append((k, "Unpause._run", before, "->", after, str(run)[:4]))
        eff = [p for p in self.pauses if p["effective"]]
        if run in (None, ""):
            res.count("unpause_outside_run")
            for p in eff:
                p["undone"] = True
            return
        res.count("unpause_judged")
        live = None
        if eff and not eff[-1]["undone"] and eff[-1]["run"] == run:
            live = eff[-1]
        if live is not None:
            res.count("unpause_with_live_snapshot")
            if live["timed"]:
                res.count("timed_pause_self_unpause" if self.inside_pause_gen is live else "timed_pause_undone_otherwise")
        else:
            res.count("unpause_without_live_snapshot")
            self.nontrivial = True
        earlier = [p for p in eff if not p["undone"] and p["run"] != run]
        if live is None and earlier:
            res.count("unpause_with_unundone_pause_of_earlier_run")
        expected = dict(before)
        if live is not None:
            for r in SAFE_REGS:
                expected[r] = live["snap"][r]
        if any(expected[r] != before[r] for r in SAFE_REGS):
            res.count("visible_restores")
            self.nontrivial = True
        wrong = [r for r in OUTS if after[r] != expected[r]]
        if wrong:
            if live is not None:
                undone_same_run = [p for p in eff if p["undone"] and p["run"] == run]
                if any(all(after[r] == p["snap"][r] for r in SAFE_REGS) for p in undone_same_run):
                    mech = "C09.already_undone_pause_reapplied"
                else:
                    mech = "C09.unpause_restores_other_values_than_before_pause"
                why = f"most recent Pause of this run (tick {live['tick']}) had outputs {live['snap']}"
            else:
                stale = earlier[-1] if earlier else None
                undone_same_run = [p for p in eff if p["undone"] and p["run"] == run]
                if stale is not None and all(after[r] == stale["snap"][r] for r in SAFE_REGS):
                    mech = "C09.prev_state_survives_run_end"
                    why = (f"no Pause of this run is waiting to be undone, but the Pause of tick {stale['tick']} in the "
                           f"earlier run {str(stale['run'])[:8]} was never undone (that run ended while paused) and its "
                           f"snapshot {stale['snap']} was applied now")
                elif any(all(after[r] == p["snap"][r] for r in SAFE_REGS) for p in undone_same_run):
                    mech = "C09.already_undone_pause_reapplied"
                    why = "no live snapshot; the values of an already undone pause of this run were applied again"
                else:
                    mech = "C09.unpause_changes_outputs_without_snapshot"
                    why = "no Pause of this run is waiting to be undone"
            self.viol.append((mech, f"tick {k}: Unpause changed outputs {before} -> {after}, expected {expected} "
                              f"(wrong: {wrong}); {why}"))
        elif live is None and earlier and all(after[r] == earlier[-1]["snap"][r] for r in SAFE_REGS):
            res.count("stale_snapshot_equal_to_current_values")
        for p in eff:
            p["undone"] = True
        self.hw_pending.append({"tick": k, "after": after, "seq": len(self.rig.cmdlog), "touch": self.touch_seq})

    # ---- after each tick
    def after_tick(self):
        k = self.rig.k
        hw = self.rig.hw
        for pend in self.hw_pending:
            if pend["tick"] != k:
                continue
            wrote = any(t == k for (t, _r, _v) in hw.writes[-8:])
            if not wrote or pend["touch"] != self.touch_seq:
                self.res.count("hw_crosscheck_skipped")
                continue
            later = {TARGET.get(name) for (t, ph, name, _i, _it) in self.rig.cmdlog[pend["seq"]:] if ph == "exec"}
            for r in OUTS:
                if r in later:
                    continue
                self.res.count("hw_crosschecks")
                if hw.mem.get(r, "<never written>") != pend["after"][r]:
                    self.viol.append(("C09.hardware_differs_from_restored_values",
                                      f"tick {k}: after Unpause tag {r} = {pend['after'][r]!r} but hardware holds "
                                      f"{hw.mem.get(r, '<never written>')!r} at the end of the tick"))
        self.hw_pending.clear()


def _uod_factory(log):
    from opv.props.c08 import _uod_factory as f
    return f(4, 0)(log)


def check_case(case, res: Result, kind: str = "?"):
    from opv.rigs import engine_rig as R

    _install_wrappers()
    seq = case["seq"]
    ticks = case.get("ticks") or [TICKS_PER_SYMBOL] * len(seq)
    rig = R.EngineRig(case["method"], hooks=False, uod_factory=_uod_factory)
    mon = Monitor(rig, res)
    _SINK[0] = mon
    aborted = False
    try:
        e = rig.e
        for sym, nt in list(zip(seq, ticks)) + [("tick", SETTLE)]:
            st = rig.state
            if sym in ("Start", "Stop", "Pause", "Unpause", "Restart", "Hold", "Unhold"):
                mon.log.append((rig.k, "user", sym, rig.user(sym)))
            elif sym in ("On1", "On2"):
                mon.log.append((rig.k, "user", sym, rig.user(sym)))
            elif sym == "Err":
                if st != "Stopped":
                    mon.log.append((rig.k, "user", "Fail", rig.user("Fail")))
            elif sym in ("iPause", "iPauseU"):
                try:
                    e.inject_code("Pause: 0.3s" if sym == "iPause" else "Pause")
                    mon.log.append((rig.k, "inject", sym))
                except Exception:
                    res.count("inject_raised")
                    aborted = True
                    break
            elif sym == "Cancel":
                cmd = e.registry.get_running_command("Pause")
                if cmd is not None:
                    try:
                        e.cancel_instruction(cmd.instance_id)
                        res.count("cancelled_timed_pause")
                        mon.log.append((rig.k, "cancel Pause", "ok"))
                    except Exception as ex:
                        res.count("cancel_raised")
                        mon.log.append((rig.k, "cancel Pause", type(ex).__name__))
            for _ in range(nt):
                rig.tick(catch=True)
                if rig.tick_exc:
                    res.count("tick_exceptions")
                    aborted = True
                    break
                mon.after_tick()
            if aborted:
                break
        if aborted:
            res.count("cases_aborted")
        res.count("cases_" + kind)
        key = {"m": case["method"], "s": seq, "t": case.get("ticks")} if mon.nontrivial and not aborted else None
        res.case(key, sample={"method": case["method"], "seq": seq, "ticks": case.get("ticks"), "events": mon.log[-6:]})
    finally:
        _SINK[0] = None
        rig.close()
    seen = set()
    for mech, msg in mon.viol:
        if mech in seen:
            continue
        seen.add(mech)
        res.violation(mech, msg + " | events " + str(mon.log[-14:]), case)


def run_shard(spec):
    res = Result()
    for kind, case in cases_for_shard(spec):
        check_case(case, res, kind)
    L = spec["L"]
    res.exhaustive_parts.append(f"each of {len(METHODS)} methods x all {len(ALPHA)}^{L} = {len(ALPHA) ** L} sequences of "
                                f"{L} symbols over {ALPHA} ({TICKS_PER_SYMBOL} ticks after every symbol, {SETTLE} settle ticks)")
    res.exhaustive_parts.append(f"each of {len(METHODS)} methods x all {len(REDUCED)}^{L + 1} = {len(REDUCED) ** (L + 1)} "
                                f"sequences of {L + 1} symbols over {REDUCED}")
    return res


def replay(case):
    res = Result()
    check_case(case, res, "replay")
    return res
