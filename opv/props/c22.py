"""C22 - Command argument patterns accept exactly their documented language.

Pure-function rig: RegexNumber / RegexNumberOptional / RegexCategorical are built from generated unit and option lists
(alphabet with regex metacharacters and blanks), wrapped in the real RegexNamedArgumentParser, and fed candidate strings
from the documented language and single-edit near-misses. Hand-written recognisers (no regular expressions) decide
accept / reject / unspecified; introspection must return the lists the pattern was built from."""
from __future__ import annotations

import random

from opv.core import Result

ID = "C22"
LEVEL = "exploration"
TECHNIQUE = "runtime monitoring: differential against hand-written recognisers of the documented argument languages"
RULE = ("seeded configurations: RegexNumber / RegexNumberOptional (units None or 1-4 units, non_negative, int_only), the "
        "built-in constants REGEX_DURATION / REGEX_DURATION_OPTIONAL / REGEX_INT (5 % of the configurations) and "
        "RegexCategorical (exclusive and/or additive lists of 1-4 options); list items are 1-4 characters over letters, "
        "digits (options only), blanks and the regex metacharacters . * + ? | ( ) [ ] { } \\ / $ ^ - %; per configuration "
        "~25 candidate strings: members of the documented language, single-edit near-misses (insert/delete/replace/"
        "swap), fixed hostile strings ('', ' ', '+1', '--1', '1e5', '1,5', '1.2.3', 'A++B', '+A', 'AB', 'A+' ...) and, "
        "for every number configuration, 6 members of the language re-written with decimal digits of another script "
        "(Arabic-Indic, extended Arabic-Indic, fullwidth, Devanagari, Bengali, Thai: all digits / one digit / the "
        "fraction / the integer part re-written, sign, fraction, blanks and unit as generated) plus one with a "
        "non-decimal digit character (superscript, circled ...). "
        "distinct = (pattern kind, flags, list shape, candidate origin, oracle verdict); non-trivial = a list item has a "
        "metacharacter or blank, or the candidate is a near-miss")
ASSUMPTIONS = [
    "documented language of numbers: optional blanks, optional '-' (unless non_negative), D+ or D+.D+ (no fraction when "
    "int_only), optional blanks, then - iff units were declared - one declared unit, optional blanks; delivered groups "
    "'number' / 'number_unit' must be one valid decomposition of the input",
    "digits are the ten ASCII characters 0-9 (the documented patterns are written with [0-9], P-code numbers are "
    "ASCII): a number token containing any other character for which str.isdigit()/isdecimal() is true is outside "
    "the language, so a candidate whose only possible number tokens contain such a character is a definite reject",
    "NOT asserted (counted as unspecified): '1.', '.5', a leading '+', '-0' under non_negative, any "
    "whitespace other than the blank, a bare number when units were declared, repeated additive options, leading/"
    "trailing whitespace around categorical values",
    "documented language of categoricals: exactly one exclusive option, or a1+a2+...+an (n >= 1) of additive options; "
    "never empty; group 'option' must be the input",
    "introspection is called through RegexNamedArgumentParser(regex) exactly as uod.py / lsp_analysis.py do",
    "list items are non-empty, free of line breaks, without leading/trailing blanks (interior blanks occur), and "
    "distinct within a list",
]
REQUIRED = {"candidates": 20000, "definite_accepts_checked": 4000, "definite_rejects_checked": 4000,
            "introspection_checks": 1500, "group_delivery_checks": 4000,
            "non_ascii_digit_rejects_checked": 3000, "non_ascii_digit_pure_rejects": 500,
            "non_ascii_digit_mixed_rejects": 500, "non_ascii_digit_with_unit_rejects": 500,
            "builtin_constant_candidates": 1000}
EXHAUSTIVE_ALL = False

META = list(".*+?|()[]{}\\/$^-%")
LETTERS = list("ABabkgLhmµ°")
DIGITS = list("0123456789")
WS_OTHER = "\t\n\r\x0b\x0c\xa0\u2003"
# decimal digits (category Nd) of other scripts: python's \\d matches them, [0-9] does not
UNI_DIGIT_SETS = {
    "arabic_indic": "\u0660\u0661\u0662\u0663\u0664\u0665\u0666\u0667\u0668\u0669",
    "ext_arabic_indic": "\u06f0\u06f1\u06f2\u06f3\u06f4\u06f5\u06f6\u06f7\u06f8\u06f9",
    "fullwidth": "\uff10\uff11\uff12\uff13\uff14\uff15\uff16\uff17\uff18\uff19",
    "devanagari": "\u0966\u0967\u0968\u0969\u096a\u096b\u096c\u096d\u096e\u096f",
    "bengali": "\u09e6\u09e7\u09e8\u09e9\u09ea\u09eb\u09ec\u09ed\u09ee\u09ef",
    "thai": "\u0e50\u0e51\u0e52\u0e53\u0e54\u0e55\u0e56\u0e57\u0e58\u0e59",
}
UNI_SCRIPTS = ["arabic_indic", "fullwidth", "devanagari", "arabic_indic", "fullwidth", "devanagari", "ext_arabic_indic",
               "bengali", "thai"]
# str.isdigit() is true but not a decimal digit: superscripts, circled / parenthesised / dotted digits, Kharoshthi-free
OTHER_DIGITS = "\u00b2\u00b3\u00b9\u2070\u2074\u2460\u2474\u2488\u24f5\u2776"
BUILTINS = {
    "REGEX_DURATION": {"kind": "number", "units": ["s", "min", "h"], "non_negative": True, "int_only": False},
    "REGEX_DURATION_OPTIONAL": {"kind": "number_optional", "units": ["s", "min", "h"], "non_negative": True,
                                "int_only": False},
    "REGEX_INT": {"kind": "number", "units": None, "non_negative": True, "int_only": True},
}


def is_non_ascii_digit(ch: str) -> bool:
    return ch not in "0123456789" and (ch.isdigit() or ch.isdecimal())


# ---------------------------------------------------------------------------------------------------------------------
# generators

def gen_item(rnd: random.Random, digits_ok: bool, plus_ok: bool = True) -> str:
    n = rnd.choice((1, 1, 2, 2, 3, 4))
    style = rnd.random()
    out = []
    for i in range(n):
        if style < 0.35:
            pool = LETTERS + (DIGITS if digits_ok and i > 0 else [])
        elif style < 0.8:
            pool = LETTERS + META + ([" "] if 0 < i < n - 1 else []) + (DIGITS if digits_ok and i > 0 else [])
        else:
            pool = LETTERS + META + [" "] + (DIGITS if digits_ok else [])
        ch = rnd.choice(pool)
        if ch == "+" and not plus_ok:
            ch = "x"
        out.append(ch)
    return "".join(out).strip(" ")            # items carry no leading/trailing blank (interior blanks are kept)


def gen_list(rnd: random.Random, digits_ok: bool, avoid=()) -> list[str]:
    k = rnd.choice((1, 2, 2, 3, 4))
    items: list[str] = []
    guard = 0
    while len(items) < k and guard < 50:
        guard += 1
        it = gen_item(rnd, digits_ok)
        if it and it not in items and it not in avoid:
            items.append(it)
    return items


def gen_config(rnd: random.Random) -> dict:
    r = rnd.random()
    if r < 0.05:
        name = rnd.choice(sorted(BUILTINS))
        return dict(BUILTINS[name], builtin=name)
    if r < 0.4:
        kind = "number"
    elif r < 0.5:
        kind = "number_optional"
    else:
        kind = "categorical"
    if kind != "categorical":
        units = None if rnd.random() < 0.3 else gen_list(rnd, digits_ok=False)
        return {"kind": kind, "units": units, "non_negative": rnd.random() < 0.4, "int_only": rnd.random() < 0.35}
    shape = rnd.choice(("excl", "add", "both", "both"))
    excl = gen_list(rnd, True) if shape in ("excl", "both") else None
    add = gen_list(rnd, True, avoid=excl or ()) if shape in ("add", "both") else None
    return {"kind": kind, "exclusive": excl, "additive": add}


def gen_number_token(rnd: random.Random, cfg) -> str:
    ip = "".join(rnd.choice(DIGITS) for _ in range(rnd.choice((1, 1, 2, 3, 6))))
    tok = ip
    if not cfg["int_only"] and rnd.random() < 0.5:
        tok += "." + "".join(rnd.choice(DIGITS) for _ in range(rnd.choice((1, 2, 4))))
    if not cfg["non_negative"] and rnd.random() < 0.4:
        tok = "-" + tok
    return tok


def number_member(rnd: random.Random, cfg) -> str:
    s = " " * rnd.choice((0, 0, 0, 1, 2)) + gen_number_token(rnd, cfg)
    if cfg["units"]:
        s += " " * rnd.choice((0, 1, 1, 2)) + rnd.choice(cfg["units"])
    return s + " " * rnd.choice((0, 0, 0, 1, 2))


def categorical_member(rnd: random.Random, cfg) -> str:
    excl, add = cfg["exclusive"] or [], cfg["additive"] or []
    if excl and (not add or rnd.random() < 0.4):
        return rnd.choice(excl)
    k = rnd.randint(1, len(add))
    return "+".join(rnd.sample(add, k))


EDIT_CHARS = DIGITS[:3] + list(".-+e, ") + LETTERS[:5] + META


def edit(rnd: random.Random, s: str, cfg) -> str:
    pool = list(EDIT_CHARS)
    for lst in (cfg.get("units"), cfg.get("exclusive"), cfg.get("additive")):
        for it in lst or ():
            pool.extend(it)
    op = rnd.choice(("ins", "del", "rep", "swap", "dup", "ws"))
    if not s:
        op = "ins"
    i = rnd.randrange(len(s) + 1) if op == "ins" else rnd.randrange(len(s)) if s else 0
    if op == "ins":
        return s[:i] + rnd.choice(pool) + s[i:]
    if op == "del":
        return s[:i] + s[i + 1:]
    if op == "rep":
        return s[:i] + rnd.choice(pool) + s[i + 1:]
    if op == "swap" and len(s) >= 2:
        i = min(i, len(s) - 2)
        return s[:i] + s[i + 1] + s[i] + s[i + 2:]
    if op == "dup":
        return s[:i] + s[i] + s[i:]
    return s[:i] + rnd.choice(WS_OTHER) + s[i:]


def unicode_digit_variants(rnd: random.Random, cfg):
    """members of the documented language with ASCII digits re-written in another script; units carry no digits, so
    every digit of a member belongs to its number token. Returns [(origin, string)]."""
    out = []
    modes = ("pure", "pure", "one", "one", "integer", "one" if cfg["int_only"] else "fraction")
    for mode in modes:
        for _ in range(40):
            m = number_member(rnd, cfg)
            pos = [i for i, ch in enumerate(m) if ch in "0123456789"]
            dot = m.find(".")
            if mode == "pure":
                sel = pos
            elif mode == "one":
                sel = [rnd.choice(pos)] if len(pos) >= 2 else []
            elif mode == "fraction":
                sel = [i for i in pos if i > dot] if dot >= 0 else []
            elif dot >= 0:
                sel = [i for i in pos if i < dot]
            else:
                sel = pos[:rnd.randint(1, len(pos) - 1)] if len(pos) >= 2 else []
            if not sel:
                continue
            table = UNI_DIGIT_SETS[rnd.choice(UNI_SCRIPTS)]
            chars = list(m)
            for i in sel:
                chars[i] = table[int(chars[i])]
            out.append(("unicode_digit_pure" if len(sel) == len(pos) else "unicode_digit_mixed", "".join(chars)))
            break
    m = number_member(rnd, cfg)
    pos = [i for i, ch in enumerate(m) if ch in "0123456789"]
    i = rnd.choice(pos)
    od = rnd.choice(OTHER_DIGITS)
    out.append(("other_digit_char", rnd.choice((m[:i] + od + m[i + 1:], m[:i] + od + m[i:], m[:i + 1] + od + m[i + 1:]))))
    return out


NUMBER_FIXED = ["", " ", "+1", "--1", "1e5", "1,5", "1.2.3", "٣", "1.", ".5", "-", ".", "- 1", "1 2", "1\n", "-.5", "1.5.",
                "0x10", "1_000", "١٢", "-0", "1 -", "..1", "1-", "NaN", "inf"]


def number_candidates(rnd: random.Random, cfg, n: int):
    out = []
    for _ in range(n // 2):
        out.append(("member", number_member(rnd, cfg)))
    for _ in range(n - n // 2 - 4):
        out.append(("near_miss", edit(rnd, number_member(rnd, cfg), cfg)))
    units = cfg["units"] or []
    for _ in range(4):
        f = rnd.choice(NUMBER_FIXED)
        if units and rnd.random() < 0.6:
            f = f + rnd.choice(("", " ")) + rnd.choice(units)
        out.append(("fixed", f))
    if units:
        out.append(("fixed", gen_number_token(rnd, cfg)))                                  # bare number, units declared
        out.append(("fixed", gen_number_token(rnd, cfg) + " " + rnd.choice(units) + rnd.choice(units)))
        out.append(("fixed", gen_number_token(rnd, cfg) + " " + gen_item(rnd, False)))     # (probably) undeclared unit
        out.append(("fixed", rnd.choice(units)))                                           # unit without number
    else:
        out.append(("fixed", gen_number_token(rnd, cfg) + " kg"))
    out.extend(unicode_digit_variants(rnd, cfg))
    return out


def categorical_candidates(rnd: random.Random, cfg, n: int):
    excl, add = cfg["exclusive"] or [], cfg["additive"] or []
    out = []
    for _ in range(n // 2):
        out.append(("member", categorical_member(rnd, cfg)))
    for _ in range(n - n // 2 - 2):
        out.append(("near_miss", edit(rnd, categorical_member(rnd, cfg), cfg)))
    fixed = ["", " ", "+", "++"]
    allo = excl + add
    a = rnd.choice(allo)
    b = rnd.choice(allo)
    fixed += [a + b, a + "+", "+" + a, a + "++" + b, a + "+" + b, a + " ", " " + a, a + "+" + a, a.lower(), a[:-1], a + a[-1]]
    if excl and add:
        e, x = rnd.choice(excl), rnd.choice(add)
        fixed += [e + "+" + x, x + "+" + e, e + x]
    if len(excl) >= 2:
        fixed.append("+".join(excl[:2]))
    for f in rnd.sample(fixed, min(len(fixed), 8)):
        out.append(("fixed", f))
    out.append(("fixed", ""))
    return out


# ---------------------------------------------------------------------------------------------------------------------
# reference recognisers (hand-written, no regular expressions)

ACCEPT, REJECT, UNSPEC = "accept", "reject", "unspecified"


def number_token_class(tok: str, non_negative: bool, int_only: bool) -> str:
    """'yes' (in the documented language), 'unspec' (neither clearly inside nor outside), 'no'"""
    if tok == "":
        return "no"
    if tok[0] == "+":
        inner = number_token_class(tok[1:], True, int_only)
        return "unspec" if inner in ("yes", "unspec") and not tok[1:].startswith(("+", "-")) else "no"
    neg = tok[0] == "-"
    body = tok[1:] if neg else tok
    if body == "":
        return "no"
    for ch in body:
        if ch == ".":
            continue
        if ch in "0123456789":
            continue
        return "no"                    # includes decimal digits of other scripts: digits are 0-9
    dots = body.count(".")
    if dots > 1:
        return "no"
    cls = "yes"
    if dots == 1:
        ip, fp = body.split(".")
        if not ip and not fp:
            return "no"
        if int_only:
            if fp:
                return "no"            # a fraction is not an integer
            cls = "unspec"             # '1.'
        elif not ip or not fp:
            cls = "unspec"             # '.5' / '1.'
    if neg and non_negative:
        if all(ch in "0." for ch in body):
            return "unspec"            # '-0'
        return "no"
    return cls


def number_oracle(s: str, cfg):
    """returns (verdict, definite_parses, unspec_parses); a parse is (number, unit_or_None)"""
    units = cfg["units"] or []
    if any(ch in WS_OTHER or (ch.isspace() and ch != " ") for ch in s):
        return UNSPEC, set(), set()
    definite, unspec = set(), set()
    n = len(s)
    a = 0
    while True:                                        # a = number of leading blanks consumed
        for p in range(a, n + 1):                      # number token s[a:p]
            tok = s[a:p]
            if not tok or " " in tok:
                continue
            cls = number_token_class(tok, cfg["non_negative"], cfg["int_only"])
            if cls == "no":
                continue
            rest = s[p:]
            if not units:
                if rest.strip(" ") == "":
                    (definite if cls == "yes" else unspec).add((tok, None))
                continue
            if rest.strip(" ") == "":
                unspec.add((tok, None))                # bare number although units were declared
            for q in range(p, n + 1):
                if s[p:q].strip(" ") != "":
                    break
                for u in units:
                    if s.startswith(u, q) and s[q + len(u):].strip(" ") == "":
                        (definite if cls == "yes" else unspec).add((tok, u))
        if a < n and s[a] == " ":
            a += 1
        else:
            break
    if cfg["kind"] == "number_optional" and s.strip(" ") == "":
        return ACCEPT, {(None, None)}, set()
    if definite:
        return ACCEPT, definite, unspec
    if unspec:
        return UNSPEC, definite, unspec
    return REJECT, definite, unspec


def _segment(s: str, options, allow_repeat: bool) -> bool:
    """s == o1 + '+' + o2 + ... + '+' + on with n >= 1 and every oi in options"""
    memo = {}

    def go(pos: int, used: frozenset) -> bool:
        key = (pos, used)
        if key in memo:
            return memo[key]
        ok = False
        for i, o in enumerate(options):
            if not allow_repeat and i in used:
                continue
            if s.startswith(o, pos):
                end = pos + len(o)
                if end == len(s):
                    ok = True
                elif s[end] == "+" and go(end + 1, used if allow_repeat else used | {i}):
                    ok = True
            if ok:
                break
        memo[key] = ok
        return ok
    return bool(options) and go(0, frozenset())


def _free_concat(s: str, tokens) -> bool:
    """s is a (possibly empty) concatenation of tokens"""
    reach = [False] * (len(s) + 1)
    reach[0] = True
    for i in range(len(s)):
        if reach[i]:
            for t in tokens:
                if t and s.startswith(t, i):
                    reach[i + len(t)] = True
    return reach[len(s)]


def categorical_core(s: str, excl, add) -> str:
    if s in excl:
        return ACCEPT
    if _segment(s, add, allow_repeat=False):
        return ACCEPT
    if _segment(s, add, allow_repeat=True):
        return UNSPEC
    return REJECT


def categorical_oracle(s: str, cfg) -> str:
    excl, add = cfg["exclusive"] or [], cfg["additive"] or []
    v = categorical_core(s, excl, add)
    if v != REJECT:
        return v
    # surrounding whitespace is not specified either way
    lead = len(s) - len(s.lstrip())
    trail = len(s) - len(s.rstrip())
    for i in range(lead + 1):
        for j in range(trail + 1):
            if i == 0 and j == 0:
                continue
            core = s[i:len(s) - j]
            if core and categorical_core(core, excl, add) != REJECT:
                return UNSPEC
    return REJECT


# ---------------------------------------------------------------------------------------------------------------------
# checks

def _call(fn, *a):
    try:
        return ("ok", fn(*a))
    except Exception as ex:  # noqa: BLE001
        return ("exc", type(ex).__name__, str(ex)[:200])


def build(cfg):
    from openpectus.lang.exec.regex import RegexNumber, RegexNumberOptional, RegexCategorical
    from openpectus.lang.exec.uod import RegexNamedArgumentParser
    if cfg.get("builtin"):
        import openpectus.lang.exec.regex as rxm
        rx = getattr(rxm, cfg["builtin"])
    elif cfg["kind"] == "number":
        rx = RegexNumber(units=cfg["units"], non_negative=cfg["non_negative"], int_only=cfg["int_only"])
    elif cfg["kind"] == "number_optional":
        rx = RegexNumberOptional(units=cfg["units"], non_negative=cfg["non_negative"], int_only=cfg["int_only"])
    else:
        rx = RegexCategorical(exclusive_options=cfg["exclusive"], additive_options=cfg["additive"])
    return rx, RegexNamedArgumentParser(rx)


def _split_on_pipe(items):
    return [piece for it in items for piece in it.split("|")]


def classify_introspection(cfg, which: str, expected: list, got, regex: str):
    """narrow causal shapes of a wrong introspected list"""
    if not isinstance(got, list):
        return None
    has_pipe = any("|" in it for it in expected)
    flat = _split_on_pipe(expected)
    flat_once_removed = list(flat)
    if which != "units" and "" in flat_once_removed:
        flat_once_removed.remove("")
    if has_pipe and got in (flat, flat_once_removed):
        # the pattern is un-escaped and THEN split on '|', so a literal '|' inside an item is taken for a separator
        return "C22.introspection_splits_on_pipe"
    if which == "units" and cfg["kind"] == "number_optional" and expected and regex.startswith("(") and \
            regex.endswith(r")|^\s*$"):
        for base in ([expected] + ([flat] if has_pipe else [])):
            if len(got) == len(base) and got[:-1] == base[:-1] and got[-1] != base[-1] and got[-1].startswith(base[-1] + ")"):
                # RegexNumberOptional wraps the number pattern in '( ... )|^\s*$'; get_units cuts at the LAST ')' of the
                # regex, which is then the wrapper's, so the last unit carries the un-escaped tail ')s*$'
                return "C22.optional_number_units_include_regex_tail"
    return None


def check_introspection(cfg, regex, parser, res: Result):
    case = {"cfg": cfg, "kind": "introspection"}
    todo = []
    if cfg["kind"] == "categorical":
        todo.append(("exclusive_options", list(cfg["exclusive"] or []), parser.get_exclusive_options))
        todo.append(("additive_options", list(cfg["additive"] or []), parser.get_additive_options))
    else:
        todo.append(("units", list(cfg["units"] or []), parser.get_units))
    for which, expected, fn in todo:
        got = _call(fn)
        res.count("introspection_checks")
        if got[0] == "exc":
            res.violation(None, f"get_{which}() raised {got[1]}({got[2]}) for a pattern built from {expected!r}", case)
        elif got[1] != expected:
            mech = classify_introspection(cfg, which, expected, got[1], regex)
            res.violation(mech, f"get_{which}() returned {got[1]!r}, the pattern was built from {expected!r} "
                                f"({cfg['kind']})", case)


def classify_categorical_overaccept(s: str, cfg, regex: str):
    excl, add = cfg["exclusive"] or [], cfg["additive"] or []
    core = s.rstrip()
    if core == "":
        # an empty alternative: '(|(' when there are no exclusive options, '(|\+)+' when there are no additive options
        if (not excl and "<option>(|(" in regex) or (not add and r"|(|\+)+)" in regex):
            return "C22.empty_value_accepted_when_a_list_is_missing"
        return None
    if add and not core.endswith("+") and _free_concat(core, list(add) + ["+"]) and r"|\+)+)(?<!\+))" in regex:
        # '+' is just one more alternative of a repeated group: any concatenation of additive options and '+' signs
        # that does not end in '+' is accepted ('AB', 'A++B', '+A')
        return "C22.additive_list_language_too_wide"
    return None


def check_candidate(cfg, regex, parser, origin: str, s: str, res: Result):
    res.count("candidates")
    parsed = _call(parser.parse, s)
    valid = _call(parser.validate, s)
    case = {"cfg": cfg, "kind": "candidate", "string": s, "origin": origin}
    if parsed[0] == "exc" or valid[0] == "exc":
        res.violation(None, f"parse/validate raised on {s!r}: {parsed} {valid}", case)
        return None
    accepted = parsed[1] is not None
    if accepted != bool(valid[1]):
        res.violation(None, f"validate({s!r}) = {valid[1]} but parse() = {parsed[1]!r}", case)
    groups = parsed[1]
    if cfg["kind"] == "categorical":
        verdict = categorical_oracle(s, cfg)
        if verdict == UNSPEC:
            res.count("unspecified_candidates")
        elif verdict == ACCEPT:
            res.count("definite_accepts_checked")
            if not accepted:
                mech = None
                if s.endswith("+") and r"(?<!\+)" in regex:
                    # s is in the language and ends in '+', so its last option ends in '+': the look-behind that is
                    # meant to forbid a dangling separator also forbids that option
                    mech = "C22.option_ending_in_plus_rejected"
                res.violation(mech, f"{s!r} is in the documented language of exclusive={cfg['exclusive']!r} "
                                    f"additive={cfg['additive']!r} but was rejected", case)
            else:
                res.count("group_delivery_checks")
                if groups.get("option") != s:
                    res.violation(None, f"{s!r} accepted but delivered option={groups.get('option')!r}", case)
        else:
            res.count("definite_rejects_checked")
            if accepted:
                mech = classify_categorical_overaccept(s, cfg, regex)
                res.violation(mech, f"{s!r} accepted (option={groups.get('option')!r}) but is neither one exclusive option "
                                    f"of {cfg['exclusive']!r} nor a '+'-list of additive options {cfg['additive']!r}", case)
        return verdict
    verdict, definite, unspec = number_oracle(s, cfg)
    if cfg.get("builtin"):
        res.count("builtin_constant_candidates")
    nad = [ch for ch in s if is_non_ascii_digit(ch)]
    if nad:
        res.count("non_ascii_digit_candidates")
        if verdict == REJECT:
            res.count("non_ascii_digit_rejects_checked")
            if all(ch.isdecimal() for ch in nad):
                asc = any(ch in "0123456789" for ch in s)
                res.count("non_ascii_digit_mixed_rejects" if asc else "non_ascii_digit_pure_rejects")
            if cfg["units"] and any(s.rstrip(" ").endswith(u) for u in cfg["units"]):
                res.count("non_ascii_digit_with_unit_rejects")
    if verdict == UNSPEC:
        res.count("unspecified_candidates")
    elif verdict == ACCEPT:
        res.count("definite_accepts_checked")
        if not accepted:
            res.violation(None, f"{s!r} is a documented number argument (units={cfg['units']!r}, non_negative="
                                f"{cfg['non_negative']}, int_only={cfg['int_only']}) but was rejected", case)
        else:
            res.count("group_delivery_checks")
            got = (groups.get("number"), groups.get("number_unit"))
            if len(definite | unspec) > 1:
                res.count("ambiguous_decompositions")
            if got not in (definite | unspec):
                res.violation(None, f"{s!r} accepted but delivered number={got[0]!r} unit={got[1]!r}; valid "
                                    f"decompositions: {sorted(definite | unspec, key=str)!r}", case)
            if not cfg["units"] and "number_unit" in groups:
                res.violation(None, f"group number_unit present although no units were declared ({s!r})", case)
    else:
        res.count("definite_rejects_checked")
        if accepted:
            mech = None
            num = groups.get("number") or ""
            if any(is_non_ascii_digit(ch) and ch.isdecimal() for ch in num) and \
                    number_token_class("".join(str(int(ch)) if ch.isdecimal() else ch for ch in num),
                                       cfg["non_negative"], cfg["int_only"]) != "no":
                # the delivered number is a documented number once its digits are mapped to 0-9: the digit class of
                # the pattern is wider than 0-9 (Unicode category Nd)
                mech = "C22.number_accepts_non_ascii_decimal_digits"
            res.violation(mech, f"{s!r} accepted (groups {groups!r}) but is not a documented number argument (units="
                                f"{cfg['units']!r}, non_negative={cfg['non_negative']}, int_only={cfg['int_only']})", case)
    return verdict


def _has_meta(cfg) -> bool:
    for lst in (cfg.get("units"), cfg.get("exclusive"), cfg.get("additive")):
        for it in lst or ():
            if any(ch in META or ch == " " for ch in it):
                return True
    return False


def run_config(cfg, rnd: random.Random, n: int, res: Result):
    built = _call(build, cfg)
    if built[0] == "exc":
        res.violation(None, f"pattern construction raised {built[1]}({built[2]})", {"cfg": cfg, "kind": "build"})
        return
    regex, parser = built[1]
    check_introspection(cfg, regex, parser, res)
    cands = categorical_candidates(rnd, cfg, n) if cfg["kind"] == "categorical" else number_candidates(rnd, cfg, n)
    meta = _has_meta(cfg)
    for origin, s in cands:
        verdict = check_candidate(cfg, regex, parser, origin, s, res)
        nontrivial = meta or origin != "member"
        key = (cfg.get("builtin") or cfg["kind"], cfg.get("non_negative"), cfg.get("int_only"), bool(cfg.get("units")),
               bool(cfg.get("exclusive")), bool(cfg.get("additive")), meta, origin, verdict)
        res.case(key if nontrivial else None,
                 sample={"cfg": cfg, "candidate": s, "origin": origin, "oracle": verdict} if nontrivial else None)


def plan(tier, seed):
    shards = 16 if tier == "quick" else 48
    total = 50000 if tier == "quick" else 2000000
    per_cfg = 25
    return [{"seed": seed * 1000003 + i, "configs": total // per_cfg // shards, "per_cfg": per_cfg} for i in range(shards)]


def run_shard(spec):
    res = Result()
    rnd = random.Random(spec["seed"])
    for _ in range(spec["configs"]):
        cfg = gen_config(rnd)
        run_config(cfg, rnd, spec["per_cfg"], res)
    return res


def replay(case):
    res = Result()
    cfg = case["cfg"]
    regex, parser = build(cfg)
    if case.get("kind") == "introspection":
        check_introspection(cfg, regex, parser, res)
    elif case.get("kind") == "candidate":
        check_candidate(cfg, regex, parser, case.get("origin", "replay"), case["string"], res)
    return res
