"""C25 - Composite hardware is transparent.

Differential rig: the same script of batch reads/writes is executed (A) through Composite_Hardware.read_batch /
write_batch and (B) register by register on the register's own layer; recording fake layers must see the same
(register, value) sequence per layer, the returned values must agree position by position, and the final per-layer
register memories must be identical."""
from __future__ import annotations

import itertools
import random

from opv.core import Result

ID = "C25"
LEVEL = "exploration"
TECHNIQUE = "runtime monitoring: differential of composite batch access against per-register access on recording fake layers"
RULE = ("exhaustive core: every assignment of n<=6 registers to L<=4 layers (L^n each) x register orders (all n! orders "
        "for n<=4 in the quick tier, n<=6 in the thorough tier; identity, reverse and 4 seeded orders otherwise), script "
        "= read batch, write batch (unique values), read batch; random part: 1-10 registers, 1-4 layers, 3-8 batches over "
        "random subsets in random orders (registers recur across consecutive batches), mixed Read/Write/Both registers, "
        "layers with and without native batch methods, registers whose value changes at every read. distinct = (n, L, "
        "layer pattern of the register order, script length); non-trivial = some batch touches >= 2 layers in an "
        "interleaved order (the composite has to regroup and then restore the order)")
ASSUMPTIONS = [
    "fake layers are deterministic per register (value read = last value written, an initial unique value, or a "
    "per-register read counter), so the order in which DIFFERENT layers are accessed cannot change any value",
    "'in the same order' is asserted per layer: the (register, value) access sequence each layer sees must equal the "
    "sequence of per-register accesses; the relative order of accesses to different layers is not asserted",
    "batches with the same register twice in ONE batch are generated but only counted (the quantifier says duplicates "
    "across batches)",
    "register lists are passed as lists (as the engine does); one-shot iterators are not explored",
]
REQUIRED = {"read_batches": 3000, "write_batches": 1500, "values_compared": 10000, "layer_log_entries_compared": 10000,
            "interleaved_batches": 1000, "final_memories_compared": 1500}
EXHAUSTIVE_ALL = False


# ---------------------------------------------------------------------------------------------------------------------

_CACHE: dict = {}


def _types():
    if _CACHE:
        return _CACHE["t"]
    from openpectus.engine.hardware import HardwareLayerBase, Register, RegisterDirection
    from openpectus.engine.composite_hardware import Composite_Hardware

    class RecLayer(HardwareLayerBase):
        def __init__(self, ident: int, native_batch: bool):
            super().__init__()
            self.ident = ident
            self.native_batch = native_batch
            self.mem: dict[str, object] = {}
            self.nreads: dict[str, int] = {}
            self.log: list[tuple] = []
            self.batch_calls = 0

        def read(self, r):
            n = self.nreads.get(r.name, 0)
            self.nreads[r.name] = n + 1
            if r.options.get("volatile"):
                v = f"L{self.ident}.{r.name}#read{n}"
            elif r.name in self.mem:
                v = self.mem[r.name]
            else:
                v = f"L{self.ident}.{r.name}.init"
            self.log.append(("R", r.name, v))
            return v

        def write(self, value, r):
            self.mem[r.name] = value
            self.log.append(("W", r.name, value))

        def read_batch(self, registers):
            self.batch_calls += 1
            if self.native_batch:
                return [self.read(r) for r in registers]
            return super().read_batch(registers)

        def write_batch(self, values, registers):
            self.batch_calls += 1
            if self.native_batch:
                for v, r in zip(values, registers):
                    self.write(v, r)
                return None
            return super().write_batch(values, registers)

        def __repr__(self):
            return f"RecLayer({self.ident})"

    dirs = {"R": RegisterDirection.Read, "W": RegisterDirection.Write, "B": RegisterDirection.Both}
    _CACHE["t"] = (RecLayer, Register, dirs, Composite_Hardware)
    return _CACHE["t"]


def make_world(case):
    """fresh layers + registers + composite for one case"""
    RecLayer, Register, dirs, Composite_Hardware = _types()
    nl = max(case["assign"]) + 1 if case["assign"] else 1
    nl = max(nl, case.get("layers", nl))
    layers = [RecLayer(i, case["native"][i % len(case["native"])]) for i in range(nl)]
    regs = []
    for i, li in enumerate(case["assign"]):
        regs.append(Register(f"r{i}", dirs[case["dirs"][i]], hardware=layers[li], volatile=bool(case["volatile"][i])))
    comp = Composite_Hardware()
    comp._registers = {r.name: r for r in regs}
    for layer in layers:
        layer._registers = {r.name: r for r in regs if r.options["hardware"] is layer}
    return comp, layers, regs


def interleaved(layer_seq) -> bool:
    """the sequence of layers is not already grouped (some layer re-appears after another one)"""
    seen, last = set(), None
    for x in layer_seq:
        if x != last:
            if x in seen:
                return True
            seen.add(x)
            last = x
    return False


def check_case(case, res: Result):
    """runs one script in both worlds; returns whether the case is non-trivial (an interleaved batch was compared)"""
    compA, layersA, regsA = make_world(case)
    _compB, layersB, regsB = make_world(case)
    viol = []
    any_interleaved = False
    dup_script = False
    try:
        compA.connect()
        for opi, op in enumerate(case["ops"]):
            idx = op["regs"]
            dup = len(set(idx)) != len(idx)
            dup_script = dup_script or dup
            if dup:
                res.count("batches_with_duplicate_register")
            lseq = [case["assign"][i] for i in idx]
            if interleaved(lseq):
                any_interleaved = True
                if not dup_script:
                    res.count("interleaved_batches")
            if op["op"] == "read":
                gotA = compA.read_batch([regsA[i] for i in idx])
                gotB = [regsB[i].options["hardware"].read(regsB[i]) for i in idx]
                if dup_script:
                    if gotA != gotB:
                        res.count("dup_within_batch_divergences")
                    continue
                res.count("read_batches")
                res.count("values_compared", len(idx))
                if not isinstance(gotA, list) or len(gotA) != len(gotB):
                    viol.append(f"batch #{opi} read_batch returned {gotA!r} for {len(idx)} registers")
                elif gotA != gotB:
                    bad = [(k, f"r{idx[k]}", gotA[k], gotB[k]) for k in range(len(idx)) if gotA[k] != gotB[k]]
                    viol.append(f"batch #{opi} read_batch over {[f'r{i}' for i in idx]} (layers {lseq}) differs from single reads at "
                                f"(position, register, composite, single): {bad[:4]}")
            else:
                vals = op["vals"]
                compA.write_batch(list(vals), [regsA[i] for i in idx])
                for v, i in zip(vals, idx):
                    regsB[i].options["hardware"].write(v, regsB[i])
                if dup_script:
                    continue
                res.count("write_batches")
            # per-layer access sequences so far
            for la, lb in zip(layersA, layersB):
                if la.log != lb.log:
                    k = next((j for j in range(min(len(la.log), len(lb.log))) if la.log[j] != lb.log[j]),
                             min(len(la.log), len(lb.log)))
                    viol.append(f"batch #{opi} ({op['op']} over {[f'r{i}' for i in idx]}, layers {lseq}): layer {la.ident} saw "
                                f"{la.log[k:k + 3]} where per-register access gives {lb.log[k:k + 3]} (entry {k})")
                    break
            if viol:
                break
        compA.disconnect()
    except Exception as ex:  # noqa: BLE001
        if not dup_script:
            viol.append(f"composite raised {type(ex).__name__}: {str(ex)[:200]}")
    if not dup_script and not viol:
        for la, lb in zip(layersA, layersB):
            res.count("layer_log_entries_compared", len(lb.log))
            res.count("final_memories_compared")
            if la.mem != lb.mem:
                viol.append(f"final memory of layer {la.ident} is {la.mem!r}, per-register writes give {lb.mem!r}")
    elif dup_script:
        if any(la.log != lb.log for la, lb in zip(layersA, layersB)):
            res.count("dup_within_batch_divergences")
    for msg in viol[:1]:
        res.violation(None, msg, case)
    return any_interleaved and not dup_script


def pattern(assign, order):
    """layer pattern of a register order, canonical up to renaming of layers"""
    ren, out = {}, []
    for i in order:
        out.append(ren.setdefault(assign[i], len(ren)))
    return tuple(out)


# ---------------------------------------------------------------------------------------------------------------------
# workloads

def exhaustive_items(max_n=6, max_l=4):
    for n in range(1, max_n + 1):
        for nl in range(1, max_l + 1):
            for assign in itertools.product(range(nl), repeat=n):
                yield n, nl, assign


def orders_for(n, tier, rnd: random.Random):
    full = 4 if tier == "quick" else 6
    if n <= full:
        return list(itertools.permutations(range(n)))
    ident = tuple(range(n))
    out = [ident, tuple(reversed(ident))]
    for _ in range(4):
        p = list(ident)
        rnd.shuffle(p)
        out.append(tuple(p))
    return out


def exhaustive_case(n, nl, assign, order, variant: int, uid: int):
    vals = [f"w{uid}.{k}" for k in range(n)]
    return {"assign": list(assign), "layers": nl, "dirs": ["B"] * n, "native": [bool((variant >> i) & 1) for i in range(nl)],
            "volatile": [1 if (variant >> 4) & 1 and i % 2 == 0 else 0 for i in range(n)],
            "ops": [{"op": "read", "regs": list(order)}, {"op": "write", "regs": list(order), "vals": vals},
                    {"op": "read", "regs": list(order)}]}


def random_case(rnd: random.Random, uid: int):
    n = rnd.randint(1, 10)
    nl = rnd.randint(1, 4)
    assign = [rnd.randrange(nl) for _ in range(n)]
    dirs = [rnd.choice("BBBBRW") for _ in range(n)]
    readable = [i for i in range(n) if dirs[i] in "RB"]
    writable = [i for i in range(n) if dirs[i] in "WB"]
    with_dup = rnd.random() < 0.1
    ops = []
    c = 0
    for _ in range(rnd.randint(3, 8)):
        is_read = rnd.random() < 0.5
        pool = readable if is_read else writable
        if not pool:
            continue
        k = rnd.randint(1, len(pool))
        idx = rnd.sample(pool, k)
        if with_dup and rnd.random() < 0.5:
            idx.insert(rnd.randrange(len(idx) + 1), rnd.choice(idx))
        if is_read:
            ops.append({"op": "read", "regs": idx})
        else:
            vals = []
            for _i in idx:
                c += 1
                vals.append(rnd.choice((f"w{uid}.{c}", c, float(c) + 0.5, None, True)) if rnd.random() < 0.3 else f"w{uid}.{c}")
            ops.append({"op": "write", "regs": idx, "vals": vals})
    if not ops:
        ops.append({"op": "read" if readable else "write", "regs": (readable or writable)[:1],
                    **({} if readable else {"vals": ["w"]})})
    return {"assign": assign, "layers": nl, "dirs": dirs, "native": [rnd.random() < 0.5 for _ in range(nl)],
            "volatile": [1 if rnd.random() < 0.25 else 0 for _ in range(n)], "ops": ops}


def plan(tier, seed):
    shards = 16 if tier == "quick" else 48
    n_random = 40000 if tier == "quick" else 600000
    return [{"seed": seed * 1000003 + i, "shard": i, "shards": shards, "tier": tier, "random": n_random // shards}
            for i in range(shards)]


def run_shard(spec):
    res = Result()
    rnd = random.Random(spec["seed"])
    tier = spec["tier"]
    uid = 0
    n_items = 0
    for k, (n, nl, assign) in enumerate(exhaustive_items()):
        if k % spec["shards"] != spec["shard"]:
            continue
        n_items += 1
        for order in orders_for(n, tier, rnd):
            uid += 1
            variant = rnd.randrange(32)
            case = exhaustive_case(n, nl, assign, order, variant, uid)
            nontrivial = check_case(case, res)
            res.case((n, nl, pattern(assign, order), "exh") if nontrivial else None,
                     sample={"assign": case["assign"], "order": list(order)} if nontrivial else None)
    res.count("exhaustive_assignments", n_items)
    full = 4 if tier == "quick" else 6
    res.exhaustive_parts.append(f"all assignments of n<=6 registers to L<=4 layers (6684 assignments) x all register orders "
                                f"for n<={full} (6 orders for larger n): read batch / write batch / read batch")
    for _ in range(spec["random"]):
        uid += 1
        case = random_case(rnd, uid)
        nontrivial = check_case(case, res)
        key = None
        if nontrivial:
            first = next(op["regs"] for op in case["ops"] if interleaved([case["assign"][i] for i in op["regs"]]))
            key = (len(case["assign"]), case["layers"], pattern(case["assign"], first), len(case["ops"]))
        res.case(key, sample={"assign": case["assign"], "ops": case["ops"][:3]} if nontrivial else None)
    return res


def replay(case):
    res = Result()
    check_case(case, res)
    return res
