"""C07 - Method clocks advance only while running.

Per-tick difference monitor over the four clock tags (Process Time, Run Time, Block Time, Scope Time) of the real
engine, judged against System State / Run Id as they stood when the tick began (see DESIGN.md C07). Workload:
bounded-exhaustive sequences of user control commands and ticks with increments from {0.1, 0.05, 0.3}, from several
start situations, over methods with blocks/watches (so that Block/Scope Time are live) and with a failing
instruction (error-induced pause); thorough adds longer random sequences over generated methods.
"""
from __future__ import annotations

import itertools
import random

from opv.core import Result
from opv.gen_pcode import Gen

ID = "C07"
LEVEL = "exploration"
TECHNIQUE = "runtime monitoring: per-tick clock-difference invariants against the state at tick begin"
RULE = ("bounded-exhaustive: every sequence of length <= L over the alphabet {Start, Stop, Pause, Unpause, Hold, Unhold, "
        "Restart, tick(0.1), tick(0.3)[, tick(0.05)]} (quick: L=4 without tick(0.05); thorough: L=5 with all three ticks, plus "
        "L=6 with tick(0.1) only from the running situation) x start situations {stopped; running inside a block with an active Watch; "
        "paused; holding; error-paused} x methods {blocks+watch; failing UOD command; invalid instruction}, each followed by "
        "7 settle ticks with rotating increments; thorough adds random sequences of length 8-24 over generated methods "
        "(blocks, watches, alarms, timed Pause/Hold, failing commands). INTERPRETER-PATH stratum: every sequence of length "
        "<= 3 (thorough <= 4) over the user commands, tick(0.1), tick(0.3) and the 7 control commands scheduled through "
        "Engine.schedule_execution (the interpreter's entry, no user gating; applied only while a run is active) that "
        "contains at least one scheduled command, from {running in a block; holding[; paused]}; the random sequences also "
        "inject every engine-command instruction the parser accepts (Stop Restart Pause Hold Unpause Unhold Info Warning "
        "Error, timed Pause/Hold) and schedule commands directly. distinct = (method, start situation, sequence); "
        "non-trivial = at least one tick was judged that began Paused or Holding, or a run start was judged")
ASSUMPTIONS = [
    "'state of the tick' is System State / Run Id read immediately before Engine.tick (the engine updates the clocks "
    "before it executes queued commands)",
    "'a run starts' is read as: a new non-empty Run Id is visible at the end of a tick; 'zero' is checked at the end of "
    "that tick",
    "'during the run': a run that is active when a tick begins (Run Id shown, System State not Stopped) only ends in "
    "that tick if the engine announces the run end (on_stop, emitted by Stop and Restart) or the Restart command opens "
    "the next run in it (a Restart executed; whether it announced the run end is not a clock matter). Otherwise the whole "
    "tick belongs to that run and Process/Run Time must not decrease over it - also when the tick ends with another Run "
    "Id or announced a run start: a Run Id change alone does not open a new run for the 'never decrease' clause",
    "commands scheduled through Engine.schedule_execution stand for commands issued by the method: they are applied "
    "between ticks and only while a run is active (the interpreter is only ticked during a run); the engine's own "
    "refusal of such a command (e.g. Start while a run is active) must leave the clocks alone",
    "'only while a run is active' is refuted only when the tick began with System State Stopped",
    "Block/Scope Time increases over ticks that began in state Restarting (run being torn down; values are reset when "
    "the new run starts) are not judged: the statement names Paused and Holding",
    "ticks in which a block/scope event was emitted are excluded from the Block/Scope Time rule (the tag switches to "
    "another scope's clock); these cannot occur while Paused/Holding unless a run ends/starts",
    "clock tags are read through Tag.get_value(), i.e. the value thresholds and the frontend see",
]
REQUIRED = {"ticks_judged": 20000, "run_starts_judged": 2000, "paused_ticks_judged": 2000, "holding_ticks_judged": 2000,
            "cmd_paused_ticks_judged": 1000, "not_running_pt_checks": 5000, "stopped_rt_checks": 1000,
            "same_run_monotone_checks": 10000,
            # interpreter-path commands: scheduled while a run is active and the tick that executed them judged by the
            # 'never decrease during the run' clause; the alphabet covers the engine's command registry
            "sched_cmds_applied": 5000, "monotone_checks_over_tick_after_scheduled_Start": 300,
            "monotone_checks_over_tick_after_scheduled_cmd": 3000, "run_boundaries_with_run_end_seen": 2000,
            "alphabet_covers_command_registry": 1}
EXHAUSTIVE_ALL = False

USER = ("Start", "Stop", "Pause", "Unpause", "Hold", "Unhold", "Restart")
# control commands scheduled through Engine.schedule_execution (the entry the interpreter uses for a command line of the
# method; no user gating) and instruction lines injected with Engine.inject_code. Checked against the engine's own
# registry (EngineCommandEnum / EngineCommandNode.instruction_names) by registry_covered().
SCHED = tuple("s:" + c for c in USER)
INJECT = ("i:Stop", "i:Restart", "i:Pause", "i:Pause: 0.2s", "i:Hold", "i:Hold: 0.2s", "i:Unpause", "i:Unhold",
          "i:Info: x", "i:Warning: x", "i:Error: x")
TICKS = {"t1": 0.1, "t3": 0.3, "t05": 0.05}
SETTLE = ("t1", "t3", "t05", "t1", "t1", "t3", "t1")

METHODS = {
    "blocks": ("Base: s\nBlock: A\n    Mark: a\n    Watch: Run Counter >= 0\n        Mark: w\n        Wait: 0.4s\n"
               "    Block: B\n        Wait: 0.3s\n        End block\n    Wait: 30s\n    End block\nMark: z\n"),
    "fail_cmd": "Base: s\nBlock: A\n    Mark: a\n    Fail\n    Wait: 30s\n    End block\n",
    "bad_instr": "Base: s\nWatch: Run Counter >= 0\n    Mark: w\n    Wait: 30s\nMark: a\nFoo: 1\nWait: 30s\n",
}
PRELUDES = {
    "stopped": (),
    "running": ("Start", "t1", "t1", "t1", "t1", "t1", "t1"),
    "paused": ("Start", "t1", "t1", "t1", "t1", "t1", "t1", "Pause", "t1"),
    "holding": ("Start", "t1", "t1", "t1", "t1", "t1", "t1", "Hold", "t1"),
    "errpaused": ("Start",) + ("t1",) * 12,          # only meaningful for the failing methods
}


# ------------------------------------------------------------------------------------------------
class Monitor:
    """Drives one rig through a symbol sequence and judges every tick."""

    def __init__(self, rig, res: Result):
        self.rig = rig
        self.res = res
        self.viol: list[tuple[str | None, str]] = []
        self.hist: list[str] = []
        self.pause_origin: str | None = None      # "cmd" (Pause command ran), "error" (set_error_state), None
        self.n_err_seen = 0
        self.start_origins: list[str] = []         # class names of the commands that emitted on_start in this tick
        self.scope_events = 0
        self.interesting = False
        self.runstate_events = 0
        self.stop_events = 0                       # run ends announced (on_stop) in this tick
        self.sched_pending: list[str] = []         # commands scheduled / injected since the last tick
        em = rig.e.emitter
        mon = self

        def wrap(name, fn):
            orig = getattr(em, name)

            def w(*a, **kw):
                fn(*a, **kw)
                return orig(*a, **kw)
            setattr(em, name, w)

        def on_rs(change, *a, **kw):
            mon.runstate_events += 1
            if str(change) == "Pause":
                mon.pause_origin = "cmd"
            elif str(change) == "Unpause":
                mon.pause_origin = None

        def on_start(*a, **kw):
            mon.pause_origin = None
            mon.scope_events += 1
            # which engine command opens the run: the caller of emitter.emit_on_start (observation only)
            import sys
            caller = sys._getframe(2).f_locals.get("self")
            mon.start_origins.append(type(caller).__name__)

        def on_scope(*a, **kw):
            mon.scope_events += 1

        def on_stop(*a, **kw):
            mon.scope_events += 1
            mon.stop_events += 1
        wrap("emit_on_runstate_change", on_rs)
        wrap("emit_on_start", on_start)
        wrap("emit_on_stop", on_stop)
        for nm in ("emit_on_block_start", "emit_on_block_end", "emit_on_scope_start", "emit_on_scope_activate",
                   "emit_on_scope_end"):
            wrap(nm, on_scope)

    def clocks(self):
        t = self.rig.e.tags
        return (float(t["Process Time"].get_value()), float(t["Run Time"].get_value()),
                float(t["Block Time"].get_value()), float(t["Scope Time"].get_value()))

    def V(self, mech, msg):
        self.viol.append((mech, msg))

    def step(self, sym: str) -> bool:
        """Returns False if the case has to be abandoned (engine tick raised)."""
        rig = self.rig
        if sym in USER:
            ok = rig.user(sym)
            self.hist.append(sym + ("" if ok else "(rejected)"))
            return True
        if sym[:2] in ("s:", "i:"):
            # a command issued on the interpreter's path: only while a run is active (the interpreter is not ticked
            # otherwise)
            if rig.state == "Stopped":
                self.res.count("sched_cmds_skipped_no_run_active")
                self.hist.append(sym + "(skipped)")
                return True
            try:
                if sym[0] == "s":
                    rig.e.schedule_execution(sym[2:])
                else:
                    rig.e.inject_code(sym[2:])
            except Exception as ex:
                self.res.count("sched_cmd_raised")
                self.hist.append(sym + f"(raised {type(ex).__name__})")
                return False
            self.res.count("sched_cmds_applied" if sym[0] == "s" else "injected_cmds_applied")
            if sym[0] == "s":
                self.sched_pending.append(sym[2:])      # executes in the next tick (an injected line: some ticks later)
            self.hist.append(sym)
            return True
        dt = TICKS[sym]
        res = self.res
        s0 = rig.state
        r0 = rig.tag("Run Id") or ""
        pt0, rt0, bt0, st0 = self.clocks()
        origin0 = self.pause_origin
        self.scope_events = 0
        self.stop_events = 0
        self.start_origins = []
        sched, self.sched_pending = self.sched_pending, []
        first = rig.first
        rig.tick(dt=dt, catch=True)
        if rig.tick_exc:
            res.count("engine_tick_raised")
            return False
        # errors recorded during this tick decide the origin of the *following* paused ticks
        if len(rig.errors) > self.n_err_seen:
            self.n_err_seen = len(rig.errors)
            if self.pause_origin is None:
                self.pause_origin = "error"
        s1 = rig.state
        r1 = rig.tag("Run Id") or ""
        pt1, rt1, bt1, st1 = self.clocks()
        k = rig.k
        inc = 0.0 if first else dt
        self.hist.append(f"{sym}->{s1}")
        res.count("ticks_judged")

        # (a) zero at run start
        if r1 and r1 != r0:
            res.count("run_starts_judged")
            if not r0 or s0 == "Stopped" or self.stop_events:
                res.count("run_boundaries_with_run_end_seen")
            elif any(o == "RestartEngineCommand" for o in self.start_origins):
                # the Restart command opened the run without announcing the end of the one before (seen on the
                # unchanged tree when a Restart command instance left over from an earlier cycle is resumed): a
                # Restart executed, so this is a run boundary for the clock clauses; run-end events are C06/C10 matter
                res.count("run_boundaries_by_restart_without_announced_run_end")
            self.interesting = True
            via_restart = bool(self.start_origins) and all(o == "RestartEngineCommand" for o in self.start_origins)
            if via_restart:
                res.count("run_starts_via_restart")
            if pt1 != 0.0 or rt1 != 0.0:
                mech = None
                if via_restart and pt1 in (pt0, pt0 + inc) and rt1 in (rt0, rt0 + inc):
                    # the run was opened by the Restart command alone (no Start command ran) and both clocks simply
                    # continue from the previous run (carried over, at most advanced by this tick's own increment)
                    mech = "C07.restart_keeps_clocks"
                self.V(mech, f"tick {k}: new Run Id appears but Process Time={pt1!r} Run Time={rt1!r} (state before tick "
                             f"{s0}, after {s1}; run opened by {self.start_origins})")
        # (b) never decrease within a run. The tick lies within one run if the Run Id is the same at both ends, or if a
        # run was active when it began and neither a run end was announced in it nor the Restart command opened a run
        # in it (then a changed Run Id / an announced run start is not a run boundary: the run that was active has not
        # ended, no Stop or Restart executed)
        no_run_end = (bool(r0) and s0 != "Stopped" and not self.stop_events
                      and not any(o == "RestartEngineCommand" for o in self.start_origins))
        if r0 and (r1 == r0 or no_run_end):
            res.count("same_run_monotone_checks")
            if sched and no_run_end:
                res.count("monotone_checks_over_tick_after_scheduled_cmd")
                if "Start" in sched:
                    res.count("monotone_checks_over_tick_after_scheduled_Start")
            how = "within run" if r1 == r0 else (f"during the run {r0!r}: no run end was announced in this tick, yet it "
                                                 f"ends with Run Id {r1!r} (run starts announced by {self.start_origins})")
            if pt1 < pt0:
                self.V(None, f"tick {k}: Process Time decreased {pt0!r} -> {pt1!r} {how} (state {s0}->{s1})")
            if rt1 < rt0:
                self.V(None, f"tick {k}: Run Time decreased {rt0!r} -> {rt1!r} {how} (state {s0}->{s1})")
        # (c) Process Time only over ticks that began Running
        if s0 != "Running":
            res.count("not_running_pt_checks")
            if pt1 > pt0:
                self.V(None, f"tick {k}: Process Time advanced {pt0!r} -> {pt1!r} over a tick that began {s0}")
        # (d) Run Time only while a run is active
        if s0 == "Stopped":
            res.count("stopped_rt_checks")
            if rt1 > rt0:
                self.V(None, f"tick {k}: Run Time advanced {rt0!r} -> {rt1!r} over a tick that began Stopped "
                             f"(run id before tick: {r0!r})")
        # (e) Block / Scope Time only while Running: not Paused, not Holding
        if s0 in ("Paused", "Holding"):
            self.interesting = True
            if self.scope_events:
                res.count("paused_or_holding_ticks_with_scope_event_not_judged")
            else:
                res.count("paused_ticks_judged" if s0 == "Paused" else "holding_ticks_judged")
                if s0 == "Paused":
                    res.count("cmd_paused_ticks_judged" if origin0 == "cmd" else "error_paused_ticks_judged"
                              if origin0 == "error" else "paused_ticks_unknown_origin")
                for name, a, b in (("Block Time", bt0, bt1), ("Scope Time", st0, st1)):
                    if b > a:
                        mech = None
                        if s0 == "Holding" and origin0 != "cmd":
                            # engine is on hold, no Pause command in effect: the tags only know PAUSE/UNPAUSE
                            mech = "C07.scope_clocks_run_while_holding"
                        elif s0 == "Paused" and origin0 == "error":
                            # paused by set_error_state: no PAUSE run-state event was ever emitted to the tags
                            mech = "C07.scope_clocks_run_during_error_pause"
                        self.V(mech, f"tick {k}: {name} advanced {a!r} -> {b!r} (increment {inc}) over a tick that began "
                                     f"{s0} (pause origin: {origin0})")
        elif s0 == "Restarting" and (bt1 > bt0 or st1 > st0) and not self.scope_events:
            res.count("restarting_ticks_scope_clock_advanced_not_judged")
        return True


def run_sequence(method: str, symbols, res: Result, case: dict, nontrivial_key, fail_at=1):
    from opv.rigs import engine_rig as R
    rig = R.EngineRig(method, hooks=False, fail_at=fail_at)
    mon = Monitor(rig, res)
    try:
        for sym in symbols:
            if not mon.step(sym):
                break
    finally:
        rig.close()
    res.count("runstate_events", mon.runstate_events)
    res.case(nontrivial_key if mon.interesting else None,
             sample={"case": case, "history": mon.hist[:40]})
    seen = set()
    for mech, msg in mon.viol:
        if mech in seen:
            continue          # one witness per mechanism per case
        seen.add(mech)
        res.violation(mech, msg + " | history: " + " ".join(mon.hist)[:700], case)


# ------------------------------------------------------------------------------------------------
def _alphabet(names):
    return list(USER) + list(names)


def registry_covered(res: Result) -> None:
    """The interpreter-path alphabet is written out above; compare it with what the code under test registers: every
    member of EngineCommandEnum that has a command class taking no mandatory argument must be schedulable (SCHED), every
    instruction name the parser turns into an engine command must be injectable (INJECT)."""
    from openpectus.engine.models import EngineCommandEnum
    from openpectus.lang.model.ast import EngineCommandNode
    import openpectus.engine.internal_commands_impl as impl
    registered = set()
    for nm in dir(impl):
        cls = getattr(impl, nm)
        if isinstance(cls, type) and nm.endswith("EngineCommand") and nm != "InternalEngineCommand":
            registered.add(nm[:-len("EngineCommand")])
    control = {str(c) for c in EngineCommandEnum if str(c) in registered} - {"Info", "Warning", "Error"}
    missing = sorted(control - {x[2:] for x in SCHED})
    missing += sorted(set(EngineCommandNode.instruction_names) - {x[2:].split(":")[0] for x in INJECT})
    if missing:
        res.notes.append(f"engine commands missing from the C07 interpreter-path alphabet: {missing}")
        res.count("engine_commands_not_in_alphabet", len(missing))
    else:
        res.count("alphabet_covers_command_registry")


def plan(tier, seed):
    specs = []
    if tier == "quick":
        shards = 14
        for i in range(shards):
            specs.append({"kind": "enum", "alpha": ["t1", "t3"], "maxlen": 4, "shard": i, "of": shards,
                          "combos": [["blocks", "stopped"], ["blocks", "running"], ["blocks", "holding"],
                                     ["fail_cmd", "running"], ["bad_instr", "errpaused"]], "seed": seed})
        for i in range(2):
            specs.append({"kind": "random", "seed": seed * 1000003 + i, "n": 500, "minlen": 8, "maxlen": 20})
        for i in range(4):
            specs.append({"kind": "interp", "alpha": ["t1", "t3"], "maxlen": 3, "shard": i, "of": 4,
                          "combos": [["blocks", "running"], ["blocks", "holding"]], "seed": seed})
    else:
        shards = 40
        for i in range(shards):
            specs.append({"kind": "enum", "alpha": ["t1", "t3", "t05"], "maxlen": 5, "shard": i, "of": shards,
                          "combos": [["blocks", "stopped"], ["blocks", "running"], ["blocks", "paused"],
                                     ["blocks", "holding"], ["fail_cmd", "running"], ["bad_instr", "errpaused"]],
                          "seed": seed})
        for i in range(12):
            specs.append({"kind": "enum", "alpha": ["t1"], "maxlen": 6, "minlen": 6, "shard": i, "of": 12,
                          "combos": [["blocks", "running"]], "seed": seed})
        for i in range(12):
            specs.append({"kind": "random", "seed": seed * 1000003 + 100 + i, "n": 2500, "minlen": 8, "maxlen": 24})
        for i in range(16):
            specs.append({"kind": "interp", "alpha": ["t1", "t3"], "maxlen": 4, "shard": i, "of": 16,
                          "combos": [["blocks", "running"], ["blocks", "paused"], ["blocks", "holding"],
                                     ["fail_cmd", "running"]], "seed": seed})
    return specs


def gen_method(rnd: random.Random) -> str:
    g = Gen(rnd, allow=("mark", "uod", "wait", "block", "watch", "alarm", "thr", "pausehold", "blank"), max_depth=3,
            uod_cmds=("Short", "Long", "Fail", "Short", "Other", "Set1: 3"),
            watch_conds=("Run Counter >= 0", "Block Time > 0.3 s", "X = 0"), alarm_conds=("Run Counter >= 0", "X = 0"),
            thr_values=("0.2", "0.5", "1", "0"), wait_values=("0.2", "0.5", "1", "3"))
    text = g.program(rnd.randint(3, 8))
    if rnd.random() < 0.15:
        text += "Foo: 1\n"
    if rnd.random() < 0.5:
        text += "Wait: 20s\n"
    return text


def run_shard(spec):
    res = Result()
    if spec["kind"] == "enum":
        alpha = _alphabet(spec["alpha"])
        lo = spec.get("minlen", 1)
        idx = 0
        n_seq = 0
        for L in range(lo, spec["maxlen"] + 1):
            for seq in itertools.product(alpha, repeat=L):
                idx += 1
                if idx % spec["of"] != spec["shard"]:
                    continue
                n_seq += 1
                for mname, pname in spec["combos"]:
                    case = {"kind": "enum", "method": mname, "prelude": pname, "seq": list(seq)}
                    run_sequence(METHODS[mname], PRELUDES[pname] + seq + SETTLE, res, case, (mname, pname, seq))
        if spec["shard"] == 0:
            res.exhaustive_parts.append(
                f"all sequences of length {lo}..{spec['maxlen']} over {alpha} x {spec['combos']} (method, start situation)")
        res.count("enumerated_sequences", n_seq)
    elif spec["kind"] == "interp":
        # interpreter-path stratum: every sequence over user commands + scheduled commands + ticks that contains at
        # least one scheduled command, from situations in which a run is active
        alpha = _alphabet(spec["alpha"]) + list(SCHED)
        idx = 0
        n_seq = 0
        for L in range(1, spec["maxlen"] + 1):
            for seq in itertools.product(alpha, repeat=L):
                if not any(x in SCHED for x in seq):
                    continue
                idx += 1
                if idx % spec["of"] != spec["shard"]:
                    continue
                n_seq += 1
                for mname, pname in spec["combos"]:
                    case = {"kind": "enum", "method": mname, "prelude": pname, "seq": list(seq)}
                    run_sequence(METHODS[mname], PRELUDES[pname] + seq + SETTLE, res, case, (mname, pname, seq))
        if spec["shard"] == 0:
            registry_covered(res)
            res.exhaustive_parts.append(
                f"all sequences of length 1..{spec['maxlen']} over {alpha} with at least one scheduled command x "
                f"{spec['combos']} (method, start situation)")
        res.count("interp_sequences", n_seq)
    else:
        rnd = random.Random(spec["seed"])
        alpha = _alphabet(["t1", "t3", "t05", "t1", "t1", "t1"])
        alpha = alpha * 3 + list(SCHED) + list(INJECT)
        for _ in range(spec["n"]):
            text = gen_method(rnd) if rnd.random() < 0.8 else METHODS[rnd.choice(sorted(METHODS))]
            n = rnd.randint(spec["minlen"], spec["maxlen"])
            seq = ["Start"] + [rnd.choice(alpha) for _ in range(n)]
            fail_at = rnd.choice([1, 1, 2, 3])
            case = {"kind": "random", "text": text, "seq": seq, "fail_at": fail_at}
            run_sequence(text, tuple(seq) + SETTLE, res, case, (text, tuple(seq)), fail_at=fail_at)
        res.count("random_sequences", spec["n"])
    return res


def replay(case):
    res = Result()
    if case["kind"] == "enum":
        run_sequence(METHODS[case["method"]], PRELUDES[case["prelude"]] + tuple(case["seq"]) + SETTLE, res, case, "replay")
    else:
        run_sequence(case["text"], tuple(case["seq"]) + SETTLE, res, case, "replay", fail_at=case.get("fail_at", 1))
    return res
