"""C26 - Protocol messages round-trip through JSON.

Protocol rig: every MessageBase subclass reachable in the three protocol namespaces is instantiated from its type
annotations and pushed through the real wire paths (websocket-rpc request envelope, rpc reply path for status messages,
REST registration through the real AggregatorDispatcher route); malformed envelopes must be rejected with
ProtocolDeserializationException and nothing else."""
from __future__ import annotations

import enum
import json
import math
import random
import types
import typing

from opv.core import Result

ID = "C26"
LEVEL = "exploration"
TECHNIQUE = "runtime monitoring: type-driven round trip through the real rpc/REST envelopes, reflection over all message classes"
RULE = ("all MessageBase subclasses found by reflection in aggregator_messages, engine_messages and messages; field values "
        "generated from the pydantic annotations (int incl. |v| > 2^64, finite float incl. -0.0/5e-324/1.79e308, str incl. "
        "'', non-BMP, NUL, quotes, backslashes, JSON look-alikes, bool, None, enums, Literal, constrained ints, list/set/dict "
        "of 0-4 elements, nested models to depth 4, every member of a union; additionally +inf/-inf/nan in every float "
        "position that is not a dict key, ints given to float fields, enum members given by value, strings of 5k-20k "
        "characters); path A: serialize -> RpcMessage(request="
        "RpcRequest(arguments={'message_json': ...})).model_dump_json() -> json.loads -> RpcMessage.model_validate -> "
        "deserialize; path B (classes of namespace messages): json.dumps(serialize(m)) inside RpcResponse.result; path C "
        "(RegisterEngineMsg / RegisterEngineReplyMsg): HTTP POST to the real AggregatorDispatcher route via TestClient; "
        "path D (every class): deserialize(json.loads(json.dumps(serialize(m)))) - the plain JSON text hop both "
        "dispatchers apply to rpc results. Equality treats nan as equal to nan. "
        "Malformed envelopes: every attribute name of the three namespaces as _type (enumerated), missing/unknown/"
        "non-string _type and _ns, non-dict envelopes, wrong field types. distinct = (class, set of generated union "
        "branches / container sizes); non-trivial = the instance has a non-default field value")
ASSUMPTIONS = [
    "strings are valid Unicode (no lone surrogates)",
    "non-finite floats are generated for float values, not for float dict keys (a numeric dict key is already lost, "
    "C26.non_string_dict_keys); Python's json spelling Infinity/-Infinity/NaN counts as JSON because that is what the "
    "dispatchers write and read",
    "equality is nan-aware only when the sent message holds a nan: same classes and field-wise equal with nan == nan",
    "equality is pydantic's model __eq__ (same class and equal field values); changes of a field value's Python type "
    "that keep == (1 vs 1.0) are only counted",
    "an attribute name that resolves to a MessageBase subclass re-exported in another namespace (e.g. aggregator_messages."
    "SuccessMessage) is a known type; whether it is accepted is not asserted",
    "wrong field types: only 'returns a MessageBase or raises ProtocolDeserializationException' is asserted (pydantic may "
    "legitimately coerce '5' to 5)",
    "a field annotation the generator does not understand crashes the shard (INCONCLUSIVE) instead of being skipped",
]
REQUIRED = {"message_classes": 20, "rpc_round_trips": 3000, "rest_round_trips": 20, "reply_path_round_trips": 200,
            "malformed_envelopes": 500, "namespace_attribute_names_tried": 100, "json_text_round_trips": 3000,
            "nonfinite_in_nullable_float_field_json_text_judged": 25,
            "nonfinite_in_required_float_field_json_text_judged": 60,
            "nonfinite_in_nullable_float_field_rpc_request_judged": 25,
            "nonfinite_in_required_float_field_rpc_request_judged": 60,
            "nan_round_trips_judged": 30, "very_long_string_round_trips": 10}
EXHAUSTIVE_ALL = False

STRINGS = ["", "a", "Mark: A", "x y", "\u00e9", "\u4e2d\u6587", "\U0001F600", "a\nb", "\t", "\x00", "\"quoted\"", "back\\slash",
           "null", "true", "1", "1.0", "{}", "[1]", "_type", "\u00b5S/cm", "\u00b0C", " ", "\xa0", "\u2028", "\x7f", "'", "\ufeff",
           "\U0001F468\u200d\U0001F469", "NaN", "Infinity", "-Infinity", "nan", "inf", "false", "None", "1e5", "-0", "0x10", "[]",
           "\"\"", "\ud7ff\ue000\uffff", "\U0010ffff"]
INTS = [0, 1, -1, 2, 7, 255, -2 ** 31, 2 ** 31, 2 ** 53, 2 ** 53 + 1, -(2 ** 53) - 1, 2 ** 63 - 1, -2 ** 63, 2 ** 64, 10 ** 30, -10 ** 25]
FLOATS = [0.0, -0.0, 1.0, -1.0, 0.1, 0.30000000000000004, 1e-7, 1.5, 2.5, 1e16, 1e22, 123456789.123456789, 5e-324, 2.2250738585072014e-308,
          1.7976931348623157e308, -1.7976931348623157e308, 3.141592653589793, 1e-320, 100.0, 1700000000.123]
NONFINITE = [float("inf"), float("-inf"), float("nan")]


def message_classes():
    import openpectus.protocol.aggregator_messages as AM
    import openpectus.protocol.engine_messages as EM
    import openpectus.protocol.messages as M
    out = []
    for ns in (AM, EM, M):
        for name, obj in sorted(vars(ns).items()):
            if isinstance(obj, type) and issubclass(obj, M.MessageBase) and obj not in out:
                out.append(obj)
    return out


# ---------------------------------------------------------------------------------------------------------------------
# type-driven generator

class Gen:
    def __init__(self, rnd: random.Random):
        self.rnd = rnd
        self.trace: list[str] = []          # which union branches / sizes were taken (for distinct-case counting)
        self.nondefault = False
        self.nonfinite: set[str] = set()    # "nullable" / "required": kind of float position that got inf/-inf/nan
        self.long_string = False

    def string(self):
        r = self.rnd
        x = r.random()
        if x < 0.004:
            self.long_string = True
            return "".join(r.choice(STRINGS) or "\u4e2d" for _ in range(r.randint(5000, 20000)))[:20000]
        if x < 0.6:
            return r.choice(STRINGS)
        if x < 0.9:
            return "".join(r.choice("abcXYZ 0123_-:./") for _ in range(r.randint(1, 12)))
        return "".join(r.choice(STRINGS) for _ in range(r.randint(2, 30)))

    def integer(self, lo=None, hi=None):
        r = self.rnd
        for _ in range(50):
            v = r.choice(INTS) if r.random() < 0.5 else r.randint(-1000, 100000)
            if (lo is None or v >= lo) and (hi is None or v <= hi):
                return v
        return lo if lo is not None else 0

    def floating(self, finite_only=False):
        r = self.rnd
        x = r.random()
        if x < 0.12:
            return r.choice(FLOATS) if finite_only else r.choice(NONFINITE)
        if x < 0.16:
            return r.choice(INTS)                     # an int where a float is declared
        if x < 0.6:
            return r.choice(FLOATS)
        return r.uniform(-1e6, 1e6) * 10 ** r.randint(-8, 8)

    def value(self, ann, depth=0, metadata=(), nullable=False, key=False):
        """nullable: None is admitted at this position (an enclosing union has a None member); key: a dict key"""
        r = self.rnd
        origin = typing.get_origin(ann)
        if ann is typing.Any:
            return self.value(r.choice((int, str, float, bool, type(None))), depth, nullable=True, key=key)
        if origin is typing.Annotated:
            base, *meta = typing.get_args(ann)
            return self.value(base, depth, tuple(meta) + tuple(metadata), nullable, key)
        if origin in (typing.Union, types.UnionType):
            args = typing.get_args(ann)
            pick = r.choice(args)
            self.trace.append(f"U{args.index(pick)}")
            return self.value(pick, depth, metadata, nullable or type(None) in args, key)
        if origin is typing.Literal:
            return r.choice(typing.get_args(ann))
        if origin in (list, typing.List, typing.Sequence) or ann is list:
            (t,) = typing.get_args(ann) or (typing.Any,)
            n = self._size(depth)
            return [self.value(t, depth + 1) for _ in range(n)]
        if origin in (set, frozenset) or ann is set:
            (t,) = typing.get_args(ann) or (str,)
            n = self._size(depth)
            return {self.value(t, depth + 1) for _ in range(n)}
        if origin is dict or ann is dict:
            kt, vt = typing.get_args(ann) or (str, typing.Any)
            n = self._size(depth)
            return {self.value(kt, depth + 1, key=True): self.value(vt, depth + 1) for _ in range(n)}
        if ann is type(None):
            return None
        if ann is bool:
            return r.random() < 0.5
        if ann is int:
            lo = hi = None
            for m in metadata:
                for attr, kind in (("ge", "lo"), ("gt", "lo1"), ("le", "hi"), ("lt", "hi1")):
                    v = getattr(m, attr, None)
                    if v is not None:
                        if kind == "lo":
                            lo = v
                        elif kind == "lo1":
                            lo = v + 1
                        elif kind == "hi":
                            hi = v
                        else:
                            hi = v - 1
            return self.integer(lo, hi)
        if ann is float:
            v = self.floating(finite_only=key)
            if isinstance(v, float) and not math.isfinite(v):
                self.nonfinite.add("nullable" if nullable else "required")
            return v
        if ann is str:
            return self.string()
        if isinstance(ann, type) and issubclass(ann, enum.Enum):
            member = r.choice(list(ann))
            return member.value if r.random() < 0.25 else member      # pydantic accepts an enum by value
        if isinstance(ann, type) and hasattr(ann, "model_fields"):
            return self.model(ann, depth + 1)
        raise TypeError(f"C26 generator: unsupported annotation {ann!r}")

    def _size(self, depth):
        n = self.rnd.choice((0, 1, 1, 2, 3, 4)) if depth < 3 else self.rnd.choice((0, 0, 1))
        self.trace.append(f"n{n}")
        return n

    def model(self, cls, depth=0):
        kwargs = {}
        for name, fi in cls.model_fields.items():
            required = fi.is_required()
            if not required and self.rnd.random() < 0.25:
                continue                               # keep the default
            kwargs[name] = self.value(fi.annotation, depth, tuple(fi.metadata))
            self.nondefault = True
        return cls(**kwargs)


# ---------------------------------------------------------------------------------------------------------------------
# round-trip paths

def rpc_request_path(msg):
    from fastapi_websocket_rpc.schemas import RpcMessage, RpcRequest
    from openpectus.protocol.serialization import serialize, deserialize
    wire = RpcMessage(request=RpcRequest(method="dispatch_message_async", arguments={"message_json": serialize(msg)},
                                         call_id="c1")).model_dump_json()
    parsed = RpcMessage.model_validate(json.loads(wire))
    return deserialize(parsed.request.arguments["message_json"])


def rpc_reply_path(msg):
    from fastapi_websocket_rpc.schemas import RpcMessage, RpcResponse
    from openpectus.protocol.serialization import serialize, deserialize
    result = json.dumps(serialize(msg))                       # what dispatch_message_async returns
    wire = RpcMessage(response=RpcResponse(result=result, result_type="str", call_id="c1")).model_dump_json()
    parsed = RpcMessage.model_validate(json.loads(wire))
    return deserialize(json.loads(parsed.response.result))


def json_text_path(msg, encode_only=False):
    """the plain JSON text hop: what both dispatchers do with an rpc result (json.dumps(serialize(m)) on one side,
    deserialize(json.loads(text)) on the other), applied to every message class"""
    from openpectus.protocol.serialization import serialize, deserialize
    text = json.dumps(serialize(msg))
    return text if encode_only else deserialize(json.loads(text))


class RestRig:
    def __init__(self):
        from fastapi import FastAPI
        from fastapi.testclient import TestClient
        from openpectus.protocol.aggregator_dispatcher import AggregatorDispatcher
        from openpectus.protocol.dispatch_interface import AGGREGATOR_REST_PATH
        self.path = AGGREGATOR_REST_PATH
        self.disp = AggregatorDispatcher()
        self.received = []
        self.reply = None

        async def handler(msg):
            self.received.append(msg)
            return self.reply
        self.disp.set_register_handler(handler)
        app = FastAPI()
        app.include_router(self.disp.router)
        self.client = TestClient(app)

    def exchange(self, msg, reply):
        from openpectus.protocol.serialization import serialize, deserialize
        self.received.clear()
        self.reply = reply
        r = self.client.post(self.path, json=serialize(msg))            # as EngineDispatcher.send_registration_msg_async
        if r.status_code != 200:
            raise RuntimeError(f"http {r.status_code}")
        got_reply = deserialize(r.json())
        return (self.received[0] if self.received else None), got_reply

    def close(self):
        try:
            self.client.close()
        except Exception:  # noqa: BLE001
            pass


# ---------------------------------------------------------------------------------------------------------------------
# comparison / classification

def _json_key(k, received_keys=()) -> str:
    """the JSON object key a non-string dict key turns into"""
    if isinstance(k, bool):
        return "true" if k else "false"
    if isinstance(k, float):
        if repr(k) in received_keys:
            return repr(k)
        for rk in received_keys:                     # another spelling of the same float (1e16 / 1e+16)
            if isinstance(rk, str):
                try:
                    if float(rk) == k and rk.strip() == rk and not rk.lstrip("-").isdigit():
                        return rk
                except ValueError:
                    pass
        return repr(k)
    return str(k)


def _stringify_nonstring_keys(obj, received=None):
    """what JSON object syntax does to a model_dump(): dict keys become strings (later duplicates win); `received` is
    the structure that came back, consulted only for the spelling of float keys"""
    if isinstance(obj, dict):
        out = {}
        rk = tuple(received) if isinstance(received, dict) else ()
        for k, v in obj.items():
            nk = k if isinstance(k, str) else _json_key(k, rk)
            out[nk] = _stringify_nonstring_keys(v, received.get(nk) if isinstance(received, dict) else None)
        return out
    if isinstance(obj, (list, tuple)):
        rec = received if isinstance(received, (list, tuple)) and len(received) == len(obj) else [None] * len(obj)
        return [_stringify_nonstring_keys(x, r) for x, r in zip(obj, rec)]
    if isinstance(obj, (set, frozenset)):
        return sorted((_stringify_nonstring_keys(x) for x in obj), key=repr)
    return obj


def _has_nonstring_key(obj) -> bool:
    if isinstance(obj, dict):
        return any(not isinstance(k, str) for k in obj) or any(_has_nonstring_key(v) for v in obj.values())
    if isinstance(obj, (list, tuple, set, frozenset)):
        return any(_has_nonstring_key(x) for x in obj)
    return False


def _norm_sets(obj):
    if isinstance(obj, dict):
        return {k: _norm_sets(v) for k, v in obj.items()}
    if isinstance(obj, (list, tuple)):
        return [_norm_sets(x) for x in obj]
    if isinstance(obj, (set, frozenset)):
        return sorted((_norm_sets(x) for x in obj), key=repr)
    return obj


def _is_nonfinite(x) -> bool:
    return isinstance(x, float) and not math.isfinite(x)


def _contains(obj, pred) -> bool:
    """pred holds for some value (not dict key) inside a dumped structure"""
    if isinstance(obj, dict):
        return any(_contains(v, pred) for v in obj.values())
    if isinstance(obj, (list, tuple, set, frozenset)):
        return any(_contains(x, pred) for x in obj)
    return pred(obj)


def _eq_nan(a, b) -> bool:
    """== on dumped structures, except that nan equals nan"""
    if isinstance(a, float) and isinstance(b, float) and math.isnan(a) and math.isnan(b):
        return True
    if isinstance(a, dict) and isinstance(b, dict):
        return a.keys() == b.keys() and all(_eq_nan(v, b[k]) for k, v in a.items())
    if isinstance(a, (list, tuple)) and isinstance(b, (list, tuple)):
        return len(a) == len(b) and all(_eq_nan(x, y) for x, y in zip(a, b))
    return a == b


def same_message(a, b) -> bool:
    """pydantic's model equality (same class, equal field values) with nan == nan"""
    from pydantic import BaseModel
    if isinstance(a, BaseModel) or isinstance(b, BaseModel):
        return type(a) is type(b) and all(same_message(getattr(a, f), getattr(b, f)) for f in type(a).model_fields)
    if isinstance(a, float) and isinstance(b, float) and math.isnan(a) and math.isnan(b):
        return True
    if isinstance(a, dict) and isinstance(b, dict):
        return a.keys() == b.keys() and all(same_message(v, b[k]) for k, v in a.items())
    if isinstance(a, (list, tuple)) and isinstance(b, (list, tuple)):
        return len(a) == len(b) and all(same_message(x, y) for x, y in zip(a, b))
    return a == b


def _null_nonfinite(obj):
    """what a JSON writer without inf/nan support (pydantic: ser_json_inf_nan='null') does to the values of a dumped
    structure; dict keys are left alone"""
    if isinstance(obj, dict):
        return {k: _null_nonfinite(v) for k, v in obj.items()}
    if isinstance(obj, (list, tuple)):
        return [_null_nonfinite(x) for x in obj]
    if isinstance(obj, (set, frozenset)):
        return {_null_nonfinite(x) for x in obj}
    return None if _is_nonfinite(obj) else obj


NF_MECH = "C26.non_finite_float_nulled_by_rpc_request_envelope"


def classify_mismatch(orig, back):
    """narrow causal shape of a round-trip difference"""
    try:
        d0, d1 = orig.model_dump(), back.model_dump()
    except Exception:  # noqa: BLE001
        return None
    if type(orig) is type(back) and _has_nonstring_key(d0) and not _has_nonstring_key(d1):
        if _eq_nan(_norm_sets(_stringify_nonstring_keys(d0, d1)), _norm_sets(d1)):
            # the ONLY difference: int/float dict keys came back as their JSON object-key strings
            return "C26.non_string_dict_keys"
    return None


def deep_types(obj):
    if isinstance(obj, dict):
        return {repr(k): deep_types(v) for k, v in obj.items()}
    if isinstance(obj, (list, tuple)):
        return [deep_types(x) for x in obj]
    if isinstance(obj, (set, frozenset)):
        return sorted(type(x).__name__ for x in obj)
    return type(obj).__name__


def nulled_reference(path: str, orig):
    """Only for the rpc request envelope and only when the real serialize(orig) still holds a non-finite float value (so
    a loss cannot have happened in serialize): what the real deserialize makes of serialize(orig) with exactly those
    values replaced by null - ("msg", message) or ("exc", text of the ProtocolDeserializationException)"""
    from openpectus.protocol.serialization import serialize, deserialize
    from openpectus.protocol.exceptions import ProtocolDeserializationException
    if path != "rpc-request":
        return None
    try:
        ser = serialize(orig)
        if not _contains(ser, _is_nonfinite):
            return None
        return "msg", deserialize(_null_nonfinite(ser))
    except ProtocolDeserializationException as ex:
        return "exc", str(ex)
    except Exception:  # noqa: BLE001
        return None


def judge(path: str, orig, back_call, res: Result, case):
    from openpectus.protocol.exceptions import ProtocolDeserializationException
    ref = nulled_reference(path, orig)
    try:
        back = back_call()
    except ProtocolDeserializationException as ex:
        mech = NF_MECH if ref is not None and ref[0] == "exc" and ref[1] == str(ex) else None
        try:
            if _has_nonstring_key(orig.model_dump()):
                res.count("rejected_after_key_stringification")
        except Exception:  # noqa: BLE001
            pass
        res.violation(mech, f"[{path}] {type(orig).__name__} did not survive: ProtocolDeserializationException: {str(ex)[:300]}", case)
        return
    except Exception as ex:  # noqa: BLE001
        res.violation(None, f"[{path}] {type(orig).__name__} did not survive: {type(ex).__name__}: {str(ex)[:300]}", case)
        return
    if type(back) is not type(orig):
        res.violation(None, f"[{path}] sent {type(orig).__module__}.{type(orig).__qualname__}, received "
                            f"{type(back).__module__}.{type(back).__qualname__}", case)
        return
    if back != orig and not (_contains(orig.model_dump(), lambda x: isinstance(x, float) and math.isnan(x))
                             and same_message(orig, back)):
        diff = _first_diff(orig.model_dump(), back.model_dump())
        if ref is not None and ref[0] == "msg" and type(ref[1]) is type(orig):
            # the message with exactly its non-finite float values nulled explains what was received, alone or together
            # with the (independent) stringification of numeric dict keys
            if same_message(ref[1], back):
                res.violation(NF_MECH, f"[{path}] {type(orig).__name__} changed in transit at {diff}", case)
                return
            if classify_mismatch(ref[1], back) == "C26.non_string_dict_keys":
                res.violation(NF_MECH, f"[{path}] {type(orig).__name__} changed in transit at {diff}", case)
                res.violation("C26.non_string_dict_keys", f"[{path}] {type(orig).__name__} changed in transit (beside "
                              f"nulled non-finite floats) at {_first_diff(ref[1].model_dump(), back.model_dump())}", case)
                return
        mech = classify_mismatch(orig, back)
        res.violation(mech, f"[{path}] {type(orig).__name__} changed in transit at {diff}", case)
        return
    if deep_types(orig.model_dump()) != deep_types(back.model_dump()):
        res.count("equal_but_field_value_type_changed")


def _first_diff(a, b, path="$"):
    if isinstance(a, float) and isinstance(b, float) and math.isnan(a) and math.isnan(b):
        return None
    if type(a) is not type(b) and not (isinstance(a, (int, float)) and isinstance(b, (int, float))):
        return f"{path}: {a!r} ({type(a).__name__}) -> {b!r} ({type(b).__name__})"[:300]
    if isinstance(a, dict):
        for k in a:
            if k not in b:
                return f"{path}: key {k!r} ({type(k).__name__}) missing; received keys {list(b)[:6]!r}"[:300]
            d = _first_diff(a[k], b[k], f"{path}.{k}")
            if d:
                return d
        for k in b:
            if k not in a:
                return f"{path}: unexpected key {k!r}"
        return None
    if isinstance(a, (list, tuple)):
        if len(a) != len(b):
            return f"{path}: length {len(a)} -> {len(b)}"
        for i, (x, y) in enumerate(zip(a, b)):
            d = _first_diff(x, y, f"{path}[{i}]")
            if d:
                return d
        return None
    if a != b:
        return f"{path}: {a!r} -> {b!r}"[:300]
    return None


# ---------------------------------------------------------------------------------------------------------------------
# malformed envelopes

def malformed_checks(rnd: random.Random, classes, res: Result, n_random: int, enumerate_names: bool):
    import openpectus.protocol.aggregator_messages as AM
    import openpectus.protocol.engine_messages as EM
    import openpectus.protocol.messages as M
    from openpectus.protocol.serialization import serialize, deserialize
    from openpectus.protocol.exceptions import ProtocolDeserializationException
    namespaces = (AM, EM, M)
    ns_names = [ns.__name__ for ns in namespaces]

    def try_(env, must_reject: bool, what: str):
        res.count("malformed_envelopes")
        case = {"kind": "malformed", "what": what, "envelope": repr(env)[:500]}
        try:
            out = deserialize(env)
        except ProtocolDeserializationException:
            res.count("malformed_rejected_as_protocol_error")
            return
        except BaseException as ex:  # noqa: BLE001 - 'nothing else' includes non-Exception escapes
            res.violation(None, f"malformed envelope ({what}) raised {type(ex).__name__}: {str(ex)[:200]} instead of "
                                f"ProtocolDeserializationException; envelope {repr(env)[:200]}", case)
            if isinstance(ex, (KeyboardInterrupt, SystemExit)):
                raise
            return
        if not isinstance(out, M.MessageBase):
            res.violation(None, f"malformed envelope ({what}) returned a {type(out).__name__}, not a message", case)
        elif must_reject:
            res.violation(None, f"malformed envelope ({what}) was accepted as {type(out).__name__}; envelope {repr(env)[:200]}", case)
        else:
            res.count("malformed_tolerated_not_asserted")

    good = [serialize(Gen(rnd).model(c)) for c in classes]
    # (1) every attribute name of every namespace as _type (enumerated)
    if enumerate_names:
        for ns in namespaces:
            for name in sorted(set(dir(ns)) | set(vars(ns))):
                res.count("namespace_attribute_names_tried")
                target = getattr(ns, name, None)
                is_msg = isinstance(target, type) and issubclass(target, M.MessageBase)
                for base in (rnd.choice(good), {}):
                    env = dict(base)
                    env["_type"], env["_ns"] = name, ns.__name__
                    try_(env, must_reject=not is_msg, what=f"_type names the non-message attribute {name!r}"
                         if not is_msg else f"_type {name!r} with foreign fields")
        res.exhaustive_parts.append("every attribute name (dir() and vars()) of the three protocol namespaces used as _type")
    # (2) generated malformations
    junk_types = ["Nope", "", "pingmsg", "PingMsg ", "Msg.MessageBase", "MessageBase.__init__", "__class__", "__dict__",
                  "__builtins__", "__loader__", "__spec__", "Mdl", "Sequence", "print_sequence_range", "WebPushNotification",
                  "NotificationTopic", "__version__", "Msg", "M", "logging", "os", "object", "type", "BaseModel", "é", "\x00"]
    junk_ns = ["", "os", "builtins", "openpectus.protocol", "openpectus.protocol.models", "openpectus.protocol.serialization",
               "openpectus.aggregator.models", "OPENPECTUS.PROTOCOL.MESSAGES", "openpectus.protocol.messages ", "messages",
               "openpectus/protocol/messages", "__main__", "pydantic"]
    non_str = [None, 5, 1.5, True, [], ["PingMsg"], {}, {"a": 1}]
    for _ in range(n_random):
        base = dict(rnd.choice(good))
        k = rnd.randrange(9)
        if k == 0:
            del base["_type"]
            try_(base, True, "missing _type")
        elif k == 1:
            del base["_ns"]
            try_(base, True, "missing _ns")
        elif k == 2:
            base["_type"] = rnd.choice(junk_types)
            ns = namespaces[ns_names.index(base["_ns"])]
            tgt = getattr(ns, base["_type"], None) if isinstance(base["_type"], str) else None
            try_(base, not (isinstance(tgt, type) and issubclass(tgt, M.MessageBase)), f"unknown _type {base['_type']!r}")
        elif k == 3:
            base["_ns"] = rnd.choice(junk_ns)
            try_(base, True, f"unknown _ns {base['_ns']!r}")
        elif k == 4:
            base["_type"] = rnd.choice(non_str)
            try_(base, True, f"_type of JSON type {type(base['_type']).__name__}")
        elif k == 5:
            base["_ns"] = rnd.choice(non_str)
            try_(base, True, f"_ns of JSON type {type(base['_ns']).__name__}")
        elif k == 6:
            env = rnd.choice([None, 1, 1.5, "x", "", [], [1], [base], True, json.dumps(base, default=str)])
            try_(env, True, f"envelope of JSON type {type(env).__name__}")
        elif k == 7:
            # _type of another namespace's class (known type, wrong namespace)
            other = rnd.choice(classes)
            ns = rnd.choice(namespaces)
            if getattr(ns, other.__qualname__, None) is None:
                env = dict(serialize(Gen(rnd).model(other)))
                env["_ns"] = ns.__name__
                try_(env, True, f"_type {other.__qualname__!r} does not exist in {ns.__name__}")
        else:
            # wrong JSON types in the fields: no crash with anything but the protocol error
            fields = [f for f in base if not f.startswith("_")]
            if fields:
                f = rnd.choice(fields)
                base[f] = rnd.choice([None, 5, "5", 1.5, True, [], [1], {}, {"a": []}, "x"])
            try_(base, False, "wrong JSON type in a field")


# ---------------------------------------------------------------------------------------------------------------------

def plan(tier, seed):
    shards = 16 if tier == "quick" else 48
    per_class = 200 if tier == "quick" else 20000
    rest = 200 if tier == "quick" else 3000
    malformed = 4000 if tier == "quick" else 200000
    return [{"seed": seed * 1000003 + i, "shard": i, "shards": shards, "per_class": -(-per_class // shards),
             "rest": -(-rest // shards), "malformed": malformed // shards} for i in range(shards)]


def to_case(path, msg):
    from openpectus.protocol.serialization import serialize
    try:
        payload = repr(serialize(msg))
    except Exception as ex:  # noqa: BLE001
        payload = f"<unserialisable: {ex}>"
    return {"kind": "roundtrip", "path": path, "class": f"{type(msg).__module__}.{type(msg).__qualname__}", "python_repr": payload[:4000]}


def run_shard(spec):
    import openpectus.protocol.aggregator_messages as AM
    import openpectus.protocol.engine_messages as EM
    import openpectus.protocol.messages as M
    res = Result()
    rnd = random.Random(spec["seed"])
    classes = message_classes()
    res.count("message_classes", len(classes) if spec["shard"] == 0 else 0)
    if spec["shard"] == 0:
        res.notes.append("message classes: " + ", ".join(f"{c.__module__.rsplit('.', 1)[-1]}.{c.__qualname__}" for c in classes))
    reply_classes = [c for c in classes if c.__module__ == M.__name__]
    for cls in classes:
        for _ in range(spec["per_class"]):
            g = Gen(rnd)
            msg = g.model(cls)
            case = to_case("rpc-request", msg)
            res.count("rpc_round_trips")
            judge("rpc-request", msg, lambda m=msg: rpc_request_path(m), res, case)
            if cls in reply_classes:
                res.count("reply_path_round_trips")
                judge("rpc-reply", msg, lambda m=msg: rpc_reply_path(m), res, to_case("rpc-reply", msg))
            kinds = sorted(g.nonfinite) if _contains(msg.model_dump(), _is_nonfinite) else ()
            for kind in kinds:
                res.count(f"nonfinite_in_{kind}_float_field_rpc_request_judged")
            encodable = True
            try:
                json_text_path(msg, encode_only=True)
            except TypeError:
                # the json module cannot encode this model_dump() (a set): such a message never travels as an rpc
                # result; the hop itself is not available, so nothing to judge
                encodable = False
                res.count("json_text_not_encodable_by_json_module_not_judged")
            except Exception:  # noqa: BLE001 - judged below
                pass
            if encodable:
                res.count("json_text_round_trips")
                judge("json-text", msg, lambda m=msg: json_text_path(m), res, to_case("json-text", msg))
                for kind in kinds:
                    res.count(f"nonfinite_in_{kind}_float_field_json_text_judged")
            if _contains(msg.model_dump(), lambda x: isinstance(x, float) and math.isnan(x)):
                res.count("nan_round_trips_judged")
            if g.long_string:
                res.count("very_long_string_round_trips")
            key = (cls.__module__, cls.__qualname__, tuple(g.trace[:12]))
            res.case(key if g.nondefault else None,
                     sample={"class": cls.__qualname__, "python_repr": case["python_repr"][:400]} if g.nondefault else None)
    # REST path through the real route
    rig = RestRig()
    try:
        for _ in range(spec["rest"]):
            g = Gen(rnd)
            msg = g.model(EM.RegisterEngineMsg)
            reply = g.model(AM.RegisterEngineReplyMsg)
            res.count("rest_round_trips")
            try:
                got_msg, got_reply = rig.exchange(msg, reply)
            except Exception as ex:  # noqa: BLE001
                res.violation(None, f"[rest] exchange failed: {type(ex).__name__}: {str(ex)[:300]}", to_case("rest", msg))
                continue
            judge("rest-request", msg, lambda m=got_msg: m, res, to_case("rest-request", msg))
            judge("rest-reply", reply, lambda m=got_reply: m, res, to_case("rest-reply", reply))
            res.case(("rest", tuple(g.trace[:12])))
    finally:
        rig.close()
    malformed_checks(rnd, classes, res, spec["malformed"], enumerate_names=True)
    return res
