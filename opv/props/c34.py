"""C34 - CSV export is a faithful sample-and-hold of the plot log.

Reference sample-and-hold vs. the CSV text produced by the real `generate_csv_string`, parsed back with csv.reader.
See DESIGN.md C34."""
from __future__ import annotations

import csv
import io
import random
from datetime import datetime, timezone

from opv.core import Result

ID = "C34"
LEVEL = "exploration"
TECHNIQUE = "runtime monitoring: reference sample-and-hold compared cell by cell with the parsed-back CSV text"
RULE = ("seeded plot logs: 1-6 tags, 0-12 records per tag on a shared pool of 3-16 candidate times (integers and "
        "halves, so tags interleave), late-starting tags, repeated times within a tag (p=0.35 of logs), records stored "
        "shuffled; values int / float / str (strings with comma, quote, newline), unique per log so that a shown value "
        "identifies the record it came from; half of the logs carry a 'Clock' tag recorded at every distinct time "
        "with value = time, which makes the row order directly observable. distinct = per-tag sorted time lists; "
        "non-trivial = at least two tags with different time sets")
ASSUMPTIONS = [
    "rows correspond to the sorted distinct recorded times (the export has no time column): row count must equal the "
    "number of distinct times and row i is judged against the i-th smallest time; with a Clock tag the order is also "
    "read from the file itself",
    "when a tag has several records at the same time, any of their values is accepted as 'the latest' for that time",
    "empty-string and None values are not generated (indistinguishable from an empty cell)",
    "cells are compared as text: str(int), repr(float), the string itself",
    "generate_csv_string is called directly with routers.dto objects (pure function; the route only adds the DB read)",
]
REQUIRED = {"cells_checked": 50000, "cells_expected_empty_before_first_record": 2000, "logs_with_repeated_time": 500,
            "clock_rows_checked": 5000, "logs_with_late_starting_tag": 1000}
EXHAUSTIVE_ALL = False

K_LATE = "C34.late_starting_tag_shows_future_value"
K_REPEAT = "C34.repeated_time_lags_one_pop_per_row"


def plan(tier, seed):
    n = 20000 if tier == "quick" else 1000000
    shards = 16 if tier == "quick" else 48
    return [{"seed": seed * 1000003 + i, "n": n // shards} for i in range(shards)]


STR_EXTRA = [",", '"', "\n", " ", ";", "'", "é", ", \""]


def gen_case(rnd: random.Random):
    ntags = rnd.randint(1, 6)
    npool = rnd.randint(3, 16)
    pool = sorted(rnd.sample([x / 2 for x in range(0, 60)], npool))
    allow_repeat = rnd.random() < 0.35
    counter = [0]

    def val(kind):
        counter[0] += 1
        n = counter[0]
        if kind == "int":
            return n
        if kind == "float":
            return n + rnd.choice([0.5, 0.25, 0.125])
        return f"v{n}" + (rnd.choice(STR_EXTRA) + f"x{n}" if rnd.random() < 0.3 else "")
    tags = []
    for j in range(ntags):
        kind = rnd.choice(["int", "float", "str"])
        nrec = rnd.randint(0, 12)
        start = rnd.randrange(npool) if rnd.random() < 0.5 else 0      # late start
        cand = pool[start:]
        times = []
        for _ in range(nrec):
            if allow_repeat and times and rnd.random() < 0.35:
                times.append(rnd.choice(times))
            else:
                times.append(rnd.choice(cand))
        if not allow_repeat:
            times = list(dict.fromkeys(times))
        recs = [[t, val(kind)] for t in times]
        rnd.shuffle(recs)
        tags.append({"name": f"T{j}", "unit": rnd.choice([None, "L/h", "%", "degC"]), "kind": kind, "recs": recs})
    if rnd.random() < 0.5:
        all_times = sorted({r[0] for t in tags for r in t["recs"]})
        recs = [[t, float(t)] for t in all_times]
        rnd.shuffle(recs)
        tags.insert(rnd.randrange(len(tags) + 1), {"name": "Clock", "unit": "s", "kind": "float", "recs": recs})
    return {"tags": tags}


def _text(v):
    return repr(v) if isinstance(v, float) else str(v)


def check_case(case, res: Result):
    import openpectus.aggregator.routers.dto as Dto
    from openpectus.aggregator.csv_generator import generate_csv_string

    tags = case["tags"]
    entries = {}
    for t in tags:
        vt = {"int": Dto.ProcessValueType.INT, "float": Dto.ProcessValueType.FLOAT, "str": Dto.ProcessValueType.STRING}[t["kind"]]
        entries[t["name"]] = Dto.PlotLogEntry(
            name=t["name"], value_unit=t["unit"], value_type=vt,
            values=[Dto.PlotLogEntryValue(value=v, tick_time=tm) for tm, v in t["recs"]])
    plot_log = Dto.PlotLog(entries=entries)
    now = datetime(2026, 1, 1, tzinfo=timezone.utc)
    recent_run = Dto.RecentRun(engine_id="e", run_id="r", started_date=now, completed_date=now, uod_name="u",
                               uod_filename="f", uod_author_name="a", uod_author_email="m", engine_computer_name="c",
                               engine_version="1", engine_hardware_str="h", aggregator_computer_name="ac",
                               aggregator_version="1", contributors=[])
    viol: dict = {}
    try:
        text = generate_csv_string(plot_log, recent_run).getvalue()
    except Exception as ex:
        res.case(None, sample=None)
        res.violation(None, f"generate_csv_string raised {type(ex).__name__}: {ex}", case)
        return
    rows = list(csv.reader(io.StringIO(text, newline="")))
    try:
        blank = rows.index([])
    except ValueError:
        res.case(None)
        res.violation(None, "no blank line between metadata and header", case)
        return
    header = rows[blank + 1]
    data = rows[blank + 2:]
    res.count("csv_parsed")
    times = sorted({r[0] for t in tags for r in t["recs"]})
    names = [t["name"] for t in tags]
    if len(header) != len(tags) or any(not h.startswith(n) for h, n in zip(header, names)):
        viol.setdefault(None, f"header {header} does not list the tags {names} in order")
    if len(data) != len(times):
        viol.setdefault("C34.row_count_differs_from_distinct_times",
                        f"{len(data)} data rows for {len(times)} distinct recorded times")
    late = False
    repeated = False
    for j, t in enumerate(tags):
        recs = t["recs"]
        tms = [r[0] for r in recs]
        has_repeat = len(set(tms)) != len(tms)
        repeated = repeated or has_repeat
        first = min(tms) if tms else None
        if first is not None and times and first > times[0]:
            late = True
        for i, tm in enumerate(times[:len(data)]):
            row = data[i]
            if len(row) != len(tags):
                viol.setdefault(None, f"row {i} has {len(row)} cells for {len(tags)} tags")
                break
            got = row[j]
            upto = [r for r in recs if r[0] <= tm]
            res.count("cells_checked")
            if not upto:
                allowed = {""}
                if recs:
                    res.count("cells_expected_empty_before_first_record")
            else:
                mx = max(r[0] for r in upto)
                allowed = {_text(r[1]) for r in upto if r[0] == mx}
            if got in allowed:
                continue
            src = [r for r in recs if _text(r[1]) == got]
            where = (f"tag {t['name']} row {i} (time {tm}): cell shows {got!r}, expected "
                     f"{sorted(allowed) if allowed != {''} else 'an empty cell'}; records of the tag "
                     f"{sorted(recs, key=lambda r: r[0])}")
            if not upto and src and src[0][0] == first and src[0][0] > tm:
                # causal shape 1: the tag has no record yet and the cell shows its FIRST (future) record
                viol.setdefault(K_LATE, where + f" -> value recorded later, at time {src[0][0]}")
            elif upto and src and src[0][0] < max(r[0] for r in upto) and has_repeat and \
                    _dup_at_or_before(recs, tm):
                # causal shape 2: stale value of the same tag, and the tag has records sharing one time at/before the row
                viol.setdefault(K_REPEAT, where + f" -> stale value from time {src[0][0]}; the tag repeats a time")
            elif src and src[0][0] > tm:
                viol.setdefault("C34.future_value_of_started_tag", where + f" -> value recorded later, at {src[0][0]}")
            elif src:
                viol.setdefault("C34.stale_value", where + f" -> value from time {src[0][0]}")
            else:
                viol.setdefault(None, where + " -> not a value of this tag at all")
        if t["name"] == "Clock" and len(data) == len(times):
            col = []
            for row in data:
                try:
                    col.append(float(row[j]))
                except (ValueError, IndexError):
                    col.append(None)
            res.count("clock_rows_checked", len(col))
            if any(a is None for a in col) or any(b <= a for a, b in zip(col, col[1:]) if a is not None and b is not None):
                viol.setdefault("C34.rows_not_in_strictly_increasing_time_order", f"Clock column reads {col[:20]}")
    if late:
        res.count("logs_with_late_starting_tag")
    if repeated:
        res.count("logs_with_repeated_time")
    tsets = [tuple(sorted(r[0] for r in t["recs"])) for t in tags]
    nontrivial = len({ts for ts in tsets}) >= 2
    res.case(tuple(tsets) if nontrivial else None,
             sample={"tags": [{"name": t["name"], "recs": t["recs"][:6]} for t in tags[:3]], "rows": data[:4]})
    for mech, msg in viol.items():
        res.violation(mech, msg[:1500], case)


def _dup_at_or_before(recs, tm):
    seen = set()
    for r in recs:
        if r[0] <= tm:
            if r[0] in seen:
                return True
            seen.add(r[0])
    return False


def run_shard(spec):
    res = Result()
    rnd = random.Random(spec["seed"])
    for _ in range(spec["n"]):
        check_case(gen_case(rnd), res)
    return res


def replay(case):
    res = Result()
    check_case(case, res)
    return res
