"""C15 - Run log is always producible and well-formed.

The run-log monitor (opv.rigs.cmd_rig.check_runlog) is evaluated after every tick and after every request of a
stratified mix of workloads. See DESIGN.md C15."""
from __future__ import annotations

import random

from opv.core import Result
from opv.gen_pcode import Gen, trajectory, shape_hash

ID = "C15"
LEVEL = "exploration"
TECHNIQUE = "runtime monitoring: well-formedness invariant over Tracking.get_runlog() sampled at every tick and request"
RULE = ("five strata of seeded runs, each sampled after every tick and after every request: (plain) C02-style generated "
        "methods; (stop) the same with user Stop/Restart/Start/Pause/Hold at random ticks; (req) cancel/force requests "
        "through EngineMessageHandlers on random run-log items at random ticks; (bad) methods with 1-3 malformed or "
        "invalid-argument lines (`Hold: -1s`, `Pause: 5 x`, `Wait: abc`, unknown commands, bad units, missing "
        "arguments, unknown tags) spliced into generated methods; (inj) valid and invalid snippets injected at random "
        "ticks. distinct = (stratum, method shape hash, event kinds); non-trivial = at least 5 run-log items and at "
        "least one conclusive item, plus the stratum's own event actually happened")
ASSUMPTIONS = [
    "'completed instruction appears as a completed item' is checked by run-log name (instruction + argument) over the "
    "nodes whose completed flag is set at the sampling point; Stop/Restart, blank, comment, program, injected wrapper "
    "and unparsable lines are excluded",
    "the run log is sampled between ticks (never concurrently with a tick)",
]
REQUIRED = {"runlog_evaluations": 20000, "runlog_items_checked": 100000, "conclusive_items_checked": 50000,
            "completed_nodes_checked": 50000, "runs_plain": 200, "runs_stop": 200, "runs_req": 200, "runs_bad": 200,
            "runs_inj": 200, "requests_sent": 300, "bad_lines_reached": 100, "stops_done": 100}

BAD_LINES = ("Hold: -1s", "Pause: 5 x", "Pause: -2s", "Hold: 3", "Hold: abc", "Wait: abc", "Wait: -1s", "Wait", "Foo", "Foo: 1",
             "Base: xyz", "Mark", "Set2: abc", "Set2: 3", "Mode: C", "Info", "Run counter: x", "Unpause", "Unhold",
             "Watch: Nope > 1", "Simulate: Nope = 1", "Simulate off: Nope", "Pause: 0.2", "Hold: 1 parsec", "Stop: now",
             "Restart: 1", "Set1", "Set1: x", "Call macro: Missing", "End block", "Increment run counter: 2",
             "Warning", "Error: boom", "Notify: hello", "Batch: b1", "Pause: 0.2s", "Hold: 0.2s")
INJECT = ("Mark: inj\n", "Long\n", "Short\nMark: inj2\n", "Wait: 0.2s\nMark: inj3\n", "Block: bi\n    Mark: inb\n    End block\n",
          "Hold: -1s\n", "Pause: 5 x\n", "Foo\n", "Pause: 0.2s\n", "Watch: FT01 > 1 L/h\n    Mark: iw\n", "Fail\n",
          "Set2: abc\n", "Simulate: X = 2\n", "Info: hi\n")
STRATA = ("plain", "stop", "req", "bad", "inj")


def plan(tier, seed):
    n = 3200 if tier == "quick" else 80000
    shards = 16 if tier == "quick" else 50
    return [{"seed": seed * 1000003 + i, "n": n // shards, "max_depth": 3 if tier == "quick" else 4}
            for i in range(shards)]


def gen_case(rnd: random.Random, max_depth=3, stratum=None):
    from opv.rigs.cmd_rig import insert_line
    stratum = stratum or rnd.choice(STRATA)
    g = Gen(rnd, allow=("mark", "uod", "wait", "block", "watch", "alarm", "macro", "thr", "blank", "base", "sim",
                        "counter", "info", "pausehold"),
            max_depth=max_depth, thr_values=("0.2", "0.5", "1", "0", "0.3"),
            uod_cmds=("Short", "Long", "Long2", "Short", "Other", "Set1: 3", "Set2: 2.5 L/h", "Mode: A", "Drive1"))
    text = g.program(rnd.randint(3, 9))
    sched: list[list] = []
    if stratum == "stop":
        for _ in range(rnd.randint(1, 4)):
            t = rnd.randint(2, 40)
            k = rnd.choice(["Stop", "Restart", "Pause", "Hold", "Stop", "Restart"])
            sched.append([t, "user", k])
            if k == "Stop" and rnd.random() < 0.6:
                sched.append([t + rnd.randint(2, 5), "user", "Start"])
            if k in ("Pause", "Hold"):
                sched.append([t + rnd.randint(1, 6), "user", "Un" + k.lower()])
    elif stratum == "req":
        for _ in range(rnd.randint(1, 6)):
            sched.append([rnd.randint(2, 45), rnd.choice(["cancel", "force"]), rnd.randint(0, 30)])
    elif stratum == "bad":
        for _ in range(rnd.randint(1, 3)):
            t2 = insert_line(text, rnd.randint(1, 14), rnd.choice(BAD_LINES))
            text = t2 if t2 is not None else text + rnd.choice(BAD_LINES) + "\n"
        if rnd.random() < 0.5:
            sched.append([rnd.randint(8, 40), "user", rnd.choice(["Unpause", "Stop", "Restart", "Unhold"])])
    elif stratum == "inj":
        for _ in range(rnd.randint(1, 4)):
            sched.append([rnd.randint(2, 40), "inject", rnd.choice(INJECT)])
    sched.sort(key=lambda s: s[0])
    return {"stratum": stratum, "text": text, "traj": trajectory(rnd, 200), "sched": sched,
            "long_n": rnd.choice([1, 2, 4, 4, 6])}


def check_case(case, res: Result):
    from opv.rigs import engine_rig as R
    from opv.rigs import cmd_rig as CR

    CR.install_schedule_hook()
    CR.REQS.clear()
    rig = R.EngineRig(case["text"], long_n=case.get("long_n", 4))
    viol: list[tuple] = []
    sched = [tuple(s) for s in case["sched"]]
    last_sched = max([s[0] for s in sched], default=0)
    requested: set = set()
    happened = set()
    max_items = 0
    max_concl = 0
    broken = False
    try:
        req = CR.Requests(rig)
        rig.start()
        last_ev = 0
        while rig.k < 90 and not broken:
            for (t, kind, arg) in sched:
                if t != rig.k:
                    continue
                if kind == "user":
                    if rig.user(arg):
                        happened.add(arg)
                        if arg in ("Stop", "Restart"):
                            res.count("stops_done")
                elif kind == "inject":
                    try:
                        rig.e.inject_code(arg)
                        happened.add("inject")
                    except Exception:
                        res.count("injections_rejected")
                elif kind in ("cancel", "force"):
                    try:
                        items = rig.e.tracking.get_runlog().items
                    except Exception:
                        items = []
                    if items:
                        it = items[arg % len(items)]
                        requested.add(it.id)
                        ok = (req.cancel if kind == "cancel" else req.force)(it.id)
                        res.count("requests_sent")
                        res.count("requests_accepted" if ok else "requests_rejected")
                        happened.add(kind)
                        if CR.check_runlog(rig, res, viol, requested, completeness=False) is None:
                            broken = True
                            break
            if broken:
                break
            rig.hw.inputs["FT01"] = case["traj"][min(rig.k, len(case["traj"]) - 1)]
            n0, c0 = len(R.TRACE), len(rig.cmdlog)
            rig.tick()
            if len(R.TRACE) != n0 or len(rig.cmdlog) != c0:
                last_ev = rig.k
            rl = CR.check_runlog(rig, res, viol, requested)
            if rl is None:
                broken = True
                break
            max_items = max(max_items, len(rl.items))
            max_concl = max(max_concl, sum(1 for i in rl.items if str(i.state) in CR.CONCLUSIVE))
            if rig.k > last_sched and rig.k - last_ev >= 12:
                break
        if rig.errors:
            res.count("runs_ending_in_error")
            if case["stratum"] == "bad":
                res.count("bad_lines_reached")
                happened.add("bad")
        res.count("runs_" + case["stratum"])
        own = {"plain": True, "stop": bool(happened & {"Stop", "Restart", "Pause", "Hold"}),
               "req": bool(happened & {"cancel", "force"}), "bad": "bad" in happened, "inj": "inject" in happened}
        interesting = (max_items >= 5 and max_concl >= 1 and own[case["stratum"]]) or broken
        res.case((case["stratum"], shape_hash(case["text"]), sorted({s[1] + ":" + str(s[2]).split("\n")[0] for s in sched}))
                 if interesting else None,
                 sample={"stratum": case["stratum"], "method": case["text"], "sched": case["sched"], "ticks": rig.k,
                         "max_items": max_items})
    finally:
        rig.close()
    seen = set()
    for mech, msg in viol:
        key = (mech, msg.split(" (tick")[0].split(" at tick")[0])
        if key in seen:
            continue
        seen.add(key)
        res.violation(mech, msg, case)


def run_shard(spec):
    res = Result()
    rnd = random.Random(spec["seed"])
    for i in range(spec["n"]):
        check_case(gen_case(rnd, spec.get("max_depth", 3), STRATA[i % len(STRATA)]), res)
    return res


def replay(case):
    res = Result()
    check_case(case, res)
    return res
